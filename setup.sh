#!/bin/sh
# Build the monitors (dev profile = the repository's test profile: overflow checks + debug assertions)
# and the versatiles binary, offline, from /repo's current working tree.
set -e
cd "$(dirname "$0")"
export CARGO_NET_OFFLINE=true
[ -f harness/Cargo.lock ] || cp /repo/Cargo.lock harness/Cargo.lock
CARGO_TARGET_DIR="$PWD/target/dev" cargo build --offline --manifest-path harness/Cargo.toml --bin vtv
CARGO_TARGET_DIR="$PWD/target/bin" cargo build --offline --manifest-path /repo/Cargo.toml -p versatiles --bin versatiles
echo "setup done"
