#!/usr/bin/env python3
"""Generates /verif/MANIFEST.json from the table below (kept next to the code so that it stays current)."""
import json, os
V = os.path.dirname(os.path.dirname(os.path.abspath(__file__)))

P = {
 "C15": dict(tech="reference-model monitor (64-bit set model exhaustive z<=3 incl. all ordered pairs; interval/counting model sampled to z31; independent Mercator model with tolerance band); Miri flavour in thorough",
             text="Runtime monitoring: every TileBBox / TileBBoxPyramid operation is executed on all boxes of zoom 0..3 (all ordered pairs for the binary ones, 4 empty encodings per level) and on border-biased samples up to zoom 31 and compared with an independent set model; geographic conversion is compared with an independent Mercator model. Exhaustive only for zoom<=3; beyond that 'held on the sampled executions'.",
             note="Trusted: the harness's set/interval/Mercator models, rustc overflow checks (dev profile). Known finding: geo round trip off by one row at zoom 30/31 (f64 latitude resolution).", ref="4/C15"),
}

IMPLEMENTED = ["C15"]
NOT_YET = {}

def main():
    props = [json.loads(l) for l in open(os.path.join(V, "properties.jsonl"))]
    checks = []
    na = []
    for p in props:
        i = p["id"]
        if i in IMPLEMENTED:
            d = P[i]
            checks.append({
                "property_id": i,
                "quick_cmd": f"./check {i} quick",
                "thorough_cmd": f"./check {i} thorough",
                "evidence_file": f"/verif/evidence/{i}.json",
                "replay_cmd_template": f"./check {i} --replay {{path}}",
                "engine": "vtv",
                "level_claimed": {"category": d.get("level", "exploration"), "text": d["text"], "design_ref": "DESIGN.md §" + d["ref"]},
                "level_note": d["note"],
                "technique": d["tech"],
            })
        else:
            na.append({"property_id": i, "reason": NOT_YET.get(i, "monitor not built yet in this session (runtime monitoring applies; see DESIGN.md §4)")})
    m = {
        "version": 1,
        "setup_cmd": "./setup.sh",
        "hooks": {
            "guard": "cargo feature `verif` of versatiles_pipeline (off by default)",
            "enable": "the harness depends on versatiles_pipeline with features=[\"verif\"] (harness/Cargo.toml); nothing else in /repo is conditional",
            "baseline_off_cmd": "cd /repo/$(cat /w/out/cargo_root.txt) && cargo nextest run --workspace --no-fail-fast --tool-config-file pb:/w/lib/nextest.toml --profile pb --test-threads 8 --offline",
            "source_commits": ["d553acad"],
            "add_only": True,
        },
        "engines": [{"name": "vtv", "path": "/verif/harness", "serves_properties": IMPLEMENTED,
                     "kind_free_text": "Rust harness: generators, independent codecs and reference models, guarded execution, process-sharded case runner; sanitizer flavours (Miri / TSan / ASan) driven by /verif/flavours.py in the thorough tier"}],
        "checks": checks,
        "notes": "Runtime monitoring and sanitizers only. Verdicts are three-valued (0 held / 1 violation / 2 inconclusive). Known findings: /verif/known_findings.json. Seeded breaks used to test the monitors: /verif/seeded/.",
        "not_applicable": na,
    }
    json.dump(m, open(os.path.join(V, "MANIFEST.json"), "w"), indent=1)
    print("checks:", len(checks), "not_applicable:", len(na))

if __name__ == "__main__":
    main()
