#!/usr/bin/env python3
"""Generates /verif/MANIFEST.json from the table below (kept next to the code so that it stays current)."""
import json, os
V = os.path.dirname(os.path.dirname(os.path.abspath(__file__)))

P = {
 "C01": dict(tech="differential round-trip monitor (generator -> repo writer -> repo reader and -> independent decoder written from the format specifications)",
             text="Runtime monitoring: generated tile sets (sparse/dense, zoom gaps, 256-grid and level borders, duplicates, payload sizes around 1000 bytes, > 16384 tiles) are written with the repo's writers to all five formats and every accepted (format, compression) pair; the result is read back through the repo's reader (lookups over a superset of coordinates + streams of the advertised level boxes) and through an independent decoder; both must give exactly the source mapping and declaration. Held on the generated executions only.",
             note="Trusted: the independent decoders (harness/src/codec), brotli/flate2/rusqlite crates. MBTiles only with its four legal pairs, PMTiles with its five tile types.", ref="4/C01"),
 "C02": dict(tech="differential monitor stream-vs-lookups over a zoo of sources (5 readers x own/foreign encodings, converting reader, every pipeline operation and nestings) x exhaustive small boxes + sampled border boxes, on single- and multi-threaded runtimes",
             text="Runtime monitoring: for every source kind and box (every box of zoom 0..3, both empty encodings, boxes across block / coverage borders, outside, absent levels) the collected stream is compared with single-tile lookups: same set, once each, byte-identical, nothing outside, no panic. Runs alternate between current-thread and 8-worker runtimes plus 8 concurrent streams.",
             note="Lookups are the reference. Boxes capped at 70 000 coordinates; for boxes > 4096 coordinates the lookup side is sampled around stored tiles.", ref="4/C02"),
 "C13": dict(tech="history monitor at the client boundary (solo results vs concurrent results, offset-encoding file content, in-flight counter); TSan / Miri flavours in thorough",
             text="Runtime monitoring: 2..16 OS threads (own runtimes) or tokio tasks (16 workers) issue pre-planned read_range / get_tile_data calls on one shared DataReaderFile / versatiles / pmtiles / tar reader; every result is compared with the same call executed alone. Position-dependent contents make a wrong result name the call it was mixed up with. Overlap actually achieved is measured.",
             note="Interleavings are those the OS scheduler produced (max in-flight reported), not all.", ref="4/C13"),
 "C14": dict(tech="schedule-forcing monitor: turnstile callbacks force all n! completion orders (n<=5), adversarial delays for long streams; payloads embed their coordinate; TSan / Miri flavours in thorough",
             text="Runtime monitoring: map_blob_parallel, filter_map_blob_parallel and from_coord_iter_parallel are driven with every completion order for up to 5 items (all retain masks for n<=4), adversarial delay patterns for 0..10^4 items on 2..16 workers, and buffered / sequential consumers with 7 buffer sizes; the output multiset must be exactly {(coordinate, f(input))}.",
             note="Completion order is the order in which the callbacks returned. Exhaustive only for n<=5.", ref="4/C14"),
 "C15": dict(tech="reference-model monitor (64-bit set model exhaustive z<=3 incl. all ordered pairs; interval/counting model sampled to z31; independent Mercator model with tolerance band); Miri flavour in thorough",
             text="Runtime monitoring: every TileBBox / TileBBoxPyramid operation is executed on all boxes of zoom 0..3 (all ordered pairs for the binary ones, 4 empty encodings per level) and on border-biased samples up to zoom 31 and compared with an independent set model; geographic conversion is compared with an independent Mercator model. Exhaustive only for zoom<=3; beyond that 'held on the sampled executions'.",
             note="Trusted: the harness's set/interval/Mercator models, rustc overflow checks (dev profile). Known finding: geo round trip off by one row at zoom 30/31 (f64 latitude resolution).", ref="4/C15"),
 "C16": dict(tech="differential monitor: independent encoders using the layout freedoms of the specifications -> repo readers (lookups, streams, exact coverage, declaration)",
             text="Runtime monitoring: independent encoders for versatiles v02, PMTiles v3, MBTiles, tar and directory emit valid containers that use features the repo's writers never emit (sparse block index, partial blocks, shuffled blocks, shared ranges, run lengths, shared offsets, 0..2 leaf levels, unclustered data, internal compression none/gzip/brotli, zoom gaps, './'-less members, three metadata names); the repo readers must open them and return exactly the encoded tiles, coverage and declaration.",
             note="Trusted: the independent encoders (each file is first cross-checked with the independent decoder). zstd excluded (documented as unsupported).", ref="4/C16"),
 "C18": dict(tech="generator + renderer round trip monitor over syntax trees (whitespace / quoting / list-layout variants), certain-invalid mutations, factory rejections",
             text="Runtime monitoring: random syntax trees (depth<=4) are rendered with four whitespace/quoting styles; parse_vpl(render(t)) must equal t (through the `verif` re-export). One certain syntax error injected into a valid text, unknown operations, missing and mistyped parameters must be rejected with an error, never accepted, never a panic.",
             note="Documented syntax = help.md + the value forms named in the property. Empty quoted strings / empty lists are not generated. Repeated keys must retain all values in order.", ref="4/C18"),
 "C20": dict(tech="history monitor against a map model (capacities 1..64, 10^3..10^5 operations, observable state from Debug + return values); Miri flavour in thorough",
             text="Runtime monitoring: random add / get / get_or_set(Ok|Err) histories are applied to LimitedCache<u64,u64>; after every operation length<=max_length, values returned were stored under that key, read-your-write holds, loader errors are propagated without side effects, and the most recently used entry survives the next eviction (capacity >= 2).",
             note="Evictions are inferred from the observable length; 'just used' = most recent hit or insertion.", ref="4/C20"),
}

IMPLEMENTED = ["C01","C02","C13","C14","C15","C16","C18","C20"]
NOT_YET = {}

def main():
    props = [json.loads(l) for l in open(os.path.join(V, "properties.jsonl"))]
    checks = []
    na = []
    for p in props:
        i = p["id"]
        if i in IMPLEMENTED:
            d = P[i]
            checks.append({
                "property_id": i,
                "quick_cmd": f"./check {i} quick",
                "thorough_cmd": f"./check {i} thorough",
                "evidence_file": f"/verif/evidence/{i}.json",
                "replay_cmd_template": f"./check {i} --replay {{path}}",
                "engine": "vtv",
                "level_claimed": {"category": d.get("level", "exploration"), "text": d["text"], "design_ref": "DESIGN.md §" + d["ref"]},
                "level_note": d["note"],
                "technique": d["tech"],
            })
        else:
            na.append({"property_id": i, "reason": NOT_YET.get(i, "monitor not built yet in this session (runtime monitoring applies; see DESIGN.md §4)")})
    m = {
        "version": 1,
        "setup_cmd": "./setup.sh",
        "hooks": {
            "guard": "cargo feature `verif` of versatiles_pipeline (off by default)",
            "enable": "the harness depends on versatiles_pipeline with features=[\"verif\"] (harness/Cargo.toml); nothing else in /repo is conditional",
            "baseline_off_cmd": "cd /repo/$(cat /w/out/cargo_root.txt) && cargo nextest run --workspace --no-fail-fast --tool-config-file pb:/w/lib/nextest.toml --profile pb --test-threads 8 --offline",
            "source_commits": ["d553acad"],
            "add_only": True,
        },
        "engines": [{"name": "vtv", "path": "/verif/harness", "serves_properties": IMPLEMENTED,
                     "kind_free_text": "Rust harness: generators, independent codecs and reference models, guarded execution, process-sharded case runner; sanitizer flavours (Miri / TSan / ASan) driven by /verif/flavours.py in the thorough tier"}],
        "checks": checks,
        "notes": "Runtime monitoring and sanitizers only. Verdicts are three-valued (0 held / 1 violation / 2 inconclusive). Known findings: /verif/known_findings.json. Seeded breaks used to test the monitors: /verif/seeded/.",
        "not_applicable": na,
    }
    json.dump(m, open(os.path.join(V, "MANIFEST.json"), "w"), indent=1)
    print("checks:", len(checks), "not_applicable:", len(na))

if __name__ == "__main__":
    main()
