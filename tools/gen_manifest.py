#!/usr/bin/env python3
"""Generates /verif/MANIFEST.json from the table below (kept next to the code so that it stays current)."""
import json, os
V = os.path.dirname(os.path.dirname(os.path.abspath(__file__)))

P = {
 "C01": dict(tech="differential round-trip monitor (generator -> repo writer -> repo reader and -> independent decoder written from the format specifications); conversions into sibling targets of one stem at the same time, into existing targets, the empty tile set; thorough: containers beyond 4 GiB",
             text="Runtime monitoring: generated tile sets (sparse/dense, zoom gaps, 256-grid and level borders, duplicates, payload sizes around 1000 bytes, > 16384 tiles) are written with the repo's writers to all five formats and every accepted (format, compression) pair; the result is read back through the repo's reader (lookups over a superset of coordinates + streams of the advertised level boxes) and through an independent decoder; both must give exactly the source mapping and declaration. Held on the generated executions only.",
             note="Trusted: the independent decoders (harness/src/codec), brotli/flate2/rusqlite crates. MBTiles only with its four legal pairs, PMTiles with its five tile types.", ref="4/C01"),
 "C02": dict(tech="differential monitor stream-vs-lookups over a zoo of sources (5 readers x own/foreign encodings, converting reader, every pipeline operation and nestings) x exhaustive small boxes + sampled border boxes, on single- and multi-threaded runtimes; TSan flavour and >64 MiB blocks in thorough",
             text="Runtime monitoring: for every source kind and box (every box of zoom 0..3, both empty encodings, boxes across block / coverage borders, outside, absent levels) the collected stream is compared with single-tile lookups: same set, once each, byte-identical, nothing outside, no panic. Runs alternate between current-thread and 8-worker runtimes plus 8 concurrent streams.",
             note="Lookups are the reference. Boxes capped at 70 000 coordinates; for boxes > 4096 coordinates the lookup side is sampled around stored tiles.", ref="4/C02"),
 "C13": dict(tech="history monitor at the client boundary (solo results vs concurrent results, offset-encoding file content, in-flight counter); TSan / Miri flavours in thorough",
             text="Runtime monitoring: 2..16 OS threads (own runtimes) or tokio tasks (16 workers) issue pre-planned read_range / get_tile_data calls on one shared DataReaderFile / versatiles / pmtiles / tar reader; every result is compared with the same call executed alone. Position-dependent contents make a wrong result name the call it was mixed up with. Overlap actually achieved is measured.",
             note="Interleavings are those the OS scheduler produced (max in-flight reported), not all.", ref="4/C13"),
 "C14": dict(tech="schedule-forcing monitor: turnstile callbacks force all n! completion orders (n<=5), adversarial delays for long streams; payloads embed their coordinate; inputs from ready vectors, Pending sources and stacked parallel stages; TSan / Miri flavours in thorough",
             text="Runtime monitoring: map_blob_parallel, filter_map_blob_parallel and from_coord_iter_parallel are driven with every completion order for up to 5 items (all retain masks for n<=4), adversarial delay patterns for 0..10^4 items on 2..16 workers, and buffered / sequential consumers with 7 buffer sizes; the output multiset must be exactly {(coordinate, f(input))}.",
             note="Completion order is the order in which the callbacks returned. Exhaustive only for n<=5.", ref="4/C14"),
 "C15": dict(tech="reference-model monitor (64-bit set model exhaustive z<=3 incl. all ordered pairs; interval/counting model sampled to z31; independent Mercator model with tolerance band); Miri flavour in thorough",
             text="Runtime monitoring: every TileBBox / TileBBoxPyramid operation is executed on all boxes of zoom 0..3 (all ordered pairs for the binary ones, 4 empty encodings per level) and on border-biased samples up to zoom 31 and compared with an independent set model; geographic conversion is compared with an independent Mercator model. Exhaustive only for zoom<=3; beyond that 'held on the sampled executions'.",
             note="Trusted: the harness's set/interval/Mercator models, rustc overflow checks (dev profile). Known finding: geo round trip off by one row at zoom 30/31 (f64 latitude resolution).", ref="4/C15"),
 "C16": dict(tech="differential monitor: independent encoders using the layout freedoms of the specifications -> repo readers (lookups, streams, exact coverage, declaration)",
             text="Runtime monitoring: independent encoders for versatiles v02, PMTiles v3, MBTiles, tar and directory emit valid containers that use features the repo's writers never emit (sparse block index, partial blocks, shuffled blocks, shared ranges, run lengths, shared offsets, 0..2 leaf levels, unclustered data, internal compression none/gzip/brotli, zoom gaps, './'-less members, three metadata names); the repo readers must open them and return exactly the encoded tiles, coverage and declaration.",
             note="Trusted: the independent encoders (each file is first cross-checked with the independent decoder). zstd excluded (documented as unsupported).", ref="4/C16"),
 "C18": dict(tech="generator + renderer round trip monitor over syntax trees (whitespace / quoting / list-layout variants), certain-invalid mutations, factory rejections",
             text="Runtime monitoring: random syntax trees (depth<=4) are rendered with four whitespace/quoting styles; parse_vpl(render(t)) must equal t (through the `verif` re-export). One certain syntax error injected into a valid text, unknown operations, missing and mistyped parameters must be rejected with an error, never accepted, never a panic.",
             note="Documented syntax = help.md + the value forms named in the property. Empty quoted strings / empty lists are not generated. Repeated keys must retain all values in order.", ref="4/C18"),
 "C20": dict(tech="history monitor against a map model (capacities 1..64, 10^3..10^5 operations, observable state from Debug + return values, keys whose Hash is coarser than their Eq); Miri flavour in thorough",
             text="Runtime monitoring: random add / get / get_or_set(Ok|Err) histories are applied to LimitedCache<u64,u64>; after every operation length<=max_length, values returned were stored under that key, read-your-write holds, loader errors are propagated without side effects, and the most recently used entry survives the next eviction (capacity >= 2).",
             note="Evictions are inferred from the observable length; 'just used' = most recent hit or insertion.", ref="4/C20"),
}

P.update({
 "C03": dict(tech="coverage monitor over the source zoo: every tile obtained by lookups on a probe set or by streams over widened boxes is tested against the advertised pyramid; exact level boxes for mbtiles / pmtiles / tar / directory (own and foreign encodings); containers regenerated under their name and reopened in the same process",
             text="Runtime monitoring: for container readers over irregular tile sets (own writers and independent encoders incl. PMTiles runs whose middle tiles leave the bounding box of the run's ends), the converting reader and every pipeline operation, all tiles a source returns must lie inside its advertised per-level boxes; derived-coverage formats must advertise exactly the bounding box of the stored tiles.",
             note="'Can return' is explored, not enumerated: probe set (stored, neighbours, rings, all of zoom<=3, random) and streams over widened boxes.", ref="4/C03"),
 "C04": dict(tech="differential conversion monitor: 3 source compressions x {keep,none,gzip,brotli} x force x 5 target formats on genuinely compressed payload classes; output decoded with independent gzip/brotli; metadata through reader and independent decoder",
             text="Runtime monitoring: every (source compression, target, force, format) cell is converted with convert_tiles_container (random flip/swap, in-memory or file sources, single- and multi-threaded runtime); every output tile decoded with the compression the output declares must equal the decoded source tile (lookups and streams), declared compression must be the requested one, metadata must survive and be decodable with the codec the format prescribes; plus the compress/decompress/recompress algebra of the utils against independent codecs.",
             note="MBTiles / PMTiles only with the pairs they can hold. Metadata compared as JSON on name/attribution/vector_layers/tilejson.", ref="4/C04"),
 "C05": dict(tech="black-box HTTP monitor: real `versatiles serve` binary, raw-socket HTTP/1.1 client, containers with known tile maps, independent media-type table and codecs; thorough repeats it against the release build of the binary",
             text="Runtime monitoring: thousands of raw exchanges per run against servers in best and --fast mode serving versatiles (3 stored compressions, 6 tile formats), mbtiles, pmtiles, tar and directory sources: stored coordinates, neighbours, out-of-range x/y, z 32..255, unparsable and loosely written parts, Accept-Encoding subsets in random order/case/q/spacing. Oracle: complete response; 200 iff stored else 404 (400 if unparsable); decoded body = decoded stored tile; Content-Type; Content-Encoding absent or listed by the client.",
             note="z in 32..255 may be 400 or 404; lenient forms only need a complete response and, on 200, the right tile.", ref="4/C05"),
 "C06": dict(tech="model-based monitor on three levels: TilesConvertReader (lookups / streams / coverage), `versatiles convert` CLI read back by independent decoders, `versatiles serve --flip-y --swap-xy` over HTTP; independent Mercator model with tolerance band; thorough repeats it against the release build of the binary",
             text="Runtime monitoring: for generated tile sets with unique payloads and random options (4 flag combinations, zoom limits, geographic boxes incl. tile-aligned / degenerate / world / Mercator-limit, border widths incl. huge) the output must contain a tile at c iff c is in the selection and the source has T^-1(c) (flip first, then swap) with that payload. Checked on the library reader, on the CLI into all five formats and on the server (incl. coordinates beyond the level, which must give complete 404s).",
             note="Selection in output coordinates; tolerance band 2e-6 tile (1e-3 at zoom>=28); tile-aligned boxes exact at their level (zoom<30).", ref="4/C06"),
 "C07": dict(tech="black-box HTTP monitor with canary files: real binary with -s <folder|tar> (with/without prefix), raw request targets from a segment alphabet, canaries outside the root (plain, only-precompressed, behind a symlinked directory); thorough repeats it against the release build of the binary",
             text="Runtime monitoring: request targets built from {file, dir, '.', '..', empty, %2e%2e, %2E%2e, ..%2f, %2f, ..;, canary names, absolute-path components, long name} up to length 5, plus //abs and ///abs forms, are sent raw; no response (raw or decoded) may contain a canary token, a 200 body must be the content of a file inside the root, lexically escaping and absolute targets must not be answered 200, every response must be complete.",
             note="Canaries cover the scratch tree around the root; symlinks are out of scope.", ref="4/C07"),
 "C08": dict(tech="sequential first-source model over 2..4 sources (memory / real files, mixed compression, filters, sources that go Pending on open / read, later sources whose reads fail under earlier tiles); lookups, streams, declared compression, coverage = union",
             text="Runtime monitoring: overlays of generated sources with payload 's<i>:z/x/y' really compressed per source; every probed coordinate and streamed box is compared (after decoding with the declared compression) with the first listed source holding the tile; advertised coverage must equal the union of the sources' coverages; building and streaming must not fail.",
             note="Byte identity is not demanded, only identity after decoding with the declared compression.", ref="4/C08"),
 "C09": dict(tech="sequential filter model (zoom range, tile box of the geographic bbox via independent Mercator model with tolerance band, chains = intersection); all (min,max) pairs; invalid-argument table",
             text="Runtime monitoring: chains of 1..4 filter_zoom / filter_bbox stages over in-memory and file sources (levels 0..31) are compared with the model on lookups, streams and coverage; all (min,max) in {absent,0..32,255}^2 on a source with every level; 21 invalid argument forms must be rejected at build time, 9 unusual-but-valid ones accepted.",
             note="Tolerance band as in C06; tile-aligned boxes exact at their level.", ref="4/C09"),
 "C10": dict(tech="canonical-form model: independent MVT encoder -> from_vectortiles_merged -> independent MVT decoder; concatenation model per layer name; lookups and streams; Pending sources",
             text="Runtime monitoring: 2..4 vector sources (mixed compression, overlapping coverage, duplicate/unused table entries, extreme integers, differing extents) are merged; the output must exist iff some source has a tile, be declared and delivered uncompressed, hold one layer per distinct name with the features of all sources in source order, each with its id, geometry and property map.",
             note="Layer order and the merged layer's extent/version are not constrained; integers compared by value.", ref="4/C10"),
 "C11": dict(tech="canonical-form model: decode/re-encode round trip of generated tiles; join model for vectortiles_update_properties with a generated CSV (merge/replace x remove_non_matching x include_id)",
             text="Runtime monitoring: (a) VectorTile::from_blob -> to_blob on tiles from the independent encoder (table duplicates/unused entries, int64/sint64/uint64 extremes, -0.0, Unicode, UNKNOWN geometry, ids to 2^64-1) must preserve the canonical content; (b) update_properties must leave other layers untouched and keep id, geometry type, geometry bytes and order of retained features, with property maps equal to the join model (lookups and streams).",
             note="CSV cell typing follows the data-file reader (bool / double / int / string).", ref="4/C11"),
 "C12": dict(level="fault_enumeration", tech="fault enumeration on the recorded write trace: TraceWriter (DataWriterTrait) -> every operation prefix + byte cuts + one failing operation -> real reader; the real binary under file size limits (RLIMIT_FSIZE) must reject or return every tile intact (and declare their compression); plus syscall level: strace log of the real file writer / `versatiles convert` (fresh path and over an existing container) replayed prefix by prefix",
             text="Fault enumeration: for each recorded trace (both formats, all compressions, one PMTiles/versatiles trace with > 16384 tiles) every prefix of the operation sequence and byte-granular cuts of short and final operations are materialised as file images (unwritten regions = zeros) and opened with the real reader; Ok requires every source tile intact. Exhaustive per trace in the operation-prefix dimension (thinned only for the two huge traces).",
             note="Crash model: completed operations + prefix of the interrupted one, in program order.", ref="4/C12"),
})

P.update({
 "C17": dict(tech="round-trip monitors: generated JSON values -> stringify -> own parser + strict RFC 8259 reference parser + serde_json; generated TileJSON documents -> 4 container writers -> readers; served tiles.json over HTTP from the real binary; Miri flavour in thorough",
             text="Runtime monitoring: (a) JSON values with strings and keys over all of Unicode (control characters, quotes, backslashes, U+2028/9, non-BMP), extreme finite numbers and nesting to depth 64 must satisfy parse(stringify(v)) == v and be read with the same meaning by a strict RFC 8259 parser (and serde_json); (b) TileJSON documents expressible by the model, written into versatiles / pmtiles / tar / directory containers, must come back unchanged except for narrowed bounds / zoom range; (c) served tiles.json must be valid JSON carrying the metadata, the tiles template and bounds / zooms never wider than the coverage.",
             note="serde_json lacks float_roundtrip: numbers beyond 1e290 are checked with the harness's strict parser only. Server-owned keys: tiles, type, name, format, bounds, minzoom, maxzoom, tilejson.", ref="4/C17"),
 "C19": dict(tech="guarded-execution fuzz monitor: mutation + random + structured adversarial inputs into 12 decoding entry points (a sample also through `versatiles probe` of the real binary), in sharded child processes with panic capture, abort attribution, a counting global allocator and a 2 MiB stack; ASan and release flavours in thorough",
             text="Runtime monitoring: ~10^5 inputs per quick run (random bytes, 1..4 stacked mutations of valid encodings incl. length / offset field corruption and multi-byte UTF-8 insertion, semantic SQL / member-name / directory-entry corruptions, self-referencing PMTiles leaf directories, announced lengths up to 2^63, nesting depth 256) are fed to parse_json_str, TileJSON::try_from, read_csv_iter, parse_vpl, PipelineFactory::operation_from_vpl (+ CSV data file), VectorTile::from_blob, and the five container readers (open + single-tile lookups). Oracle: Ok or Err — never a panic, an abort / stack overflow of the child, or a single allocation request / peak growth above 1 GiB.",
             note="A batch exceeding its 30 s watchdog is killed, counted and excluded (CPU time is not part of the statement). Signatures: entry | file | hash of the source line | message class.", ref="4/C19"),
})

IMPLEMENTED = ["C01","C02","C03","C04","C05","C06","C07","C08","C09","C10","C11","C12","C13","C14","C15","C16","C17","C18","C19","C20"]
NOT_YET = {}

def main():
    props = [json.loads(l) for l in open(os.path.join(V, "properties.jsonl"))]
    checks = []
    na = []
    for p in props:
        i = p["id"]
        if i in IMPLEMENTED:
            d = P[i]
            checks.append({
                "property_id": i,
                "quick_cmd": f"./check {i} quick",
                "thorough_cmd": f"./check {i} thorough",
                "evidence_file": f"/verif/evidence/{i}.json",
                "replay_cmd_template": f"./check {i} --replay {{path}}",
                "engine": "vtv",
                "level_claimed": {"category": d.get("level", "exploration"), "text": d["text"], "design_ref": "DESIGN.md §" + d["ref"]},
                "level_note": d["note"],
                "technique": d["tech"],
            })
        else:
            na.append({"property_id": i, "reason": NOT_YET.get(i, "monitor not built yet in this session (runtime monitoring applies; see DESIGN.md §4)")})
    m = {
        "version": 1,
        "setup_cmd": "./setup.sh",
        "hooks": {
            "guard": "cargo feature `verif` of versatiles_pipeline (off by default)",
            "enable": "the harness depends on versatiles_pipeline with features=[\"verif\"] (harness/Cargo.toml); nothing else in /repo is conditional",
            "baseline_off_cmd": "cd /repo/$(cat /w/out/cargo_root.txt) && cargo nextest run --workspace --no-fail-fast --tool-config-file pb:/w/lib/nextest.toml --profile pb --test-threads 8 --offline",
            "source_commits": ["d553acad"],
            "add_only": True,
        },
        "engines": [{"name": "vtv", "path": "/verif/harness", "serves_properties": IMPLEMENTED,
                     "kind_free_text": "Rust harness: generators, independent codecs and reference models, guarded execution, process-sharded case runner; sanitizer flavours (Miri / TSan / ASan) driven by /verif/flavours.py in the thorough tier"}],
        "checks": checks,
        "notes": "Runtime monitoring and sanitizers only. Verdicts are three-valued (0 held / 1 violation / 2 inconclusive). Known findings: /verif/known_findings.json. Seeded breaks used to test the monitors: /verif/seeded/.",
        "not_applicable": na,
    }
    json.dump(m, open(os.path.join(V, "MANIFEST.json"), "w"), indent=1)
    print("checks:", len(checks), "not_applicable:", len(na))

if __name__ == "__main__":
    main()
