#!/bin/sh
# runs the quick tier of every property at the given seeds; prints only verdict lines and alarms
cd "$(dirname "$0")/.."
./setup.sh >/dev/null 2>&1
for SEED in "$@"; do
  for id in C01 C02 C03 C04 C05 C06 C07 C08 C09 C10 C11 C12 C13 C14 C15 C16 C17 C18 C19 C20; do
    VERIF_SEED=$SEED ./check $id quick 2>&1 | grep -E '^(VIOLATION|INCONCLUSIVE|C[0-9]+ quick|  signature)' | cut -c1-260
  done
done
echo "=== done $(date +%H:%M:%S)"
