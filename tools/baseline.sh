#!/bin/sh
# Runs the repository's pinned test suite (guard off) and compares with BASELINE.json's stable_pass list.
cd /repo || exit 9
export CARGO_NET_OFFLINE=true
cargo nextest run --workspace --no-fail-fast --tool-config-file pb:/w/lib/nextest.toml --profile pb --test-threads 8 --offline > /verif/work/baseline.log 2>&1
python3 - <<'PY'
import json, xml.etree.ElementTree as ET, glob
b = json.load(open('/root/.vp/BASELINE.json'))
want = set(b['stable_pass'])
f = '/repo/target/nextest/pb/junit.xml'
t = ET.parse(f)
ok = set(); bad = set()
for ts in t.getroot().iter('testsuite'):
    for tc in ts.iter('testcase'):
        name = tc.get('classname') + '::' + tc.get('name') if False else None
        cn = tc.get('classname'); n = tc.get('name')
        full = f"{cn}::{n}"
        failed = any(ch.tag in ('failure','error') for ch in tc)
        (bad if failed else ok).add(full)
missing = sorted(w for w in want if w not in ok)
print("stable_pass:", len(want), "passed now:", len(want & ok), "not passing:", len(missing))
for m in missing[:40]: print("  NOT PASSING:", m, "(failed)" if m in bad else "(absent)")
PY
