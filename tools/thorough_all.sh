#!/bin/sh
# runs the thorough tier of every property once (seed from $1, default 21) and prints one summary block per property
SEED="${1:-21}"
cd "$(dirname "$0")/.."
./setup.sh >/dev/null 2>&1
for id in C20 C18 C14 C13 C01 C16 C03 C02 C08 C09 C10 C11 C04 C06 C05 C07 C17 C12 C19 C15; do
  echo "=== $id $(date +%H:%M:%S)"
  VERIF_SEED=$SEED ./check $id thorough 2>&1 | grep -E '^(VIOLATION|INCONCLUSIVE|KNOWN|flavour|C[0-9]+ thorough|  signature)' | cut -c1-300
done
echo "=== done $(date +%H:%M:%S)"
