#!/usr/bin/env python3
"""Sanitizer flavours of the thorough tier:  flavours.py <ID> <seed>

Runs the same monitors of property <ID> under Miri (undefined-behaviour / data-race interpreter),
ThreadSanitizer, AddressSanitizer and / or an optimised build, as registered in FLAVOURS, and
merges what they observed into /verif/evidence/<ID>.json (coverage.flavours).
Exit 0 = no report, 1 = a sanitizer report or a violation in a flavour (VIOLATION line printed),
2 = a flavour could not be built / run (inconclusive).
"""
import json
import os
import re
import subprocess
import sys
import time
from concurrent.futures import ThreadPoolExecutor

VERIF = os.path.dirname(os.path.abspath(__file__))
HARNESS = os.path.join(VERIF, "harness")
TARGET = os.path.join(VERIF, "target")
TRIPLE = "x86_64-unknown-linux-gnu"

# property -> list of (flavour, argument)
#   miri: list of case numbers run with `--tier tiny --case N`
#   tsan / asan / rel: tier name for a complete monitor run
#   relbin: the dev harness drives the optimised (release) `versatiles` binary — wrapping instead of
#           trapping arithmetic, no debug assertions: what users actually run
FLAVOURS = {
    "C01": [("asan", "quick")],
    "C02": [("tsan", "quick")],
    "C04": [("rel", "quick")],
    "C05": [("relbin", "quick")],
    "C06": [("relbin", "quick")],
    "C07": [("relbin", "quick")],
    "C10": [("miri", [0, 1])],
    "C11": [("miri", [0, 2])],
    "C13": [("tsan", "quick")],
    "C14": [("miri", [1, 2, 3, 7, 8, 13, 14, 20, 21]), ("tsan", "quick")],
    "C15": [("miri", [0])],
    "C16": [("asan", "quick")],
    "C17": [("miri", [0])],
    "C18": [("miri", [0])],
    "C19": [("asan", "quick"), ("rel", "quick")],
    "C20": [("miri", [0, 1, 2, 7, 33, 63])],
}

BASE_ENV = dict(os.environ)
BASE_ENV["CARGO_NET_OFFLINE"] = "true"
BASE_ENV["VERIF_DIR"] = VERIF


def sh(cmd, env, timeout=None):
    p = subprocess.run(cmd, env=env, cwd=HARNESS, stdout=subprocess.PIPE, stderr=subprocess.STDOUT, text=True, timeout=timeout)
    return p.returncode, p.stdout


REPO = os.environ.get("VERIF_REPO", "/repo")


def build(flavour):
    env = dict(BASE_ENV)
    env["CARGO_TARGET_DIR"] = os.path.join(TARGET, flavour)
    if flavour == "relbin":
        cmd = ["cargo", "build", "--offline", "--release", "--manifest-path", os.path.join(REPO, "Cargo.toml"), "-p", "versatiles", "--bin", "versatiles"]
        rc, out = sh(cmd, env, timeout=3600)
        if rc != 0:
            return rc, out, None
        env2 = dict(BASE_ENV)
        env2["CARGO_TARGET_DIR"] = os.path.join(TARGET, "dev")
        rc, out = sh(["cargo", "build", "--offline", "--bin", "vtv"], env2, timeout=3600)
        return rc, out, os.path.join(TARGET, "dev", "debug", "vtv")
    if flavour == "rel":
        cmd = ["cargo", "build", "--offline", "--release", "--bin", "vtv"]
        exe = os.path.join(env["CARGO_TARGET_DIR"], "release", "vtv")
    elif flavour == "tsan":
        env["RUSTFLAGS"] = "-Zsanitizer=thread"
        cmd = ["cargo", "+nightly", "build", "--offline", "-Zbuild-std", "--target", TRIPLE, "--bin", "vtv"]
        exe = os.path.join(env["CARGO_TARGET_DIR"], TRIPLE, "debug", "vtv")
    elif flavour == "asan":
        env["RUSTFLAGS"] = "-Zsanitizer=address -Cforce-frame-pointers=yes"
        cmd = ["cargo", "+nightly", "build", "--offline", "--target", TRIPLE, "--bin", "vtv"]
        exe = os.path.join(env["CARGO_TARGET_DIR"], TRIPLE, "debug", "vtv")
    else:
        raise ValueError(flavour)
    rc, out = sh(cmd, env, timeout=3600)
    return rc, out, exe


def run_monitor_flavour(prop, flavour, tier, seed, logdir):
    t0 = time.time()
    rc, out, exe = build(flavour)
    if rc != 0:
        return {"flavour": flavour, "status": "inconclusive", "why": "build failed", "log": out[-2000:]}
    env = dict(BASE_ENV)
    evp = os.path.join(logdir, f"evidence_{flavour}.json")
    env["VTV_EVIDENCE_PATH"] = evp
    env["VTV_CHILD_STDERR"] = "1"
    if flavour == "relbin":
        env["VTV_VERSATILES_BIN"] = os.path.join(TARGET, "relbin", "release", "versatiles")
    if flavour == "tsan":
        env["TSAN_OPTIONS"] = "halt_on_error=0 report_signal_unsafe=0 exitcode=66"
    if flavour == "asan":
        # leak detection would report the harness's own intentionally retained state
        env["ASAN_OPTIONS"] = "detect_leaks=0 halt_on_error=1 abort_on_error=1 allocator_may_return_null=1"
    p = subprocess.run([exe, prop, "--tier", tier, "--seed", str(seed)], env=env, cwd=VERIF, stdout=subprocess.PIPE, stderr=subprocess.STDOUT, text=True)
    log = os.path.join(logdir, f"{flavour}.log")
    with open(log, "w") as f:
        f.write(p.stdout)
    reports = len(re.findall(r"WARNING: ThreadSanitizer|ERROR: AddressSanitizer|ERROR: ThreadSanitizer", p.stdout))
    res = {"flavour": flavour, "tier": tier, "exit": p.returncode, "sanitizer_reports": reports, "wall_s": round(time.time() - t0, 1), "log": log}
    try:
        ev = json.load(open(evp))
        res["evaluations"] = ev["coverage"]["evaluations"]
        res["violations"] = ev.get("violations", 0)
        res["verdict"] = ev["coverage"].get("verdict")
    except Exception:
        res["verdict"] = "no evidence written"
    if reports > 0 or p.returncode == 1:
        res["status"] = "violated"
    elif p.returncode == 0:
        res["status"] = "held"
    else:
        res["status"] = "inconclusive"
    return res


def run_miri(prop, cases, seed, logdir):
    t0 = time.time()
    env = dict(BASE_ENV)
    env["CARGO_TARGET_DIR"] = os.path.join(TARGET, "miri")
    env["MIRIFLAGS"] = "-Zmiri-disable-isolation -Zmiri-num-cpus=8 -Zmiri-deterministic-floats"
    # build once (first case), then the rest in parallel
    def one(case):
        cmd = ["cargo", "+nightly", "miri", "run", "--offline", "--bin", "vtv", "--", prop, "--tier", "tiny", "--seed", str(seed), "--case", str(case)]
        try:
            rc, out = sh(cmd, env, timeout=5400)
        except subprocess.TimeoutExpired:
            return case, 124, "timeout"
        return case, rc, out
    results = [one(cases[0])]
    with ThreadPoolExecutor(max_workers=12) as ex:
        results += list(ex.map(one, cases[1:]))
    res = {"flavour": "miri", "cases": cases, "evaluations": 0, "ub_reports": 0, "violations": 0, "wall_s": 0}
    status = "held"
    for case, rc, out in results:
        log = os.path.join(logdir, f"miri_case{case}.log")
        with open(log, "w") as f:
            f.write(out)
        ub = len(re.findall(r"error: Undefined Behavior|error: unsupported operation|Data race detected|error: the evaluated program (leaked|deadlocked|aborted)", out))
        res["ub_reports"] += ub
        m = re.search(r'"evaluations":\s*(\d+)', out)
        if m:
            res["evaluations"] += int(m.group(1))
        if "VIOLATION property=" in out:
            res["violations"] += 1
        if ub or "VIOLATION property=" in out:
            status = "violated"
            res.setdefault("logs", []).append(log)
        elif rc != 0 and status != "violated":
            status = "inconclusive"
            res.setdefault("logs", []).append(log)
    res["status"] = status
    res["wall_s"] = round(time.time() - t0, 1)
    return res


def main():
    prop = sys.argv[1]
    seed = sys.argv[2] if len(sys.argv) > 2 else "1"
    todo = FLAVOURS.get(prop, [])
    logdir = os.path.join(VERIF, "work", prop, "flavours")
    os.makedirs(logdir, exist_ok=True)
    results = []
    for flavour, arg in todo:
        if flavour == "miri":
            results.append(run_miri(prop, arg, seed, logdir))
        else:
            results.append(run_monitor_flavour(prop, flavour, arg, seed, logdir))
    # merge into the evidence file written by the main (dev) run
    evp = os.path.join(VERIF, "evidence", f"{prop}.json")
    try:
        ev = json.load(open(evp))
        ev["coverage"]["flavours"] = results
        ev["wall_s"] = round(ev.get("wall_s", 0) + sum(r.get("wall_s", 0) for r in results), 2)
        json.dump(ev, open(evp, "w"), indent=1)
    except Exception as e:
        print(f"could not merge flavour results: {e}")
    code = 0
    for r in results:
        print(f"flavour {r['flavour']}: {r['status']} " + json.dumps({k: v for k, v in r.items() if k in ('evaluations', 'sanitizer_reports', 'ub_reports', 'violations', 'wall_s', 'exit')}))
        if r["status"] == "violated":
            rp = r.get("log") or (r.get("logs") or ["?"])[0]
            print(f"VIOLATION property={prop} replay={rp}")
            code = 1
        elif r["status"] == "inconclusive" and code == 0:
            print(f"INCONCLUSIVE property={prop}: flavour {r['flavour']} did not complete ({r.get('why', 'see log')})")
            code = 2
    sys.exit(code)


if __name__ == "__main__":
    main()
