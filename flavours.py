#!/usr/bin/env python3
"""Sanitizer flavours of the thorough tier:  flavours.py <ID> <seed>

Runs the same monitors of property <ID> under Miri (undefined-behaviour / data-race interpreter),
ThreadSanitizer, AddressSanitizer and / or an optimised build, as registered in FLAVOURS, and
merges what they observed into /verif/evidence/<ID>.json (coverage.flavours).
Exit 0 = no report, 1 = a sanitizer report or a violation in a flavour (VIOLATION line printed),
2 = a flavour could not be built / run (inconclusive).
"""
import json
import os
import re
import subprocess
import sys
import time
from concurrent.futures import ThreadPoolExecutor

VERIF = os.path.dirname(os.path.abspath(__file__))
HARNESS = os.path.join(VERIF, "harness")
TARGET = os.path.join(VERIF, "target")
TRIPLE = "x86_64-unknown-linux-gnu"

# property -> list of (flavour, argument)
#   miri: list of case numbers run with `--tier tiny --case N` (8 virtual CPUs, so that the parallel operators really overlap)
#   miri1: the same with ONE virtual CPU — what `num_cpus` reports in a single-core container; Miri reports a stream
#          that can never make progress as a deadlock
#   tsan / asan / rel: tier name for a complete monitor run
#   memcheck: case numbers (quick tier) run in-process under valgrind memcheck on the release harness — the cases
#           that reach the bundled SQLite C code (MBTiles), which the Rust-only ASan instrumentation does not see
#   fuzz: seconds per libFuzzer target (coverage-guided flavour of C19, see fuzz_c19.py)
#   relbin: the dev harness drives the optimised (release) `versatiles` binary — wrapping instead of
#           trapping arithmetic, no debug assertions: what users actually run
FLAVOURS = {
    "C01": [("asan", "quick"), ("memcheck", [22, 27, 32, 16])],
    "C02": [("tsan", "quick")],
    "C04": [("rel", "quick")],
    "C05": [("relbin", "quick")],
    "C06": [("relbin", "quick")],
    "C07": [("relbin", "quick")],
    "C10": [("miri", [0, 1])],
    "C11": [("miri", [0, 2])],
    "C13": [("tsan", "quick")],
    "C14": [("miri", [1, 2, 3, 7, 8, 13, 14, 20, 21]), ("miri1", [20, 29, 38]), ("tsan", "quick")],
    "C15": [("miri", [0])],
    "C16": [("asan", "quick"), ("memcheck", [2, 7, 12, 17, 22, 27])],
    "C17": [("miri", [0])],
    "C18": [("miri", [0])],
    "C19": [("asan", "quick"), ("rel", "quick"), ("fuzz", 150), ("memcheck", [9, 21, 33, 45])],
    "C20": [("miri", [0, 1, 2, 7, 33, 63])],
}

BASE_ENV = dict(os.environ)
BASE_ENV["CARGO_NET_OFFLINE"] = "true"
BASE_ENV["VERIF_DIR"] = VERIF


def sh(cmd, env, timeout=None):
    p = subprocess.run(cmd, env=env, cwd=HARNESS, stdout=subprocess.PIPE, stderr=subprocess.STDOUT, text=True, timeout=timeout)
    return p.returncode, p.stdout


REPO = os.environ.get("VERIF_REPO", "/repo")


def build(flavour):
    env = dict(BASE_ENV)
    env["CARGO_TARGET_DIR"] = os.path.join(TARGET, flavour)
    if flavour == "relbin":
        cmd = ["cargo", "build", "--offline", "--release", "--manifest-path", os.path.join(REPO, "Cargo.toml"), "-p", "versatiles", "--bin", "versatiles"]
        rc, out = sh(cmd, env, timeout=3600)
        if rc != 0:
            return rc, out, None
        env2 = dict(BASE_ENV)
        env2["CARGO_TARGET_DIR"] = os.path.join(TARGET, "dev")
        rc, out = sh(["cargo", "build", "--offline", "--bin", "vtv"], env2, timeout=3600)
        return rc, out, os.path.join(TARGET, "dev", "debug", "vtv")
    if flavour == "rel":
        cmd = ["cargo", "build", "--offline", "--release", "--bin", "vtv"]
        exe = os.path.join(env["CARGO_TARGET_DIR"], "release", "vtv")
    elif flavour == "tsan":
        env["RUSTFLAGS"] = "-Zsanitizer=thread"
        cmd = ["cargo", "+nightly", "build", "--offline", "-Zbuild-std", "--target", TRIPLE, "--bin", "vtv"]
        exe = os.path.join(env["CARGO_TARGET_DIR"], TRIPLE, "debug", "vtv")
    elif flavour == "asan":
        env["RUSTFLAGS"] = "-Zsanitizer=address -Cforce-frame-pointers=yes"
        cmd = ["cargo", "+nightly", "build", "--offline", "--target", TRIPLE, "--bin", "vtv"]
        exe = os.path.join(env["CARGO_TARGET_DIR"], TRIPLE, "debug", "vtv")
    else:
        raise ValueError(flavour)
    rc, out = sh(cmd, env, timeout=3600)
    return rc, out, exe


def run_monitor_flavour(prop, flavour, tier, seed, logdir):
    t0 = time.time()
    rc, out, exe = build(flavour)
    if rc != 0:
        return {"flavour": flavour, "status": "inconclusive", "why": "build failed", "log": out[-2000:]}
    env = dict(BASE_ENV)
    evp = os.path.join(logdir, f"evidence_{flavour}.json")
    env["VTV_EVIDENCE_PATH"] = evp
    env["VTV_CHILD_STDERR"] = "1"
    if flavour == "relbin":
        env["VTV_VERSATILES_BIN"] = os.path.join(TARGET, "relbin", "release", "versatiles")
    if flavour == "tsan":
        env["TSAN_OPTIONS"] = "halt_on_error=0 report_signal_unsafe=0 exitcode=66"
    if flavour == "asan":
        # leak detection would report the harness's own intentionally retained state
        env["ASAN_OPTIONS"] = "detect_leaks=0 halt_on_error=1 abort_on_error=1 allocator_may_return_null=1"
    p = subprocess.run([exe, prop, "--tier", tier, "--seed", str(seed)], env=env, cwd=VERIF, stdout=subprocess.PIPE, stderr=subprocess.STDOUT, text=True)
    log = os.path.join(logdir, f"{flavour}.log")
    with open(log, "w") as f:
        f.write(p.stdout)
    reports = len(re.findall(r"WARNING: ThreadSanitizer|ERROR: AddressSanitizer|ERROR: ThreadSanitizer", p.stdout))
    res = {"flavour": flavour, "tier": tier, "exit": p.returncode, "sanitizer_reports": reports, "wall_s": round(time.time() - t0, 1), "log": log}
    try:
        ev = json.load(open(evp))
        res["evaluations"] = ev["coverage"]["evaluations"]
        res["violations"] = ev.get("violations", 0)
        res["verdict"] = ev["coverage"].get("verdict")
    except Exception:
        res["verdict"] = "no evidence written"
    if reports > 0 or p.returncode == 1:
        res["status"] = "violated"
    elif p.returncode == 0:
        res["status"] = "held"
    else:
        res["status"] = "inconclusive"
    return res


def run_memcheck(prop, cases, seed, logdir):
    t0 = time.time()
    rc, out, exe = build("rel")
    if rc != 0:
        return {"flavour": "memcheck", "status": "inconclusive", "why": "build failed", "log": out[-2000:]}
    env = dict(BASE_ENV)

    def one(case):
        e = dict(env)
        e["VTV_EVIDENCE_PATH"] = os.path.join(logdir, f"evidence_memcheck_{case}.json")
        cmd = ["valgrind", "--error-exitcode=99", "--leak-check=no", "-q", exe, prop, "--tier", "quick", "--seed", str(seed), "--case", str(case)]
        try:
            p = subprocess.run(cmd, env=e, cwd=VERIF, stdout=subprocess.PIPE, stderr=subprocess.STDOUT, text=True, errors="replace", timeout=3600)
            return case, p.returncode, p.stdout
        except subprocess.TimeoutExpired:
            return case, 124, "timeout"

    with ThreadPoolExecutor(max_workers=8) as ex:
        results = list(ex.map(one, cases))
    res = {"flavour": "memcheck", "cases": cases, "evaluations": 0, "sanitizer_reports": 0, "violations": 0}
    status = "held"
    for case, rc, out in results:
        log = os.path.join(logdir, f"memcheck_case{case}.log")
        with open(log, "w") as f:
            f.write(out)
        errs = len(re.findall(r"^==\d+== (Invalid (read|write|free)|Conditional jump or move depends on uninitialised|Use of uninitialised|Mismatched free|Syscall param .* uninitialised|Source and destination overlap|Process terminating)", out, re.M))
        res["sanitizer_reports"] += errs
        m = re.search(r'"evaluations":\s*(\d+)', out)
        if m:
            res["evaluations"] += int(m.group(1))
        if errs or rc == 99 or "VIOLATION property=" in out:
            status = "violated"
            res["violations"] += 1 if "VIOLATION property=" in out else 0
            res.setdefault("logs", []).append(log)
        elif rc != 0 and status != "violated":
            status = "inconclusive"
            res.setdefault("logs", []).append(log)
    res["status"] = status
    res["wall_s"] = round(time.time() - t0, 1)
    return res


def run_fuzz(prop, seconds, seed, logdir):
    p = subprocess.run([sys.executable, os.path.join(VERIF, "fuzz_c19.py"), str(seed), str(seconds)], env=BASE_ENV, cwd=VERIF, stdout=subprocess.PIPE, stderr=subprocess.STDOUT, text=True)
    log = os.path.join(logdir, "fuzz.log")
    with open(log, "w") as f:
        f.write(p.stdout)
    try:
        rec = json.loads(p.stdout.strip().splitlines()[-1])
    except Exception:
        return {"flavour": "libfuzzer", "status": "inconclusive", "why": "no result record", "log": log}
    rec["log"] = log
    viol = [v for t in rec.get("targets", []) for v in t.get("violations", [])]
    if viol:
        rec["logs"] = [viol[0]["artifact"]]
    rec["violations"] = len(viol)
    return rec


def run_miri(prop, cases, seed, logdir, cpus=8):
    t0 = time.time()
    name = "miri" if cpus == 8 else f"miri-{cpus}cpu"
    env = dict(BASE_ENV)
    env["CARGO_TARGET_DIR"] = os.path.join(TARGET, "miri")
    env["MIRIFLAGS"] = f"-Zmiri-disable-isolation -Zmiri-num-cpus={cpus} -Zmiri-deterministic-floats"
    # build once (first case), then the rest in parallel
    def one(case):
        cmd = ["cargo", "+nightly", "miri", "run", "--offline", "--bin", "vtv", "--", prop, "--tier", "tiny", "--seed", str(seed), "--case", str(case)]
        try:
            rc, out = sh(cmd, env, timeout=5400)
        except subprocess.TimeoutExpired:
            return case, 124, "timeout"
        return case, rc, out
    results = [one(cases[0])]
    with ThreadPoolExecutor(max_workers=12) as ex:
        results += list(ex.map(one, cases[1:]))
    res = {"flavour": name, "cases": cases, "evaluations": 0, "ub_reports": 0, "violations": 0, "wall_s": 0}
    status = "held"
    for case, rc, out in results:
        log = os.path.join(logdir, f"{name}_case{case}.log")
        with open(log, "w") as f:
            f.write(out)
        ub = len(re.findall(r"error: Undefined Behavior|error: unsupported operation|Data race detected|error: the evaluated program (leaked|deadlocked|aborted)", out))
        res["ub_reports"] += ub
        m = re.search(r'"evaluations":\s*(\d+)', out)
        if m:
            res["evaluations"] += int(m.group(1))
        if "VIOLATION property=" in out:
            res["violations"] += 1
        if ub or "VIOLATION property=" in out:
            status = "violated"
            res.setdefault("logs", []).append(log)
        elif rc != 0 and status != "violated":
            status = "inconclusive"
            res.setdefault("logs", []).append(log)
    res["status"] = status
    res["wall_s"] = round(time.time() - t0, 1)
    return res


def main():
    prop = sys.argv[1]
    seed = sys.argv[2] if len(sys.argv) > 2 else "1"
    todo = FLAVOURS.get(prop, [])
    logdir = os.path.join(VERIF, "work", prop, "flavours")
    os.makedirs(logdir, exist_ok=True)
    results = []
    for flavour, arg in todo:
        if flavour == "miri":
            results.append(run_miri(prop, arg, seed, logdir))
        elif flavour == "miri1":
            results.append(run_miri(prop, arg, seed, logdir, cpus=1))
        elif flavour == "fuzz":
            results.append(run_fuzz(prop, arg, seed, logdir))
        elif flavour == "memcheck":
            results.append(run_memcheck(prop, arg, seed, logdir))
        else:
            results.append(run_monitor_flavour(prop, flavour, arg, seed, logdir))
    # merge into the evidence file written by the main (dev) run
    evp = os.path.join(VERIF, "evidence", f"{prop}.json")
    try:
        ev = json.load(open(evp))
        ev["coverage"]["flavours"] = results
        ev["wall_s"] = round(ev.get("wall_s", 0) + sum(r.get("wall_s", 0) for r in results), 2)
        json.dump(ev, open(evp, "w"), indent=1)
    except Exception as e:
        print(f"could not merge flavour results: {e}")
    code = 0
    for r in results:
        print(f"flavour {r['flavour']}: {r['status']} " + json.dumps({k: v for k, v in r.items() if k in ('evaluations', 'sanitizer_reports', 'ub_reports', 'violations', 'wall_s', 'exit')}))
        if r["status"] == "violated":
            rp = (r.get("logs") or [r.get("log") or "?"])[0]
            print(f"VIOLATION property={prop} replay={rp}")
            code = 1
        elif r["status"] == "inconclusive" and code == 0:
            print(f"INCONCLUSIVE property={prop}: flavour {r['flavour']} did not complete ({r.get('why', 'see log')})")
            code = 2
    sys.exit(code)


if __name__ == "__main__":
    main()
