#!/usr/bin/env python3
"""Coverage-guided flavour of C19:  fuzz_c19.py <seed> [seconds per target]

Builds the libFuzzer targets of /verif/harness/fuzz (ASan, panic = abort, overflow checks and debug
assertions on) from /repo's current tree, seeds them with valid encodings from the harness's
generators (`vtv c19-corpus`) and runs all targets in parallel for the given time.

Oracle (the statement of C19): every input must end in a value or an error. An artifact is
  crash-*   -> re-run alone; if it reproduces: violation (panic / abort / sanitizer report / stack
               overflow at nesting depth <= 256); a stack overflow by deeper nesting is outside the statement
  oom-*     -> re-run alone with the same limits; reproduces: violation (allocation out of proportion:
               one allocation > 1 GiB or > 4 GiB resident for an input of at most 64 KiB); otherwise the
               long-lived fuzzing process accumulated memory -> noted, not judged
  timeout-* -> CPU time is outside the statement: counted, not judged
Prints one JSON object (the flavour record) on the last line; exit 0 held, 1 violation, 2 inconclusive.
"""
import json
import os
import re
import shutil
import subprocess
import sys
import time
from concurrent.futures import ThreadPoolExecutor

VERIF = os.path.dirname(os.path.abspath(__file__))
HARNESS = os.path.join(VERIF, "harness")
TARGET = os.path.join(VERIF, "target")
TRIPLE = "x86_64-unknown-linux-gnu"
BIN = os.path.join(TARGET, "fuzz", TRIPLE, "release")
WORK = os.path.join(VERIF, "work", "C19", "fuzz")
TARGETS = {"json": 4096, "csv": 4096, "vpl": 2048, "factory": 4096, "mvt": 16384, "versatiles": 65536, "pmtiles": 65536}
LIMITS = ["-timeout=10", "-rss_limit_mb=4096", "-malloc_limit_mb=1024", "-detect_leaks=0"]

ENV = dict(os.environ)
ENV["CARGO_NET_OFFLINE"] = "true"
ENV["ASAN_OPTIONS"] = "detect_leaks=0:allocator_may_return_null=1:detect_odr_violation=0"
ENV.setdefault("RUST_BACKTRACE", "0")


def sh(cmd, cwd=None, env=None, timeout=None):
    p = subprocess.run(cmd, cwd=cwd, env=env or ENV, stdout=subprocess.PIPE, stderr=subprocess.STDOUT, text=True, errors="replace", timeout=timeout)
    return p.returncode, p.stdout


def build():
    env = dict(ENV)
    env["CARGO_TARGET_DIR"] = os.path.join(TARGET, "dev")
    rc, out = sh(["cargo", "build", "--offline", "--bin", "vtv"], cwd=HARNESS, env=env, timeout=3600)
    if rc != 0:
        return "harness build failed", out
    lock_src, lock_dst = os.path.join(HARNESS, "Cargo.lock"), os.path.join(HARNESS, "fuzz", "Cargo.lock")
    if os.path.exists(lock_src) and not os.path.exists(lock_dst):
        shutil.copy(lock_src, lock_dst)
    env = dict(ENV)
    env["CARGO_TARGET_DIR"] = os.path.join(TARGET, "fuzz")
    rc, out = sh(["cargo", "+nightly", "fuzz", "build"], cwd=HARNESS, env=env, timeout=5400)
    if rc != 0:
        return "fuzz build failed", out
    return None, ""


def depth(data):
    d = m = 0
    for b in data:
        if b in (0x5B, 0x7B):
            d += 1
            m = max(m, d)
        elif b in (0x5D, 0x7D):
            d = max(0, d - 1)
    return m


def classify(target, art):
    """re-run one artifact alone; returns (kind, signature, excerpt)"""
    exe = os.path.join(BIN, target)
    try:
        rc, out = sh([exe] + LIMITS + [art], cwd=WORK, timeout=120)
    except subprocess.TimeoutExpired:
        return "timeout", "", ""
    if rc == 0:
        return "not-reproduced", "", ""
    m = re.search(r"panicked at ([^\n]+?):(\d+):(\d+):\n([^\n]*)", out)
    if m:
        f = m.group(1)
        f = f[f.find("versatiles"):] if "versatiles" in f else f
        msg = re.sub(r"\d+", "N", m.group(4))[:80]
        return "panic", f"fuzz|panic|{target}|{f}|{msg}", out[-1500:]
    if "stack-overflow" in out or "stack overflow" in out:
        return "stack-overflow", f"fuzz|stack-overflow|{target}", out[-800:]
    m = re.search(r"ERROR: libFuzzer: out-of-memory \(([^)]*)\)", out)
    if m:
        return "oom", f"fuzz|alloc|{target}|{re.sub(r'[0-9]+', 'N', m.group(1))}", out[-800:]
    m = re.search(r"ERROR: AddressSanitizer: ([a-zA-Z\-]+)", out)
    if m:
        return "asan", f"fuzz|asan|{target}|{m.group(1)}", out[-1500:]
    if "timeout" in out and "ERROR: libFuzzer: timeout" in out:
        return "timeout", "", ""
    return "abort", f"fuzz|abort|{target}", out[-1500:]


def run_target(target, max_len, seconds, seed):
    corp = os.path.join(WORK, "corpus", target)
    seeds = os.path.join(WORK, "seeds", target)
    arts = os.path.join(WORK, "artifacts", target) + "/"
    for d in (corp, arts):
        shutil.rmtree(d, ignore_errors=True)
        os.makedirs(d)
    cmd = [os.path.join(BIN, target), f"-max_total_time={seconds}", f"-max_len={max_len}", f"-seed={seed}", "-fork=2", "-ignore_crashes=1", "-ignore_timeouts=1", "-ignore_ooms=1",
           f"-artifact_prefix={arts}", "-print_final_stats=1"] + LIMITS + [corp, seeds]
    t0 = time.time()
    try:
        rc, out = sh(cmd, cwd=WORK, timeout=seconds + 600)
    except subprocess.TimeoutExpired:
        return {"target": target, "status": "inconclusive", "why": "libFuzzer did not stop"}
    with open(os.path.join(WORK, f"{target}.log"), "w") as f:
        f.write(out)
    res = {"target": target, "wall_s": round(time.time() - t0, 1), "exit": rc, "max_len": max_len}
    execs = re.findall(r"#(\d+): cov: (\d+) ft: (\d+) corp: (\d+)", out)
    if execs:
        res["executions"], res["coverage_edges"], res["features"], res["corpus_units"] = (int(x) for x in execs[-1])
    else:
        m = re.search(r"stat::number_of_executed_units:\s*(\d+)", out)
        res["executions"] = int(m.group(1)) if m else 0
    res["seed_inputs"] = len(os.listdir(seeds))
    found = sorted(os.listdir(arts))
    res["artifacts"] = {k: len([a for a in found if a.startswith(k)]) for k in ("crash-", "oom-", "timeout-")}
    res["violations"] = []
    res["not_judged"] = []
    seen = set()
    for a in found[:200]:
        path = arts + a
        if a.startswith("timeout-"):
            continue
        kind, sig, excerpt = classify(target, path)
        if kind in ("not-reproduced", "timeout"):
            res["not_judged"].append({"artifact": a, "why": kind})
            continue
        if kind == "stack-overflow":
            d = depth(open(path, "rb").read())
            if d > 256:
                res["not_judged"].append({"artifact": a, "why": f"stack overflow at nesting depth {d} (> 256: outside 'moderate nesting')"})
                continue
        if sig in seen:
            continue
        seen.add(sig)
        keep = os.path.join(VERIF, "replay", "C19", "fuzz")
        os.makedirs(keep, exist_ok=True)
        dst = os.path.join(keep, f"{target}-{a}")
        shutil.copy(path, dst)
        res["violations"].append({"signature": sig, "artifact": dst, "kind": kind, "excerpt": excerpt[-600:]})
    res["status"] = "violated" if res["violations"] else ("held" if res.get("executions", 0) > 0 else "inconclusive")
    return res


def main():
    seed = sys.argv[1] if len(sys.argv) > 1 else "1"
    seconds = int(sys.argv[2]) if len(sys.argv) > 2 else 120
    os.makedirs(WORK, exist_ok=True)
    t0 = time.time()
    why, log = build()
    if why:
        print(log[-3000:])
        print(json.dumps({"flavour": "libfuzzer", "status": "inconclusive", "why": why}))
        sys.exit(2)
    shutil.rmtree(os.path.join(WORK, "seeds"), ignore_errors=True)
    rc, out = sh([os.path.join(TARGET, "dev", "debug", "vtv"), "c19-corpus", os.path.join(WORK, "seeds"), str(seed)], cwd=VERIF)
    if rc != 0:
        print(out[-2000:])
        print(json.dumps({"flavour": "libfuzzer", "status": "inconclusive", "why": "corpus generation failed"}))
        sys.exit(2)
    with ThreadPoolExecutor(max_workers=len(TARGETS)) as ex:
        results = list(ex.map(lambda kv: run_target(kv[0], kv[1], seconds, seed), TARGETS.items()))
    rec = {"flavour": "libfuzzer", "seconds_per_target": seconds, "seed": seed, "wall_s": round(time.time() - t0, 1), "targets": results,
           "evaluations": sum(r.get("executions", 0) for r in results), "violations": sum(len(r.get("violations", [])) for r in results),
           "timeouts_not_judged": sum(r.get("artifacts", {}).get("timeout-", 0) for r in results)}
    if any(r["status"] == "violated" for r in results):
        rec["status"] = "violated"
    elif any(r["status"] == "inconclusive" for r in results):
        rec["status"] = "inconclusive"
    else:
        rec["status"] = "held"
    for r in results:
        for v in r.get("violations", []):
            print(f"VIOLATION property=C19 replay={v['artifact']}")
            print(f"  signature={v['signature']} what=libFuzzer target `{r['target']}` brought the process down ({v['kind']})")
    print(json.dumps(rec))
    sys.exit(1 if rec["status"] == "violated" else (0 if rec["status"] == "held" else 2))


if __name__ == "__main__":
    main()
