//! C19, coverage-guided flavour: the decoding entry points as libFuzzer targets (`/verif/harness/fuzz`)
//! and the seed corpus taken from the generators of the other properties.
//!
//! A target returns normally for every input (value or error); a panic (the fuzz build aborts on
//! panic), an abort, a stack overflow or an allocation beyond libFuzzer's `-malloc_limit_mb` is the
//! violation, and libFuzzer writes the input as an artifact.

use crate::codec::{imvt, ipm, ivt};
use crate::gen::{self, coord_of, GenOpts, MemSource, TileSet};
use crate::guard;
use crate::mvtsrc;
use crate::pipe::{self, Sources, Src};
use crate::rng::Rng;
use std::io::Cursor;
use std::path::Path;
use std::sync::OnceLock;
use versatiles_container::{PMTilesReader, PMTilesWriter, TilesWriterTrait, VersaTilesReader, VersaTilesWriter};
use versatiles_core::io::{DataReaderBlob, DataWriterBlob};
use versatiles_core::json::parse_json_str;
use versatiles_core::tilejson::TileJSON;
use versatiles_core::types::*;
use versatiles_core::utils::read_csv_iter;
use versatiles_geometry::vector_tile::VectorTile;
use versatiles_pipeline::verif::parse_vpl;

pub const TARGETS: [&str; 7] = ["json", "csv", "vpl", "factory", "mvt", "versatiles", "pmtiles"];

pub fn fuzz_json(data: &[u8]) {
	if let Ok(s) = std::str::from_utf8(data) {
		let _ = parse_json_str(s);
		let _ = TileJSON::try_from(s);
	}
	let _ = TileJSON::try_from_blob_or_default(&Blob::from(data.to_vec()));
}

pub fn fuzz_csv(data: &[u8]) {
	if let Ok(it) = read_csv_iter(Cursor::new(data.to_vec()), b',') {
		for r in it.take(10_000) {
			if r.is_err() {
				break;
			}
		}
	}
}

pub fn fuzz_vpl(data: &[u8]) {
	if let Ok(s) = std::str::from_utf8(data) {
		let _ = parse_vpl(s);
	}
}

struct FactoryFixture {
	sources: Sources,
	dir: std::path::PathBuf,
	probe: TileCoord3,
}

fn fixture() -> &'static FactoryFixture {
	static F: OnceLock<FactoryFixture> = OnceLock::new();
	F.get_or_init(|| {
		let mut rng = Rng::new(19);
		let go = imvt::GenOpts { id_field: Some("osm_id".into()), extreme_values: false, ..Default::default() };
		let vsets = mvtsrc::gen_vector_sets(&mut rng, 2, &go, false, &imvt::EncOpts::default());
		let opts = GenOpts { max_tiles: 30, max_level: 10, formats: vec![(TileFormat::PNG, crate::comp::Comp::None)], ..Default::default() };
		let ts = gen::gen_tileset(&mut rng, &opts);
		let mut sources = Sources::new();
		sources.add_mem("a.x", &ts);
		sources.add_mem("b.x", &ts);
		sources.add("v0.x", Src::Mem { ts: vsets[0].tileset("v0"), pyramid: None, default_stream: false, yields: 0, open_yields: 0 });
		sources.add("v1.x", Src::Mem { ts: vsets[1].tileset("v1"), pyramid: None, default_stream: false, yields: 0, open_yields: 0 });
		let dir = std::env::temp_dir().join(format!("vtv-fuzz-factory-{}", std::process::id()));
		let _ = std::fs::create_dir_all(&dir);
		let _ = std::fs::write(dir.join("data.csv"), mvtsrc::gen_csv(&mut rng).text);
		let probe = coord_of(ts.tiles.keys().next().unwrap());
		FactoryFixture { sources, dir, probe }
	})
}

/// input = pipeline text; with a 0x00 byte in it: text before, CSV data file after
pub fn fuzz_factory(data: &[u8]) {
	let fx = fixture();
	let (text, csv) = match data.iter().position(|b| *b == 0) {
		Some(p) => (&data[..p], Some(&data[p + 1..])),
		None => (data, None),
	};
	let Ok(vpl) = std::str::from_utf8(text) else { return };
	if vpl.contains("from_debug") && !vpl.contains("filter") {
		// from_debug renders images: CPU time, not what this target is after
	}
	if let Some(c) = csv {
		let _ = std::fs::write(fx.dir.join("fuzz.csv"), c);
	}
	guard::block_on(async {
		if let Ok((reader, _)) = pipe::build(vpl, &fx.sources, Some(&fx.dir)).await {
			let _ = reader.get_tile_data(&fx.probe).await;
		}
	});
}

pub fn fuzz_mvt(data: &[u8]) {
	if let Ok(t) = VectorTile::from_blob(&Blob::from(data.to_vec())) {
		for l in &t.layers {
			let _ = l.to_features();
			for f in &l.features {
				let _ = l.decode_tag_ids(&f.tag_ids);
			}
		}
		let _ = t.to_blob();
	}
}

fn probe_reader(r: &dyn TilesReaderTrait) -> Vec<TileCoord3> {
	let mut v = vec![TileCoord3::new(0, 0, 0).unwrap()];
	for lb in r.get_parameters().bbox_pyramid.iter_levels().take(32) {
		if lb.is_empty() {
			continue;
		}
		for (x, y) in [(lb.x_min, lb.y_min), (lb.x_max, lb.y_max), (lb.x_min / 2 + lb.x_max / 2, lb.y_min / 2 + lb.y_max / 2)] {
			if let Ok(c) = TileCoord3::new(x, y, lb.level) {
				v.push(c);
			}
		}
	}
	v
}

pub fn fuzz_container(data: &[u8], versatiles: bool) {
	guard::block_on(async {
		let rd = Box::new(DataReaderBlob::from(data.to_vec()));
		let opened: anyhow::Result<Box<dyn TilesReaderTrait>> = if versatiles { VersaTilesReader::open_reader(rd).await.map(|r| r.boxed()) } else { PMTilesReader::open_reader(rd).await.map(|r| r.boxed()) };
		if let Ok(r) = opened {
			for c in probe_reader(r.as_ref()) {
				let _ = r.get_tile_data(&c).await;
			}
			let _ = r.get_tilejson().as_string();
		}
	});
}

// ---- seed corpus -----------------------------------------------------------------------------

fn write_own(ts: &TileSet, versatiles: bool) -> Option<Vec<u8>> {
	let mut src = MemSource::new(ts);
	let mut w = DataWriterBlob::new().ok()?;
	guard::block_on(async {
		if versatiles {
			VersaTilesWriter::write_to_writer(&mut src, &mut w).await
		} else {
			PMTilesWriter::write_to_writer(&mut src, &mut w).await
		}
	})
	.ok()?;
	Some(w.into_blob().into_vec())
}

/// `vtv c19-corpus <dir> [seed]`: valid encodings as libFuzzer seed corpus, one directory per target
pub fn dump_corpus(args: &[String]) -> i32 {
	let Some(dir) = args.first() else { return 2 };
	let seed: u64 = args.get(1).and_then(|s| s.parse().ok()).unwrap_or(1);
	let mut rng = Rng::new(seed ^ 0xC19F);
	let put = |target: &str, i: usize, bytes: &[u8]| {
		let d = Path::new(dir).join(target);
		let _ = std::fs::create_dir_all(&d);
		let _ = std::fs::write(d.join(format!("seed{i:03}")), bytes);
	};
	for i in 0..40 {
		let d = rng.below(4) as u32;
		put("json", i, crate::mon::c17::gen_json(&mut rng, d).stringify().as_bytes());
		let ts = gen::gen_tileset(&mut rng, &GenOpts { max_tiles: 3, max_level: 8, ..Default::default() });
		put("json", 100 + i, crate::mon::c17::gen_doc(&mut rng, &ts).text.as_bytes());
		put("csv", i, mvtsrc::gen_csv(&mut rng).text.as_bytes());
		put("vpl", i, crate::mon::c18::random_vpl_text(&mut rng).as_bytes());
		let layers = imvt::gen_layers(&mut rng, &imvt::GenOpts::default());
		let enc = imvt::EncOpts { dup_keys: rng.bool(), dup_vals: rng.bool(), unused_entries: rng.bool(), foreign_field_order: rng.bool(), split_packed: rng.chance(0.3) };
		put("mvt", i, &imvt::encode_tile(&layers, &enc, &mut rng));
	}
	let valid = [
		"from_container filename=a.x | filter_zoom min=1 max=5",
		"from_container filename=a.x | filter_bbox bbox=[-10,-20,30,40]",
		"from_overlayed [ from_container filename=a.x, from_container filename=b.x | filter_zoom min=2 ]",
		"from_vectortiles_merged [ from_container filename=v0.x, from_container filename=v1.x ]",
		"from_container filename=v0.x | vectortiles_update_properties data_source_path=\"data.csv\" layer_name=roads id_field_tiles=osm_id id_field_data=id replace_properties=true",
		"from_container filename=v0.x | vectortiles_update_properties data_source_path=\"fuzz.csv\" layer_name=roads id_field_tiles=osm_id id_field_data=id remove_non_matching=true include_id=true",
		"from_debug format=pbf | filter_zoom max=3",
	];
	for (i, v) in valid.iter().enumerate() {
		put("factory", i, v.as_bytes());
		put("vpl", 100 + i, v.as_bytes());
	}
	for i in 0..6 {
		let mut b = valid[5].as_bytes().to_vec();
		b.push(0);
		b.extend_from_slice(mvtsrc::gen_csv(&mut rng).text.as_bytes());
		put("factory", 100 + i, &b);
	}
	for i in 0..12 {
		for versatiles in [true, false] {
			let target = if versatiles { "versatiles" } else { "pmtiles" };
			let ts = gen::gen_tileset(&mut rng, &GenOpts { max_tiles: 25, max_level: 14, formats: crate::mon::c01::pairs_for(target), ..Default::default() });
			if let Some(b) = write_own(&ts, versatiles) {
				put(target, i, &b);
			}
			let foreign = if versatiles {
				ivt::encode(&ts, &ivt::EncOpts::random(&mut rng), &mut rng)
			} else {
				let o = ipm::EncOpts::random(&mut rng, ts.tiles.len());
				ipm::encode(&ts, &o, &mut rng)
			};
			put(target, 100 + i, &foreign);
		}
	}
	0
}
