//! Process-sharded case runner. One case at a time per child process, so that a panic, abort,
//! stack overflow or hang is attributed to exactly one case; the parent merges the reports.

use crate::guard;
use crate::report::{conclude, work_dir, write_atomic, Plan, Report, Tier};
use serde_json::{json, Value};
use std::cell::RefCell;
use std::path::PathBuf;
use std::process::{Child, Command, Stdio};
use std::time::{Duration, Instant};

pub struct CaseCtx {
	pub property: &'static str,
	pub tier: Tier,
	pub seed: u64,
	pub case: u64,
	/// scratch directory private to this shard (emptied by the monitor as it sees fit)
	pub scratch: PathBuf,
	pub replay: bool,
	progress_file: Option<PathBuf>,
	label: std::sync::Mutex<String>,
}

impl CaseCtx {
	/// name what the case is doing right now (used to attribute an abort / hang)
	pub fn progress(&self, label: &str) {
		*self.label.lock().unwrap() = label.to_string();
		if let Some(p) = &self.progress_file {
			let _ = std::fs::write(p, format!("{}\t{}", self.case, label));
		}
	}
	pub fn rng(&self) -> crate::rng::Rng {
		crate::rng::Rng::for_case(self.seed, self.property, self.case)
	}
	pub fn fresh_dir(&self, name: &str) -> PathBuf {
		let p = self.scratch.join(name);
		let _ = std::fs::remove_dir_all(&p);
		let _ = std::fs::create_dir_all(&p);
		p
	}
}

pub struct MonitorDef {
	pub id: &'static str,
	pub plan: fn(Tier, u64) -> Plan,
	pub run_case: fn(&CaseCtx, &mut Report),
	/// parent side: cross-case requirements ("must have observed …")
	pub finalize: fn(Tier, &Plan, &mut Report),
}

pub fn no_finalize(_: Tier, _: &Plan, _: &mut Report) {}

pub struct Args {
	pub tier: Tier,
	pub seed: u64,
	pub shard: Option<(usize, usize)>,
	pub from: u64,
	pub skip: Vec<u64>,
	pub case: Option<u64>,
	pub part: u32,
}

fn run_one(def: &MonitorDef, cx: &CaseCtx, rep: &mut Report) {
	rep.current_case = cx.case;
	let r = guard::catch_strict_thread(|| (def.run_case)(cx, rep));
	if let Err(p) = r {
		if p.file.contains("/verif/") || p.file.starts_with("src/") {
			rep.inconclusive(&format!("harness panic in case {}: {}", cx.case, p.describe()));
		} else {
			let sig = p.signature("uncaught");
			rep.violation(&sig, "panic escaped from the code under test", json!({"panic": p.describe(), "label": cx.label.lock().unwrap().clone()}));
		}
	}
}

/// child side
pub fn run_shard(def: &MonitorDef, a: &Args) -> i32 {
	let (i, k) = a.shard.unwrap();
	let plan = (def.plan)(a.tier, a.seed);
	let wd = work_dir(def.id);
	let progress_file = wd.join(format!("shard_{i}.progress"));
	let out_file = wd.join(format!("shard_{i}.part{}.json", a.part));
	let scratch = wd.join(format!("scratch_{i}"));
	let _ = std::fs::create_dir_all(&scratch);
	let mut rep = Report::new();
	let mut last_flush = Instant::now();
	let mut done_through: i64 = a.from as i64 - 1;
	let mut case = a.from;
	while case < plan.cases {
		if (case % k as u64) as usize == i && !a.skip.contains(&case) {
			let cx = CaseCtx {
				property: def.id,
				tier: a.tier,
				seed: a.seed,
				case,
				scratch: scratch.clone(),
				replay: false,
				progress_file: Some(progress_file.clone()),
				label: std::sync::Mutex::new(String::new()),
			};
			cx.progress("");
			let t0 = Instant::now();
			run_one(def, &cx, &mut rep);
			let ms = t0.elapsed().as_millis() as u64;
			rep.max("slowest_case_ms", ms);
			if ms > 8000 {
				rep.label("slow_cases", &format!("case {case}: {ms} ms ({})", cx.label.lock().unwrap()));
			}
			done_through = case as i64;
			if last_flush.elapsed() > Duration::from_millis(1500) {
				write_atomic(&out_file, &json!({"done_through": done_through, "finished": false, "report": rep.to_json()}).to_string());
				last_flush = Instant::now();
			}
		}
		case += 1;
	}
	write_atomic(&out_file, &json!({"done_through": plan.cases as i64, "finished": true, "report": rep.to_json()}).to_string());
	let _ = std::fs::remove_dir_all(&scratch);
	0
}

struct Slot {
	idx: usize,
	child: Option<Child>,
	part: u32,
	from: u64,
	skips: Vec<u64>,
	last_progress: String,
	last_change: Instant,
	finished: bool,
}

fn spawn(def: &MonitorDef, a: &Args, idx: usize, k: usize, from: u64, skip: &[u64], part: u32) -> Child {
	let exe = std::env::current_exe().expect("current_exe");
	let mut c = Command::new(exe);
	c.arg(def.id)
		.arg("--tier")
		.arg(a.tier.as_str())
		.arg("--seed")
		.arg(a.seed.to_string())
		.arg("--shard")
		.arg(format!("{idx}/{k}"))
		.arg("--from")
		.arg(from.to_string())
		.arg("--part")
		.arg(part.to_string());
	if !skip.is_empty() {
		c.arg("--skip").arg(skip.iter().map(|s| s.to_string()).collect::<Vec<_>>().join(","));
	}
	c.stdout(Stdio::null()).stdin(Stdio::null());
	if std::env::var("VTV_CHILD_STDERR").is_err() {
		c.stderr(Stdio::null());
	}
	c.spawn().expect("spawn shard child")
}

fn read_part(def: &MonitorDef, idx: usize, part: u32) -> Option<(i64, bool, Report)> {
	let f = work_dir(def.id).join(format!("shard_{idx}.part{part}.json"));
	let text = std::fs::read_to_string(f).ok()?;
	let v: Value = serde_json::from_str(&text).ok()?;
	Some((v["done_through"].as_i64().unwrap_or(-1), v["finished"].as_bool().unwrap_or(false), Report::from_json(&v["report"])))
}

/// parent side (or single-case replay)
pub fn run_monitor(def: &MonitorDef, a: &Args) -> i32 {
	guard::install();
	if a.shard.is_some() {
		return run_shard(def, a);
	}
	let start = Instant::now();
	let plan = (def.plan)(a.tier, a.seed);

	if let Some(case) = a.case {
		let wd = work_dir(def.id);
		// private to this process: several `--case` runs of one property may run side by side (flavours)
		let scratch = wd.join(format!("scratch_replay_{}", std::process::id()));
		let _ = std::fs::create_dir_all(&scratch);
		let cx = CaseCtx {
			property: def.id,
			tier: a.tier,
			seed: a.seed,
			case,
			scratch: scratch.clone(),
			replay: true,
			progress_file: None,
			label: std::sync::Mutex::new(String::new()),
		};
		let mut rep = Report::new();
		run_one(def, &cx, &mut rep);
		let _ = std::fs::remove_dir_all(&scratch);
		println!("{}", serde_json::to_string_pretty(&rep.to_json()).unwrap());
		let known = crate::report::load_known_findings();
		let mut code = 0;
		for (sig, g) in &rep.violations {
			if known.iter().any(|k| k.open && k.property == def.id && &k.signature == sig) {
				println!("KNOWN-FINDING: property={} signature={sig} {}", def.id, g.what);
			} else {
				println!("VIOLATION property={} replay=case:{case} signature={sig}", def.id);
				code = 1;
			}
		}
		return code;
	}

	// clean work dir of old parts
	let wd = work_dir(def.id);
	if let Ok(rd) = std::fs::read_dir(&wd) {
		for e in rd.flatten() {
			let n = e.file_name().to_string_lossy().to_string();
			if n.starts_with("shard_") {
				let _ = std::fs::remove_file(e.path());
			} else if n.starts_with("scratch_") {
				let _ = std::fs::remove_dir_all(e.path());
			}
		}
	}

	let k = plan.shards.max(1).min(plan.cases.max(1) as usize);
	let mut merged = Report::new();
	let mut slots: Vec<Slot> = (0..k)
		.map(|idx| Slot {
			idx,
			child: Some(spawn(def, a, idx, k, 0, &[], 0)),
			part: 0,
			from: 0,
			skips: vec![],
			last_progress: String::new(),
			last_change: Instant::now(),
			finished: false,
		})
		.collect();

	let timeout = Duration::from_secs(plan.case_timeout_s);
	loop {
		let mut all_done = true;
		for s in slots.iter_mut() {
			if s.finished {
				continue;
			}
			all_done = false;
			let pf = wd.join(format!("shard_{}.progress", s.idx));
			let cur = std::fs::read_to_string(&pf).unwrap_or_default();
			if cur != s.last_progress {
				s.last_progress = cur.clone();
				s.last_change = Instant::now();
			}
			let mut status = None;
			if let Some(ch) = s.child.as_mut() {
				match ch.try_wait() {
					Ok(Some(st)) => status = Some(st),
					Ok(None) => {
						if s.last_change.elapsed() > timeout {
							let _ = ch.kill();
							let _ = ch.wait();
							// timed out
							let (case, label) = parse_progress(&s.last_progress);
							if plan.timeouts_excluded {
								merged.count("timed_out_cases", 1);
								merged.label("timed_out", &label);
							} else {
								merged.inconclusive(&format!("case {case} ({label}) exceeded the {}s watchdog", plan.case_timeout_s));
							}
							restart(def, a, s, k, case, &mut merged);
						}
						continue;
					}
					Err(_) => continue,
				}
			}
			if let Some(st) = status {
				if let Some((_, true, rep)) = read_part(def, s.idx, s.part) {
					if st.success() {
						merged.merge(rep);
						s.finished = true;
						s.child = None;
						continue;
					}
				}
				// died early: abort / signal
				let (case, label) = parse_progress(&s.last_progress_fresh(&wd));
				use std::os::unix::process::ExitStatusExt;
				let how = match (st.signal(), st.code()) {
					(Some(sig), _) => format!("sig{sig}"),
					(_, Some(c)) => format!("exit{c}"),
					_ => "unknown".into(),
				};
				merged.current_case = case;
				merged.violation(
					&format!("abort|{label}|{how}"),
					"the process under test died (abort / signal / stack overflow / allocation failure)",
					json!({"label": label, "how": how}),
				);
				restart(def, a, s, k, case, &mut merged);
			}
		}
		if all_done {
			break;
		}
		std::thread::sleep(Duration::from_millis(50));
	}

	(def.finalize)(a.tier, &plan, &mut merged);
	let wall = start.elapsed().as_secs_f64();
	conclude(def.id, a.tier, a.seed, &plan, &merged, wall, None).exit_code
}

impl Slot {
	fn last_progress_fresh(&self, wd: &std::path::Path) -> String {
		std::fs::read_to_string(wd.join(format!("shard_{}.progress", self.idx))).unwrap_or_else(|_| self.last_progress.clone())
	}
}

fn parse_progress(s: &str) -> (u64, String) {
	let mut it = s.splitn(2, '\t');
	let case = it.next().and_then(|c| c.trim().parse().ok()).unwrap_or(0);
	(case, it.next().unwrap_or("").to_string())
}

fn restart(def: &MonitorDef, a: &Args, s: &mut Slot, k: usize, bad_case: u64, merged: &mut Report) {
	// keep what the dead incarnation had flushed and continue after it, skipping the bad case;
	// cases it had finished but not flushed are simply run again (their results were never merged)
	if let Some((done, _, rep)) = read_part(def, s.idx, s.part) {
		merged.merge(rep);
		s.from = (done + 1).max(s.from as i64) as u64;
	}
	let _ = std::fs::remove_file(work_dir(def.id).join(format!("shard_{}.part{}.json", s.idx, s.part)));
	s.skips.push(bad_case);
	let _ = std::fs::remove_file(work_dir(def.id).join(format!("shard_{}.progress", s.idx)));
	s.part += 1;
	if s.part > 5000 {
		merged.inconclusive("too many restarts of one shard");
		s.finished = true;
		s.child = None;
		return;
	}
	s.child = Some(spawn(def, a, s.idx, k, s.from, &s.skips, s.part));
	s.last_change = Instant::now();
	s.last_progress = String::new();
}
