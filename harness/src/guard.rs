//! Guarded execution: panics become observations with a normalised signature.

use std::panic::{catch_unwind, AssertUnwindSafe};
use std::sync::{Mutex, Once};

#[derive(Clone, Debug)]
pub struct PanicRec {
	pub file: String,
	pub line: u32,
	pub message: String,
}

static LOG: Mutex<Vec<PanicRec>> = Mutex::new(Vec::new());
static INSTALL: Once = Once::new();

/// Install the recording panic hook (idempotent). The default hook's stderr output is suppressed.
pub fn install() {
	INSTALL.call_once(|| {
		std::panic::set_hook(Box::new(|info| {
			let (file, line) = info.location().map(|l| (l.file().to_string(), l.line())).unwrap_or(("?".into(), 0));
			let message = if let Some(s) = info.payload().downcast_ref::<&str>() {
				s.to_string()
			} else if let Some(s) = info.payload().downcast_ref::<String>() {
				s.clone()
			} else {
				"<non-string panic payload>".to_string()
			};
			if let Ok(mut l) = LOG.lock() {
				if l.len() < 64 {
					l.push(PanicRec { file, line, message });
				}
			}
		}));
	});
}

pub fn drain() -> Vec<PanicRec> {
	LOG.lock().map(|mut l| std::mem::take(&mut *l)).unwrap_or_default()
}

/// Run `f`; a panic anywhere in the process while it runs (including tokio worker threads) is
/// reported as `Err(first panic)`. One guarded call at a time per process.
pub fn catch<T>(f: impl FnOnce() -> T) -> Result<T, PanicRec> {
	install();
	drain();
	let r = catch_unwind(AssertUnwindSafe(f));
	let recs = drain();
	match r {
		Ok(v) => {
			if let Some(first) = recs.into_iter().next() {
				// a panic happened on another thread and was swallowed (e.g. a spawned task)
				Err(first)
			} else {
				Ok(v)
			}
		}
		Err(_) => Err(recs.into_iter().next().unwrap_or(PanicRec {
			file: "?".into(),
			line: 0,
			message: "panic without record".into(),
		})),
	}
}

/// like `catch`, but a panic swallowed on another thread is ignored when the call itself returned
pub fn catch_strict_thread<T>(f: impl FnOnce() -> T) -> Result<T, PanicRec> {
	install();
	drain();
	let r = catch_unwind(AssertUnwindSafe(f));
	let recs = drain();
	r.map_err(|_| {
		recs.into_iter().next().unwrap_or(PanicRec {
			file: "?".into(),
			line: 0,
			message: "panic without record".into(),
		})
	})
}

fn short_file(file: &str) -> String {
	// keep the path from the crate directory on: versatiles_core/src/...
	if let Some(pos) = file.find("versatiles") {
		return file[pos..].to_string();
	}
	// registry crates / std: crate dir + file name
	let parts: Vec<&str> = file.split('/').collect();
	if let Some(i) = parts.iter().position(|p| *p == "src") {
		if i > 0 {
			return format!("{}/{}", strip_version(parts[i - 1]), parts[i + 1..].join("/"));
		}
	}
	parts.last().unwrap_or(&"?").to_string()
}

fn strip_version(s: &str) -> String {
	// "tar-0.4.44" -> "tar"
	match s.rfind('-') {
		Some(p) if s[p + 1..].chars().next().map(|c| c.is_ascii_digit()).unwrap_or(false) => s[..p].to_string(),
		_ => s.to_string(),
	}
}

/// message reduced to its class: payload details and numbers removed
pub fn message_class(msg: &str) -> String {
	let mut m = msg.to_string();
	for (prefix, keep) in [
		("called `Result::unwrap()` on an `Err` value", "called Result::unwrap() on an Err"),
		("called `Option::unwrap()` on a `None` value", "called Option::unwrap() on None"),
	] {
		if m.starts_with(prefix) {
			return keep.to_string();
		}
	}
	if let Some(p) = m.find(": ") {
		// `expect("text"): detail` and assertion details
		if p > 8 {
			m.truncate(p);
		}
	}
	let mut out = String::new();
	let mut last_hash = false;
	for c in m.chars() {
		if c.is_ascii_digit() {
			if !last_hash {
				out.push('#');
				last_hash = true;
			}
		} else if c == '\n' {
			break;
		} else {
			out.push(c);
			last_hash = false;
		}
		if out.len() >= 90 {
			break;
		}
	}
	out.trim().to_string()
}

/// hash of the trimmed source line the panic points at (so unrelated line shifts keep the signature)
fn line_hash(file: &str, line: u32) -> String {
	let candidates = [file.to_string(), format!("/repo/{file}")];
	for c in candidates {
		if let Ok(text) = std::fs::read_to_string(&c) {
			if let Some(l) = text.lines().nth((line as usize).saturating_sub(1)) {
				return format!("{:06x}", crate::rng::fnv(l.trim().as_bytes()) & 0xffffff);
			}
		}
	}
	"nosrc".into()
}

impl PanicRec {
	/// `panic|<entry>|<file>|<hash of source line>|<message class>`
	pub fn signature(&self, entry: &str) -> String {
		// a panic in the harness's own code (paths relative to the harness crate) is a defect of the machinery:
		// the report files it as inconclusive, never as a violation of the property
		if self.file.starts_with("src/") {
			return format!("harness-panic|{entry}|{}:{}|{}", self.file, self.line, message_class(&self.message));
		}
		let in_repo = self.file.contains("versatiles");
		let lh = if in_repo { line_hash(&self.file, self.line) } else { "ext".into() };
		format!("panic|{entry}|{}|{lh}|{}", short_file(&self.file), message_class(&self.message))
	}
	pub fn describe(&self) -> String {
		let mut m = self.message.clone();
		if m.len() > 300 {
			let mut cut = 300;
			while !m.is_char_boundary(cut) {
				cut -= 1;
			}
			m.truncate(cut);
		}
		format!("{}:{}: {}", self.file, self.line, m)
	}
}

/// Run a future to completion on a fresh current-thread runtime.
pub fn block_on<F: std::future::Future>(fut: F) -> F::Output {
	tokio::runtime::Builder::new_current_thread().enable_all().build().unwrap().block_on(fut)
}

/// Run a future to completion on a fresh multi-thread runtime with `workers` workers.
pub fn block_on_mt<F: std::future::Future>(workers: usize, fut: F) -> F::Output {
	tokio::runtime::Builder::new_multi_thread().worker_threads(workers).enable_all().build().unwrap().block_on(fut)
}

/// While alive, the process may open only `spare` more file descriptors than it has open now (soft limit;
/// restored on drop, also when unwinding).
pub struct ScarceFds {
	old: Option<libc::rlimit>,
}

impl ScarceFds {
	pub fn new(spare: u64) -> ScarceFds {
		let used = std::fs::read_dir("/proc/self/fd").map(|d| d.count()).unwrap_or(64) as u64;
		let mut lim = libc::rlimit { rlim_cur: 0, rlim_max: 0 };
		// SAFETY: plain libc calls on a local struct
		if unsafe { libc::getrlimit(libc::RLIMIT_NOFILE, &mut lim) } != 0 {
			return ScarceFds { old: None };
		}
		let low = libc::rlimit { rlim_cur: (used + spare).min(lim.rlim_cur), rlim_max: lim.rlim_max };
		if unsafe { libc::setrlimit(libc::RLIMIT_NOFILE, &low) } != 0 {
			return ScarceFds { old: None };
		}
		ScarceFds { old: Some(lim) }
	}
	pub fn active(&self) -> bool {
		self.old.is_some()
	}
}

impl Drop for ScarceFds {
	fn drop(&mut self) {
		if let Some(lim) = self.old.take() {
			// SAFETY: as above
			unsafe { libc::setrlimit(libc::RLIMIT_NOFILE, &lim) };
		}
	}
}

struct NullLogger;
impl log::Log for NullLogger {
	fn enabled(&self, _: &log::Metadata) -> bool {
		true
	}
	fn log(&self, record: &log::Record) {
		// format the message (argument evaluation is part of what a logging process executes), keep nothing
		let _ = format!("{}", record.args()).len();
	}
	fn flush(&self) {}
}
static NULL_LOGGER: NullLogger = NullLogger;

/// Make the process one that logs at trace level (as `versatiles -vvvv` does) or not at all: code behind
/// `log_enabled!` / `trace!` runs only in the former.
pub fn trace_logging(on: bool) {
	static ONCE: Once = Once::new();
	ONCE.call_once(|| {
		let _ = log::set_logger(&NULL_LOGGER);
	});
	log::set_max_level(if on { log::LevelFilter::Trace } else { log::LevelFilter::Off });
}

/// while alive the calling thread may run on one CPU only (so `available_parallelism()` reports 1)
pub struct OneCpu {
	old: Option<libc::cpu_set_t>,
}
impl OneCpu {
	pub fn new() -> OneCpu {
		// SAFETY: plain libc calls on local, zero-initialised sets
		unsafe {
			let mut old: libc::cpu_set_t = std::mem::zeroed();
			if libc::sched_getaffinity(0, std::mem::size_of::<libc::cpu_set_t>(), &mut old) != 0 {
				return OneCpu { old: None };
			}
			let first = (0..libc::CPU_SETSIZE as usize).find(|i| libc::CPU_ISSET(*i, &old));
			let Some(first) = first else { return OneCpu { old: None } };
			let mut one: libc::cpu_set_t = std::mem::zeroed();
			libc::CPU_SET(first, &mut one);
			if libc::sched_setaffinity(0, std::mem::size_of::<libc::cpu_set_t>(), &one) != 0 {
				return OneCpu { old: None };
			}
			OneCpu { old: Some(old) }
		}
	}
}
impl Drop for OneCpu {
	fn drop(&mut self) {
		if let Some(old) = self.old.take() {
			// SAFETY: as above
			unsafe { libc::sched_setaffinity(0, std::mem::size_of::<libc::cpu_set_t>(), &old) };
		}
	}
}

