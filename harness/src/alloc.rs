//! Counting global allocator: records live bytes, the peak and the largest single request, so
//! that "allocates memory out of proportion to the input" becomes an observation.

use std::alloc::{GlobalAlloc, Layout, System};
use std::sync::atomic::{AtomicUsize, Ordering};

pub struct Counting;

static LIVE: AtomicUsize = AtomicUsize::new(0);
static PEAK: AtomicUsize = AtomicUsize::new(0);
static LARGEST: AtomicUsize = AtomicUsize::new(0);

unsafe impl GlobalAlloc for Counting {
	unsafe fn alloc(&self, l: Layout) -> *mut u8 {
		let p = System.alloc(l);
		if !p.is_null() {
			note(l.size());
		}
		p
	}
	unsafe fn alloc_zeroed(&self, l: Layout) -> *mut u8 {
		let p = System.alloc_zeroed(l);
		if !p.is_null() {
			note(l.size());
		}
		p
	}
	unsafe fn dealloc(&self, p: *mut u8, l: Layout) {
		System.dealloc(p, l);
		LIVE.fetch_sub(l.size(), Ordering::Relaxed);
	}
	unsafe fn realloc(&self, p: *mut u8, l: Layout, new: usize) -> *mut u8 {
		let q = System.realloc(p, l, new);
		if !q.is_null() {
			LIVE.fetch_sub(l.size(), Ordering::Relaxed);
			note(new);
		}
		q
	}
}

/// debugging aid: with `set_trap(n)` the first single request of at least n bytes prints where it came from
static TRAP: AtomicUsize = AtomicUsize::new(usize::MAX);
pub fn set_trap(bytes: usize) {
	TRAP.store(bytes, Ordering::Relaxed);
}

#[inline(never)]
fn trapped(size: usize) {
	TRAP.store(usize::MAX, Ordering::Relaxed);
	eprintln!("ALLOC-TRAP: single request of {size} bytes\n{}", std::backtrace::Backtrace::force_capture());
}

#[inline]
fn note(size: usize) {
	if size >= TRAP.load(Ordering::Relaxed) {
		trapped(size);
	}
	let live = LIVE.fetch_add(size, Ordering::Relaxed) + size;
	PEAK.fetch_max(live, Ordering::Relaxed);
	LARGEST.fetch_max(size, Ordering::Relaxed);
}

/// start a measurement window; returns the live bytes at its start
pub fn window_start() -> usize {
	let live = LIVE.load(Ordering::Relaxed);
	PEAK.store(live, Ordering::Relaxed);
	LARGEST.store(0, Ordering::Relaxed);
	live
}

/// (peak growth over the window's start, largest single request) since `window_start`
pub fn window_end(start_live: usize) -> (usize, usize) {
	(PEAK.load(Ordering::Relaxed).saturating_sub(start_live), LARGEST.load(Ordering::Relaxed))
}
