//! Compression primitives used by the oracles: the `flate2` / `brotli` crates called directly,
//! never through `versatiles_core::utils` (trusted base).

use std::io::{Read, Write};

#[derive(Clone, Copy, Debug, PartialEq, Eq, Hash, PartialOrd, Ord)]
pub enum Comp {
	None,
	Gzip,
	Brotli,
}

pub const ALL: [Comp; 3] = [Comp::None, Comp::Gzip, Comp::Brotli];

impl Comp {
	pub fn name(&self) -> &'static str {
		match self {
			Comp::None => "none",
			Comp::Gzip => "gzip",
			Comp::Brotli => "brotli",
		}
	}
	pub fn ext(&self) -> &'static str {
		match self {
			Comp::None => "",
			Comp::Gzip => ".gz",
			Comp::Brotli => ".br",
		}
	}
	pub fn to_core(&self) -> versatiles_core::types::TileCompression {
		use versatiles_core::types::TileCompression as T;
		match self {
			Comp::None => T::Uncompressed,
			Comp::Gzip => T::Gzip,
			Comp::Brotli => T::Brotli,
		}
	}
	pub fn from_core(c: versatiles_core::types::TileCompression) -> Comp {
		use versatiles_core::types::TileCompression as T;
		match c {
			T::Uncompressed => Comp::None,
			T::Gzip => Comp::Gzip,
			T::Brotli => Comp::Brotli,
		}
	}
}

pub fn gzip(data: &[u8]) -> Vec<u8> {
	let mut e = flate2::write::GzEncoder::new(Vec::new(), flate2::Compression::new(6));
	e.write_all(data).unwrap();
	e.finish().unwrap()
}

/// a gzip file of two members (RFC 1952 §2.2: "a gzip file consists of a series of members"; what `cat a.gz b.gz`
/// or a chunking / flushing compressor produces): decodes to the concatenation
pub fn gzip_two_members(data: &[u8], split: usize) -> Vec<u8> {
	let at = split.min(data.len());
	let mut out = gzip(&data[..at]);
	out.extend_from_slice(&gzip(&data[at..]));
	out
}

pub fn gunzip(data: &[u8]) -> Result<Vec<u8>, String> {
	let mut d = flate2::read::MultiGzDecoder::new(data);
	let mut out = Vec::new();
	d.read_to_end(&mut out).map_err(|e| format!("gunzip: {e}"))?;
	Ok(out)
}

pub fn deflate_raw(data: &[u8]) -> Vec<u8> {
	let mut e = flate2::write::DeflateEncoder::new(Vec::new(), flate2::Compression::new(6));
	e.write_all(data).unwrap();
	e.finish().unwrap()
}

pub fn inflate_zlib(data: &[u8]) -> Result<Vec<u8>, String> {
	let mut d = flate2::read::ZlibDecoder::new(data);
	let mut out = Vec::new();
	d.read_to_end(&mut out).map_err(|e| format!("zlib: {e}"))?;
	Ok(out)
}

thread_local! {
	static BROTLI_WINDOW: std::cell::Cell<u32> = const { std::cell::Cell::new(22) };
}

/// window size (lgwin, 10..=24) of the Brotli streams this thread writes from now on; every value is a valid
/// encoder choice and shows in the first byte of the stream
pub fn set_brotli_window(lgwin: u32) {
	BROTLI_WINDOW.with(|w| w.set(lgwin.clamp(10, 24)));
}

pub fn brotli(data: &[u8]) -> Vec<u8> {
	let mut out = Vec::new();
	{
		let mut w = brotli::CompressorWriter::new(&mut out, 4096, 5, BROTLI_WINDOW.with(|w| w.get()));
		w.write_all(data).unwrap();
	}
	out
}

pub fn unbrotli(data: &[u8]) -> Result<Vec<u8>, String> {
	let mut out = Vec::new();
	let mut r = brotli::Decompressor::new(data, 4096);
	r.read_to_end(&mut out).map_err(|e| format!("unbrotli: {e}"))?;
	Ok(out)
}

pub fn compress(data: &[u8], c: Comp) -> Vec<u8> {
	match c {
		Comp::None => data.to_vec(),
		Comp::Gzip => gzip(data),
		Comp::Brotli => brotli(data),
	}
}

pub fn decompress(data: &[u8], c: Comp) -> Result<Vec<u8>, String> {
	match c {
		Comp::None => Ok(data.to_vec()),
		Comp::Gzip => gunzip(data),
		Comp::Brotli => unbrotli(data),
	}
}
