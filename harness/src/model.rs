//! Reference models shared by the pipeline / conversion monitors: Mercator with a tolerance band,
//! zoom / bbox filter semantics, coordinate transforms.

use crate::gen::Key;

pub fn merc_x(lon: f64, z: u8) -> f64 {
	(2f64).powi(z as i32) * (lon / 360.0 + 0.5)
}
pub fn merc_y(lat: f64, z: u8) -> f64 {
	let r = (std::f64::consts::FRAC_PI_4 + lat.to_radians() / 2.0).tan().ln();
	(2f64).powi(z as i32) * (0.5 - r / (2.0 * std::f64::consts::PI))
}
pub fn tile_lon(x: f64, z: u8) -> f64 {
	(x / (2f64).powi(z as i32) - 0.5) * 360.0
}
pub fn tile_lat(y: f64, z: u8) -> f64 {
	(std::f64::consts::PI * (1.0 - 2.0 * y / (2f64).powi(z as i32))).sinh().atan().to_degrees()
}

#[derive(Clone, Copy, Debug, PartialEq)]
pub enum Tri {
	In,
	Out,
	DontCare,
}

pub fn band_for(z: u8) -> f64 {
	if z >= 28 {
		1e-3
	} else {
		2e-6
	}
}

fn clampi(v: f64, z: u8) -> i64 {
	let m = (1i64 << z) - 1;
	let f = v.floor();
	if f.is_nan() {
		return 0;
	}
	(f.max(0.0).min(m as f64)) as i64
}

/// one axis: membership of tile index `t` in the interval the documented rounding maps [a, b] to
fn axis(t: i64, a: f64, b: f64, z: u8) -> Tri {
	let band = band_for(z);
	let lo = [clampi(a - band, z), clampi(a + band, z)];
	let hi = [clampi(b - band, z), clampi(b + band, z)];
	let lo_min = lo[0].min(lo[1]);
	let lo_max = lo[0].max(lo[1]);
	let hi_min = hi[0].min(hi[1]);
	let hi_max = hi[0].max(hi[1]);
	if t < lo_min || t > hi_max.max(lo_max) {
		return Tri::Out;
	}
	if t >= lo_max && t <= hi_min {
		return Tri::In;
	}
	Tri::DontCare
}

/// geo = [west, south, east, north]
pub fn geo_membership(geo: &[f64; 4], k: &Key) -> Tri {
	let z = k.0;
	let tx = axis(k.1 as i64, merc_x(geo[0], z), merc_x(geo[2], z), z);
	let ty = axis(k.2 as i64, merc_y(geo[3], z), merc_y(geo[1], z), z);
	match (tx, ty) {
		(Tri::Out, _) | (_, Tri::Out) => Tri::Out,
		(Tri::In, Tri::In) => Tri::In,
		_ => Tri::DontCare,
	}
}

/// forward transform of a conversion: flip first, then swap
pub fn transform(k: &Key, flip: bool, swap: bool) -> Key {
	let m = ((1u64 << k.0) - 1) as u32;
	let (mut x, mut y) = (k.1, k.2);
	if flip {
		y = m - y;
	}
	if swap {
		std::mem::swap(&mut x, &mut y);
	}
	(k.0, x, y)
}

/// pre-image under the same transform
pub fn inverse(k: &Key, flip: bool, swap: bool) -> Key {
	let m = ((1u64 << k.0) - 1) as u32;
	let (mut x, mut y) = (k.1, k.2);
	if swap {
		std::mem::swap(&mut x, &mut y);
	}
	if flip {
		y = m - y;
	}
	(k.0, x, y)
}

/// a geographic box whose edges keep a safe distance from every tile border on the given levels
pub fn safe_geo_box(rng: &mut crate::rng::Rng, levels: &[u8], around: (u8, u32, u32, u32, u32)) -> [f64; 4] {
	let (z, x0, y0, x1, y1) = around;
	let n = (2f64).powi(z as i32);
	for _ in 0..200 {
		let fx0 = (x0 as f64 + rng.f64_range(-2.0, 2.5)).clamp(0.0, n);
		let fx1 = (x1 as f64 + 1.0 + rng.f64_range(-2.5, 2.0)).clamp(0.0, n);
		let fy0 = (y0 as f64 + rng.f64_range(-2.0, 2.5)).clamp(0.0, n);
		let fy1 = (y1 as f64 + 1.0 + rng.f64_range(-2.5, 2.0)).clamp(0.0, n);
		if fx1 <= fx0 || fy1 <= fy0 {
			continue;
		}
		let g = [tile_lon(fx0, z), tile_lat(fy1, z), tile_lon(fx1, z), tile_lat(fy0, z)];
		if g[1] < -85.0 || g[3] > 85.0 {
			continue;
		}
		let safe = levels.iter().all(|l| {
			[merc_x(g[0], *l), merc_x(g[2], *l), merc_y(g[1], *l), merc_y(g[3], *l)].iter().all(|v| {
				let frac = v - v.floor();
				frac > 1e-3 && frac < 1.0 - 1e-3
			})
		});
		if safe {
			return g;
		}
	}
	[-179.9, -84.9, 179.9, 84.9]
}

/// per axis: the candidate first / last tile index of the interval the rounding maps [a, b] to
fn axis_bounds(a: f64, b: f64, z: u8) -> (i64, i64, i64, i64) {
	let band = band_for(z);
	let lo = [clampi(a - band, z), clampi(a + band, z)];
	let hi = [clampi(b - band, z), clampi(b + band, z)];
	(lo[0].min(lo[1]), lo[0].max(lo[1]), hi[0].min(hi[1]), hi[0].max(hi[1]))
}

fn axis_border(t: i64, bounds: (i64, i64, i64, i64), border: i64) -> Tri {
	let (lo_min, lo_max, hi_min, hi_max) = bounds;
	if t < lo_min - border || t > hi_max.max(lo_max) + border {
		return Tri::Out;
	}
	if t >= lo_max - border && t <= hi_min + border {
		return Tri::In;
	}
	Tri::DontCare
}

/// membership in the tile box of `geo` at the key's zoom, dilated by `border` tiles (clipped to the level)
pub fn geo_membership_border(geo: &[f64; 4], k: &Key, border: u32) -> Tri {
	let z = k.0;
	let b = border as i64;
	let tx = axis_border(k.1 as i64, axis_bounds(merc_x(geo[0], z), merc_x(geo[2], z), z), b);
	let ty = axis_border(k.2 as i64, axis_bounds(merc_y(geo[3], z), merc_y(geo[1], z), z), b);
	match (tx, ty) {
		(Tri::Out, _) | (_, Tri::Out) => Tri::Out,
		(Tri::In, Tri::In) => Tri::In,
		_ => Tri::DontCare,
	}
}
