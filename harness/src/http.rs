//! Raw HTTP/1.1 client over `TcpStream`: request targets and headers are sent byte for byte;
//! the response is read until the peer closes and checked for completeness.

use crate::comp;
use std::io::{Read, Write};
use std::net::TcpStream;
use std::time::Duration;

#[derive(Clone, Debug, Default)]
pub struct Response {
	pub status: u16,
	pub headers: Vec<(String, String)>,
	pub body: Vec<u8>,
	/// status line + header block + body of the announced length arrived
	pub complete: bool,
	pub problem: String,
	pub raw_len: usize,
}

impl Response {
	pub fn header(&self, name: &str) -> Option<&str> {
		self.headers.iter().find(|(k, _)| k.eq_ignore_ascii_case(name)).map(|(_, v)| v.as_str())
	}
	/// body after undoing Content-Encoding with the harness's own codecs
	pub fn decoded_body(&self) -> Result<Vec<u8>, String> {
		match self.header("content-encoding").map(|s| s.trim().to_ascii_lowercase()) {
			None => Ok(self.body.clone()),
			Some(e) if e.is_empty() || e == "identity" => Ok(self.body.clone()),
			Some(e) if e == "gzip" => comp::gunzip(&self.body),
			Some(e) if e == "br" => comp::unbrotli(&self.body),
			Some(e) if e == "deflate" => comp::inflate_zlib(&self.body),
			Some(e) => Err(format!("content-encoding {e}")),
		}
	}
}

/// `target` is sent verbatim in the request line
pub fn get(port: u16, target: &str, headers: &[(&str, &str)]) -> Response {
	let mut req = format!("GET {target} HTTP/1.1\r\nHost: 127.0.0.1:{port}\r\nConnection: close\r\n");
	for (k, v) in headers {
		req.push_str(&format!("{k}: {v}\r\n"));
	}
	req.push_str("\r\n");
	raw(port, req.as_bytes())
}

pub fn raw(port: u16, request: &[u8]) -> Response {
	let mut r = Response::default();
	let mut s = match TcpStream::connect(("127.0.0.1", port)) {
		Ok(s) => s,
		Err(e) => {
			r.problem = format!("connect: {e}");
			return r;
		}
	};
	let _ = s.set_read_timeout(Some(Duration::from_secs(20)));
	let _ = s.set_write_timeout(Some(Duration::from_secs(20)));
	if let Err(e) = s.write_all(request) {
		r.problem = format!("write: {e}");
		return r;
	}
	let mut buf = Vec::new();
	let mut tmp = [0u8; 65536];
	loop {
		match s.read(&mut tmp) {
			Ok(0) => break,
			Ok(n) => buf.extend_from_slice(&tmp[..n]),
			Err(e) => {
				r.problem = format!("read: {e}");
				break;
			}
		}
	}
	r.raw_len = buf.len();
	parse(&buf, &mut r);
	r
}

fn parse(buf: &[u8], r: &mut Response) {
	let Some(hend) = buf.windows(4).position(|w| w == b"\r\n\r\n") else {
		if r.problem.is_empty() {
			r.problem = if buf.is_empty() { "connection closed without a response".into() } else { "no header block".into() };
		}
		return;
	};
	let head = String::from_utf8_lossy(&buf[..hend]).to_string();
	let mut lines = head.split("\r\n");
	let status_line = lines.next().unwrap_or("");
	let mut sp = status_line.split(' ');
	let ver = sp.next().unwrap_or("");
	r.status = sp.next().and_then(|s| s.parse().ok()).unwrap_or(0);
	if !ver.starts_with("HTTP/1.") || r.status == 0 {
		r.problem = format!("bad status line {status_line:?}");
		return;
	}
	for l in lines {
		if let Some(p) = l.find(':') {
			r.headers.push((l[..p].trim().to_string(), l[p + 1..].trim().to_string()));
		}
	}
	let body = &buf[hend + 4..];
	if r.header("transfer-encoding").map(|v| v.to_ascii_lowercase().contains("chunked")).unwrap_or(false) {
		let mut p = 0usize;
		loop {
			let Some(le) = body[p..].windows(2).position(|w| w == b"\r\n") else {
				r.problem = "truncated chunk header".into();
				return;
			};
			let size_str = String::from_utf8_lossy(&body[p..p + le]).to_string();
			let Ok(size) = usize::from_str_radix(size_str.split(';').next().unwrap_or("").trim(), 16) else {
				r.problem = "bad chunk size".into();
				return;
			};
			p += le + 2;
			if size == 0 {
				r.complete = true;
				return;
			}
			if p + size + 2 > body.len() {
				r.problem = "truncated chunk".into();
				return;
			}
			r.body.extend_from_slice(&body[p..p + size]);
			p += size + 2;
		}
	} else if let Some(cl) = r.header("content-length").and_then(|v| v.parse::<usize>().ok()) {
		if body.len() < cl {
			r.problem = format!("body has {} of {cl} announced bytes", body.len());
			r.body = body.to_vec();
			return;
		}
		r.body = body[..cl].to_vec();
		r.complete = true;
	} else {
		// delimited by connection close
		r.body = body.to_vec();
		r.complete = r.problem.is_empty();
	}
}
