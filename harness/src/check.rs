//! Reusable oracle: does a `TilesReaderTrait` expose exactly an expected mapping?

use crate::codec::Decoded;
use crate::comp::Comp;
use crate::gen::{coord_of, key_of, Key, TileSet};
use crate::guard;
use crate::rng::Rng;
use serde_json::{json, Value};
use std::collections::{BTreeMap, BTreeSet};
use versatiles_core::types::*;

#[derive(Debug, Clone)]
pub struct Finding {
	pub kind: String,
	pub detail: Value,
}

fn f(kind: &str, detail: Value) -> Finding {
	Finding { kind: kind.to_string(), detail }
}

pub fn kstr(k: &Key) -> String {
	format!("{}/{}/{}", k.0, k.1, k.2)
}

pub fn short(b: &[u8]) -> String {
	let head = &b[..b.len().min(24)];
	format!("{} bytes {:?}", b.len(), String::from_utf8_lossy(head))
}

/// probe coordinates: stored ∪ neighbours ∪ ring around the level boxes ∪ random ∪ all of zoom <= 3
pub fn probe_set(expect: &BTreeMap<Key, Vec<u8>>, rng: &mut Rng, extra_random: usize) -> BTreeSet<Key> {
	let mut p: BTreeSet<Key> = BTreeSet::new();
	let lim = |z: u8| ((1u64 << z) - 1) as i64;
	let mut bounds: BTreeMap<u8, (u32, u32, u32, u32)> = BTreeMap::new();
	for k in expect.keys() {
		p.insert(*k);
		let e = bounds.entry(k.0).or_insert((k.1, k.2, k.1, k.2));
		*e = (e.0.min(k.1), e.1.min(k.2), e.2.max(k.1), e.3.max(k.2));
	}
	let stored: Vec<Key> = expect.keys().cloned().collect();
	let nb_budget = 4000usize;
	for (i, k) in stored.iter().enumerate() {
		if i * 8 > nb_budget && i % 7 != 0 {
			continue;
		}
		for (dx, dy) in [(-1i64, 0i64), (1, 0), (0, -1), (0, 1), (1, 1), (-1, -1)] {
			let (x, y) = (k.1 as i64 + dx, k.2 as i64 + dy);
			if x >= 0 && y >= 0 && x <= lim(k.0) && y <= lim(k.0) {
				p.insert((k.0, x as u32, y as u32));
			}
		}
		// same x/y on neighbouring levels
		if k.0 > 0 {
			p.insert((k.0 - 1, k.1 / 2, k.2 / 2));
		}
		if k.0 < 31 {
			p.insert((k.0 + 1, (k.1 as u64 * 2).min(lim(k.0 + 1) as u64) as u32, (k.2 as u64 * 2).min(lim(k.0 + 1) as u64) as u32));
		}
	}
	for (z, b) in &bounds {
		// corners of a one-tile ring around the level box
		for (x, y) in [(b.0 as i64 - 1, b.1 as i64 - 1), (b.2 as i64 + 1, b.1 as i64 - 1), (b.0 as i64 - 1, b.3 as i64 + 1), (b.2 as i64 + 1, b.3 as i64 + 1), (b.0 as i64 - 1, b.1 as i64), (b.2 as i64 + 1, b.3 as i64)] {
			if x >= 0 && y >= 0 && x <= lim(*z) && y <= lim(*z) {
				p.insert((*z, x as u32, y as u32));
			}
		}
		for _ in 0..extra_random {
			let x = rng.range(b.0.saturating_sub(3) as u64, (b.2 as u64 + 3).min(lim(*z) as u64)) as u32;
			let y = rng.range(b.1.saturating_sub(3) as u64, (b.3 as u64 + 3).min(lim(*z) as u64)) as u32;
			p.insert((*z, x, y));
		}
	}
	for z in 0..=3u8 {
		for x in 0..(1u32 << z) {
			for y in 0..(1u32 << z) {
				p.insert((z, x, y));
			}
		}
	}
	for _ in 0..extra_random {
		let z = rng.below(32) as u8;
		p.insert((z, rng.range(0, lim(z) as u64) as u32, rng.range(0, lim(z) as u64) as u32));
	}
	p
}

pub struct ReaderCheckOpts {
	/// level boxes must be exactly the bounding boxes of the stored tiles
	pub exact_coverage: bool,
	pub check_streams: bool,
	pub multi_thread: bool,
	pub extra_random: usize,
}

impl Default for ReaderCheckOpts {
	fn default() -> Self {
		ReaderCheckOpts { exact_coverage: false, check_streams: true, multi_thread: false, extra_random: 40 }
	}
}

pub struct ReaderCheckStats {
	pub lookups: u64,
	pub streams: u64,
	pub streamed_tiles: u64,
	pub level_boxes_exact: u64,
}

/// Compare a reader with the expected mapping. Panics inside the reader are caught and reported.
pub fn check_reader(reader: &dyn TilesReaderTrait, expect: &BTreeMap<Key, Vec<u8>>, rng: &mut Rng, o: &ReaderCheckOpts) -> (Vec<Finding>, ReaderCheckStats) {
	let mut out = vec![];
	let mut st = ReaderCheckStats { lookups: 0, streams: 0, streamed_tiles: 0, level_boxes_exact: 0 };
	let pyramid = reader.get_parameters().bbox_pyramid.clone();

	// coverage
	let mut bounds: BTreeMap<u8, (u32, u32, u32, u32)> = BTreeMap::new();
	for k in expect.keys() {
		let e = bounds.entry(k.0).or_insert((k.1, k.2, k.1, k.2));
		*e = (e.0.min(k.1), e.1.min(k.2), e.2.max(k.1), e.3.max(k.2));
		if !pyramid.contains_coord(&coord_of(k)) {
			if out.iter().filter(|x: &&Finding| x.kind == "coverage-misses-tile").count() < 3 {
				out.push(f("coverage-misses-tile", json!({"tile": kstr(k), "advertised_level_box": format!("{:?}", pyramid.get_level_bbox(k.0))})));
			}
		}
	}
	if o.exact_coverage {
		for z in 0..32u8 {
			let lb = pyramid.get_level_bbox(z);
			match bounds.get(&z) {
				None => {
					if !lb.is_empty() {
						out.push(f("coverage-not-exact", json!({"level": z, "advertised": format!("{lb:?}"), "stored": "no tiles"})));
					}
				}
				Some(b) => {
					st.level_boxes_exact += 1;
					if lb.is_empty() || (lb.x_min, lb.y_min, lb.x_max, lb.y_max) != *b {
						out.push(f("coverage-not-exact", json!({"level": z, "advertised": format!("{lb:?}"), "stored_bounds": format!("{b:?}")})));
					}
				}
			}
		}
	}

	// lookups
	let probes = probe_set(expect, rng, o.extra_random);
	let run = |fut: std::pin::Pin<Box<dyn std::future::Future<Output = Vec<(Key, Result<Option<Vec<u8>>, String>)>> + '_>>| if o.multi_thread { guard::block_on_mt(4, fut) } else { guard::block_on(fut) };
	let looked = guard::catch(|| {
		run(Box::pin(async {
			let mut v = vec![];
			for k in &probes {
				let r = reader.get_tile_data(&coord_of(k)).await;
				v.push((*k, r.map(|o| o.map(|b| b.into_vec())).map_err(|e| e.to_string())));
			}
			v
		}))
	});
	match looked {
		Err(p) => out.push(f("lookup-panic", json!({"panic": p.describe(), "sig": p.signature("get_tile_data")}))),
		Ok(v) => {
			let mut n = BTreeMap::new();
			for (k, r) in v {
				st.lookups += 1;
				let cnt = |n: &mut BTreeMap<&str, usize>, kind: &'static str| {
					let c = n.entry(kind).or_insert(0);
					*c += 1;
					*c <= 3
				};
				match (r, expect.get(&k)) {
					(Ok(Some(b)), Some(e)) => {
						if &b != e && cnt(&mut n, "wrong") {
							out.push(f("lookup-wrong-bytes", json!({"tile": kstr(&k), "expected": short(e), "got": short(&b)})));
						}
					}
					(Ok(None), Some(e)) => {
						if cnt(&mut n, "missing") {
							out.push(f("lookup-missing", json!({"tile": kstr(&k), "expected": short(e)})));
						}
					}
					(Ok(Some(b)), None) => {
						if cnt(&mut n, "extra") {
							out.push(f("lookup-extra-tile", json!({"tile": kstr(&k), "got": short(&b)})));
						}
					}
					(Ok(None), None) => {}
					(Err(e), exp) => {
						if cnt(&mut n, "err") {
							out.push(f(if exp.is_some() { "lookup-error-stored" } else { "lookup-error-absent" }, json!({"tile": kstr(&k), "error": e})));
						}
					}
				}
			}
		}
	}

	// streams of the advertised level boxes
	if o.check_streams {
		let levels: Vec<TileBBox> = pyramid.iter_levels().cloned().collect();
		for lb in levels {
			if lb.count_tiles() > 80_000 {
				continue;
			}
			st.streams += 1;
			let fut = async { reader.get_bbox_tile_stream(lb.clone()).await.collect().await };
			let got = guard::catch(|| if o.multi_thread { guard::block_on_mt(4, fut) } else { guard::block_on(fut) });
			match got {
				Err(p) => out.push(f("stream-panic", json!({"bbox": format!("{lb:?}"), "panic": p.describe(), "sig": p.signature("get_bbox_tile_stream")}))),
				Ok(items) => {
					st.streamed_tiles += items.len() as u64;
					out.extend(compare_stream(&items, expect, &lb));
				}
			}
		}
	}
	(out, st)
}

/// stream content vs. expected mapping restricted to `bbox`
pub fn compare_stream(items: &[(TileCoord3, Blob)], expect: &BTreeMap<Key, Vec<u8>>, bbox: &TileBBox) -> Vec<Finding> {
	let mut out = vec![];
	let mut seen: BTreeSet<Key> = BTreeSet::new();
	let mut n_bad = 0;
	for (c, b) in items {
		let k = key_of(c);
		if !bbox.contains3(c) {
			n_bad += 1;
			if n_bad <= 3 {
				out.push(f("stream-outside-box", json!({"bbox": format!("{bbox:?}"), "tile": kstr(&k)})));
			}
			continue;
		}
		if !seen.insert(k) {
			n_bad += 1;
			if n_bad <= 3 {
				out.push(f("stream-duplicate", json!({"bbox": format!("{bbox:?}"), "tile": kstr(&k)})));
			}
			continue;
		}
		match expect.get(&k) {
			None => {
				n_bad += 1;
				if n_bad <= 3 {
					out.push(f("stream-extra-tile", json!({"bbox": format!("{bbox:?}"), "tile": kstr(&k), "got": short(b.as_slice())})));
				}
			}
			Some(e) => {
				if e.as_slice() != b.as_slice() {
					n_bad += 1;
					if n_bad <= 3 {
						out.push(f("stream-wrong-bytes", json!({"bbox": format!("{bbox:?}"), "tile": kstr(&k), "expected": short(e), "got": short(b.as_slice())})));
					}
				}
			}
		}
	}
	if !bbox.is_empty() {
		let z = bbox.level;
		let mut missing = 0;
		for (k, e) in expect.range((z, bbox.x_min, 0)..=(z, bbox.x_max, u32::MAX)) {
			if k.2 >= bbox.y_min && k.2 <= bbox.y_max && !seen.contains(k) {
				missing += 1;
				if missing <= 3 {
					out.push(f("stream-missing", json!({"bbox": format!("{bbox:?}"), "tile": kstr(k), "expected": short(e)})));
				}
			}
		}
	}
	out
}

/// compare an independently decoded container with the expected tile set
pub fn compare_decoded(d: &Decoded, ts: &TileSet, expect_format: bool) -> Vec<Finding> {
	let mut out = vec![];
	let mut n = 0;
	for (k, e) in &ts.tiles {
		match d.tiles.get(k) {
			None => {
				n += 1;
				if n <= 3 {
					out.push(f("decoder-missing", json!({"tile": kstr(k)})));
				}
			}
			Some(b) if b != e => {
				n += 1;
				if n <= 3 {
					out.push(f("decoder-wrong-bytes", json!({"tile": kstr(k), "expected": short(e), "got": short(b)})));
				}
			}
			_ => {}
		}
	}
	for k in d.tiles.keys() {
		if !ts.tiles.contains_key(k) {
			n += 1;
			if n <= 3 {
				out.push(f("decoder-extra-tile", json!({"tile": kstr(k)})));
			}
		}
	}
	if expect_format {
		let want = crate::codec::format_name(ts.format);
		if d.format.as_deref() != Some(want) {
			out.push(f("decoder-format", json!({"declared": d.format, "expected": want})));
		}
		if d.comp != Some(ts.comp) {
			out.push(f("decoder-compression", json!({"declared": d.comp.map(|c| c.name()), "expected": ts.comp.name()})));
		}
	}
	out
}

pub fn declared_params(reader: &dyn TilesReaderTrait, format: TileFormat, comp: Comp) -> Vec<Finding> {
	let p = reader.get_parameters();
	let mut out = vec![];
	if p.tile_format != format {
		out.push(f("declared-format", json!({"declared": format!("{:?}", p.tile_format), "expected": format!("{format:?}")})));
	}
	if p.tile_compression != comp.to_core() {
		out.push(f("declared-compression", json!({"declared": format!("{:?}", p.tile_compression), "expected": comp.name()})));
	}
	out
}
