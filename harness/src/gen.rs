//! Tile-set generator and the neutral in-memory source (`MemSource`).

use crate::comp::{self, Comp};
use crate::rng::{fnv, Rng};
use anyhow::Result;
use async_trait::async_trait;
use std::collections::{BTreeMap, BTreeSet};
use std::sync::{Arc, Mutex};
use versatiles_core::tilejson::TileJSON;
use versatiles_core::types::*;

/// (z, x, y)
pub type Key = (u8, u32, u32);

pub fn key_of(c: &TileCoord3) -> Key {
	(c.z, c.x, c.y)
}
pub fn coord_of(k: &Key) -> TileCoord3 {
	TileCoord3::new(k.1, k.2, k.0).unwrap()
}

#[derive(Clone, Debug)]
pub struct TileSet {
	pub format: TileFormat,
	pub comp: Comp,
	/// stored bytes (already compressed with `comp` if `really_compressed`)
	pub tiles: BTreeMap<Key, Vec<u8>>,
	pub tilejson: String,
	pub shape: String,
	pub really_compressed: bool,
}

impl TileSet {
	pub fn levels(&self) -> BTreeSet<u8> {
		self.tiles.keys().map(|k| k.0).collect()
	}
	/// exact bounding box of the stored tiles per level
	pub fn bounds(&self) -> BTreeMap<u8, (u32, u32, u32, u32)> {
		let mut m: BTreeMap<u8, (u32, u32, u32, u32)> = BTreeMap::new();
		for (z, x, y) in self.tiles.keys() {
			let e = m.entry(*z).or_insert((*x, *y, *x, *y));
			e.0 = e.0.min(*x);
			e.1 = e.1.min(*y);
			e.2 = e.2.max(*x);
			e.3 = e.3.max(*y);
		}
		m
	}
	pub fn pyramid(&self) -> TileBBoxPyramid {
		let mut p = TileBBoxPyramid::new_empty();
		for (z, b) in self.bounds() {
			p.set_level_bbox(TileBBox::new(z, b.0, b.1, b.2, b.3).unwrap());
		}
		p
	}
	pub fn fingerprint(&self) -> u64 {
		let mut h = fnv(self.shape.as_bytes()) ^ fnv(format!("{:?}{:?}", self.format, self.comp).as_bytes());
		for (k, v) in &self.tiles {
			h = h.rotate_left(5) ^ fnv(format!("{k:?}").as_bytes()) ^ fnv(v).rotate_left(13);
		}
		h
	}
	pub fn describe(&self) -> serde_json::Value {
		let b = self.bounds();
		serde_json::json!({
			"shape": self.shape,
			"format": format!("{:?}", self.format),
			"compression": self.comp.name(),
			"tiles": self.tiles.len(),
			"levels": b.iter().map(|(z, b)| format!("{z}:[{},{},{},{}]", b.0, b.1, b.2, b.3)).collect::<Vec<_>>(),
			"first_tiles": self.tiles.iter().take(4).map(|(k, v)| format!("{}/{}/{} {} bytes", k.0, k.1, k.2, v.len())).collect::<Vec<_>>(),
		})
	}
	/// properties used by the non-triviality rules
	pub fn crosses_block_grid(&self) -> bool {
		self.bounds().values().any(|b| b.0 / 256 != b.2 / 256 || b.1 / 256 != b.3 / 256)
	}
	pub fn fill_ratio(&self) -> f64 {
		let area: u64 = self.bounds().values().map(|b| (b.2 - b.0 + 1) as u64 * (b.3 - b.1 + 1) as u64).sum();
		if area == 0 {
			1.0
		} else {
			self.tiles.len() as f64 / area as f64
		}
	}
	pub fn has_zoom_gap(&self) -> bool {
		let l: Vec<u8> = self.levels().into_iter().collect();
		l.windows(2).any(|w| w[1] - w[0] > 1)
	}
	pub fn has_duplicates(&self) -> bool {
		let mut seen = std::collections::HashSet::new();
		self.tiles.values().any(|v| !seen.insert(fnv(v)))
	}
}

#[derive(Clone, Debug)]
pub struct GenOpts {
	pub max_tiles: usize,
	pub max_level: u8,
	pub formats: Vec<(TileFormat, Comp)>,
	/// compress payloads for real with the declared compression
	pub really_compress: bool,
	/// every payload embeds its coordinate (`T:z/x/y;`)
	pub unique_payloads: bool,
	pub allow_big: bool,
}

impl Default for GenOpts {
	fn default() -> Self {
		GenOpts { max_tiles: 1500, max_level: 31, formats: all_format_pairs(), really_compress: false, unique_payloads: false, allow_big: false }
	}
}

pub const FORMATS: [TileFormat; 10] = [
	TileFormat::AVIF,
	TileFormat::BIN,
	TileFormat::GEOJSON,
	TileFormat::JPG,
	TileFormat::JSON,
	TileFormat::PBF,
	TileFormat::PNG,
	TileFormat::SVG,
	TileFormat::TOPOJSON,
	TileFormat::WEBP,
];

pub fn all_format_pairs() -> Vec<(TileFormat, Comp)> {
	let mut v = vec![];
	for f in FORMATS {
		for c in comp::ALL {
			v.push((f, c));
		}
	}
	v
}

pub fn mbtiles_pairs() -> Vec<(TileFormat, Comp)> {
	vec![(TileFormat::JPG, Comp::None), (TileFormat::PNG, Comp::None), (TileFormat::WEBP, Comp::None), (TileFormat::PBF, Comp::Gzip)]
}

pub fn pmtiles_pairs() -> Vec<(TileFormat, Comp)> {
	let mut v = vec![];
	for f in [TileFormat::PBF, TileFormat::PNG, TileFormat::JPG, TileFormat::WEBP, TileFormat::AVIF] {
		for c in comp::ALL {
			v.push((f, c));
		}
	}
	v
}

const MAX_BOX_AREA: u64 = 60_000;

fn level_max(z: u8) -> u32 {
	((1u64 << z) - 1) as u32
}

/// anchor coordinate for a shape: biased towards block-grid and level borders
fn anchor(rng: &mut Rng, z: u8) -> u32 {
	let m = level_max(z) as u64;
	let v = match rng.below(8) {
		0 => 0,
		1 => m,
		2 => *rng.pick(&[250u64, 254, 255, 256, 505, 510, 511, 512]),
		3 => m / 2,
		4 => m.saturating_sub(rng.below(40)),
		_ => rng.range(0, m),
	};
	v.min(m) as u32
}

/// Coordinates of one level (not yet payloads). Shapes are built inside a box of moderate area
/// because every writer enumerates the advertised level box.
fn level_shape(rng: &mut Rng, z: u8, budget: usize, shape_name: &mut String) -> BTreeSet<(u32, u32)> {
	let m = level_max(z) as u64;
	let mut out = BTreeSet::new();
	let side_cap = ((m + 1).min(240)) as u64;
	let w = rng.range(1, side_cap).max(1);
	let h = rng.range(1, (MAX_BOX_AREA / w).min(side_cap).max(1)).max(1);
	let (ax, ay) = (anchor(rng, z) as u64, anchor(rng, z) as u64);
	// keep the box inside the level: shift left/up if needed
	let x0 = ax.min((m + 1).saturating_sub(w));
	let y0 = ay.min((m + 1).saturating_sub(h));
	let w = w.min(m + 1 - x0);
	let h = h.min(m + 1 - y0);
	let put = |out: &mut BTreeSet<(u32, u32)>, dx: u64, dy: u64| {
		out.insert(((x0 + dx.min(w - 1)) as u32, (y0 + dy.min(h - 1)) as u32));
	};
	let kind = rng.below(9);
	let name;
	match kind {
		0 => {
			name = "single";
			put(&mut out, 0, 0);
		}
		1 => {
			name = "dense";
			let (w2, h2) = (w.min(40), h.min(40));
			'o: for dy in 0..h2 {
				for dx in 0..w2 {
					if out.len() >= budget {
						break 'o;
					}
					put(&mut out, dx, dy);
				}
			}
		}
		2 => {
			name = "sparse";
			let n = (budget as u64).min(w * h).min(rng.range(2, 400));
			for _ in 0..n {
				put(&mut out, rng.below(w), rng.below(h));
			}
		}
		3 => {
			name = "diagonal";
			let n = w.min(h).min(budget as u64);
			for i in 0..n {
				put(&mut out, i * (w - 1).max(1) / n.max(1), i * (h - 1).max(1) / n.max(1));
			}
			put(&mut out, w - 1, h - 1);
		}
		4 => {
			// extreme rows are NOT in the extreme / middle columns
			name = "offcenter-extremes";
			let q = |f: f64, n: u64| ((n - 1) as f64 * f) as u64;
			put(&mut out, 0, q(0.5, h));
			put(&mut out, w - 1, q(0.4, h));
			put(&mut out, q(0.5, w), q(0.6, h));
			put(&mut out, q(0.23, w), 0);
			put(&mut out, q(0.77, w), h - 1);
			for _ in 0..rng.below(20) {
				put(&mut out, rng.range(1, w.saturating_sub(2).max(1)), rng.range(1, h.saturating_sub(2).max(1)));
			}
		}
		5 => {
			name = "ring";
			for dx in 0..w.min(budget as u64 / 4 + 1) {
				put(&mut out, dx, 0);
				put(&mut out, dx, h - 1);
			}
			for dy in 0..h.min(budget as u64 / 4 + 1) {
				put(&mut out, 0, dy);
				put(&mut out, w - 1, dy);
			}
		}
		6 => {
			name = "L";
			for dx in 0..w.min(budget as u64 / 2 + 1) {
				put(&mut out, dx, h - 1);
			}
			for dy in 0..h.min(budget as u64 / 2 + 1) {
				put(&mut out, 0, dy);
			}
		}
		7 => {
			// cluster on both sides of the 256 grid, where the level is large enough
			name = "grid-cluster";
			if m >= 257 {
				let gx = 256 * rng.range(1, (m / 256).min(3));
				let gy = 256 * rng.range(1, (m / 256).min(3));
				for dx in [-2i64, -1, 0, 1] {
					for dy in [-2i64, -1, 0, 1] {
						if rng.chance(0.8) {
							out.insert(((gx as i64 + dx) as u32, (gy as i64 + dy) as u32));
						}
					}
				}
			} else {
				put(&mut out, 0, 0);
				put(&mut out, w - 1, h - 1);
			}
		}
		_ => {
			name = "corners";
			put(&mut out, 0, 0);
			put(&mut out, w - 1, 0);
			put(&mut out, 0, h - 1);
			put(&mut out, w - 1, h - 1);
		}
	}
	if out.is_empty() {
		put(&mut out, 0, 0);
	}
	shape_name.push_str(&format!("z{z}:{name} "));
	out
}

pub fn payload_unique(z: u8, x: u32, y: u32, size_hint: usize, rng: &mut Rng) -> Vec<u8> {
	let mut v = format!("T:{z}/{x}/{y};").into_bytes();
	while v.len() < size_hint {
		let chunk = if rng.chance(0.5) { b"abcdefghij".to_vec() } else { rng.bytes(10) };
		v.extend_from_slice(&chunk);
	}
	v
}

fn size_class(rng: &mut Rng) -> usize {
	*rng.pick(&[1usize, 2, 12, 40, 200, 999, 1000, 1001, 4096, 70_000, 15, 15, 15, 60, 60, 300])
}

pub fn gen_tileset(rng: &mut Rng, opts: &GenOpts) -> TileSet {
	let (format, comp) = *rng.pick(&opts.formats);
	let mut shape = String::new();
	let level_choices: Vec<u8> = [0u8, 1, 2, 3, 5, 7, 8, 9, 10, 12, 14, 16, 20, 24, 30, 31].into_iter().filter(|z| *z <= opts.max_level).collect();
	let nlevels = match rng.below(6) {
		0 => 1,
		1 | 2 => 2,
		3 | 4 => 3,
		_ => 4,
	};
	let mut levels = BTreeSet::new();
	if rng.chance(0.4) {
		// contiguous run
		let start = rng.below(level_choices.len() as u64) as usize;
		for i in 0..nlevels {
			if let Some(z) = level_choices.get(start + i) {
				levels.insert(*z);
			}
		}
		let z0 = *levels.iter().next().unwrap();
		levels = (0..nlevels as u8).map(|i| (z0 + i).min(opts.max_level)).collect();
	} else {
		for _ in 0..nlevels {
			levels.insert(*rng.pick(&level_choices));
		}
	}
	let mut coords: Vec<Key> = vec![];
	let per_level = (opts.max_tiles / levels.len()).max(1);
	for z in &levels {
		for (x, y) in level_shape(rng, *z, per_level, &mut shape) {
			coords.push((*z, x, y));
		}
	}
	// payloads
	let dup_pool: Vec<Vec<u8>> = [10usize, 999, 1000, 1001, 5000].iter().map(|n| rng.bytes(*n)).collect();
	let dup_mode = rng.below(4); // 0 none, 1 some, 2 many, 3 all-same
	let big_budget = std::cell::Cell::new(if opts.allow_big { 3 } else { 1 });
	let mut tiles = BTreeMap::new();
	let mut last_raw: Vec<u8> = vec![];
	for (z, x, y) in coords {
		let raw: Vec<u8> = if !opts.unique_payloads && !opts.really_compress && last_raw.len() >= 8 && rng.chance(0.05) {
			// a payload that is a proper slice of the previous tile's payload (a space-saving encoder may store it
			// as a byte range inside the other blob)
			let a = rng.usize_below(last_raw.len() / 2);
			let b = a + 1 + rng.usize_below(last_raw.len() - a - 1);
			last_raw[a..b].to_vec()
		} else if !opts.really_compress && !opts.unique_payloads && rng.chance(0.06) {
			// fixed-size tiles that share their first rows and differ only behind them (raw raster / elevation
			// tiles): the same length, the same first kilobyte, another tile
			let mut v = dup_pool[4][..1500].to_vec();
			v.extend_from_slice(format!("{z:02}/{x:010}/{y:010}").as_bytes());
			v
		} else if !opts.unique_payloads && (dup_mode == 3 || (dup_mode == 2 && rng.chance(0.6)) || (dup_mode == 1 && rng.chance(0.15))) {
			if dup_mode == 3 {
				dup_pool[1].clone()
			} else {
				rng.pick(&dup_pool).clone()
			}
		} else {
			let mut sz = size_class(rng);
			if sz >= 70_000 {
				if big_budget.get() == 0 {
					sz = 300;
				} else {
					big_budget.set(big_budget.get() - 1);
				}
			}
			if opts.unique_payloads {
				payload_unique(z, x, y, sz, rng)
			} else {
				match rng.below(5) {
					0 => vec![0u8; sz],
					1 => payload_unique(z, x, y, sz, rng),
					2 => b"compressible ".iter().cycle().take(sz).cloned().collect(),
					_ => rng.bytes(sz),
				}
			}
		};
		last_raw = raw.clone();
		let stored = if opts.really_compress && comp == Comp::Gzip && raw.len() >= 2 && rng.chance(0.04) {
			// the tile as a gzip file of two members
			comp::gzip_two_members(&raw, 1 + rng.usize_below(raw.len() - 1))
		} else if opts.really_compress {
			comp::compress(&raw, comp)
		} else {
			raw
		};
		tiles.insert((z, x, y), stored);
	}
	let tilejson = gen_tilejson(rng, format);
	TileSet { format, comp, tiles, tilejson, shape: shape.trim().to_string(), really_compressed: opts.really_compress }
}

/// a small TileJSON document the model can express
pub fn gen_tilejson(rng: &mut Rng, format: TileFormat) -> String {
	let mut parts = vec![format!("\"tilejson\":\"3.0.0\"")];
	if rng.chance(0.7) {
		parts.push(format!("\"name\":\"set {}\"", rng.below(1000)));
	}
	if rng.chance(0.5) {
		parts.push("\"attribution\":\"(c) harness <a href=\\\"x\\\">y</a>\"".to_string());
	}
	if rng.chance(0.4) {
		parts.push("\"description\":\"line1\\nline2 \\u00e4\\u20ac\"".to_string());
	}
	if rng.chance(0.25) {
		// free-form string fields whose names collide with what containers keep in their own metadata
		// (MBTiles `format` / `type` / `json` rows, PMTiles header fields): they are data, not declarations
		for (k, vals) in [("format", &["png", "jpeg", "pbf", "webp", "bin"][..]), ("type", &["overlay", "baselayer"][..]), ("compression", &["gzip", "none"][..]), ("json", &["x"][..]), ("scheme", &["xyz", "tms"][..])] {
			if rng.chance(0.5) {
				parts.push(format!("\"{k}\":\"{}\"", rng.pick(vals)));
			}
		}
	}
	if format == TileFormat::PBF || rng.chance(0.2) {
		if rng.chance(0.5) {
			parts.push("\"vector_layers\":[{\"id\":\"roads\",\"fields\":{\"kind\":\"String\",\"lanes\":\"Number\"},\"minzoom\":0,\"maxzoom\":14},{\"id\":\"water\",\"fields\":{}}]".to_string());
		} else {
			// field names as real schemas have them (name_en, admin_level, name:de), zoom ranges that differ from set to set
			let (lo, hi) = (rng.below(6), 6 + rng.below(19));
			let extra = *rng.pick(&["\"name_en\":\"String\",", "\"admin_level\":\"Number\",\"name:de\":\"String\",", "\"is-tunnel\":\"Boolean\",", ""]);
			parts.push(format!("\"vector_layers\":[{{\"id\":\"roads\",\"fields\":{{{extra}\"kind\":\"String\"}},\"minzoom\":{lo},\"maxzoom\":{hi}}},{{\"id\":\"water_polygons\",\"fields\":{{\"way_area\":\"Number\"}}}}]"));
		}
	}
	format!("{{{}}}", parts.join(","))
}

// ---------------------------------------------------------------------------------------------

#[derive(Clone, Debug)]
pub enum Req {
	Tile(Key),
	Stream(String),
}

/// Neutral in-memory tile source.
pub struct MemSource {
	pub params: TilesReaderParameters,
	pub tilejson: TileJSON,
	pub tiles: Arc<BTreeMap<Key, Blob>>,
	pub name: String,
	pub log: Option<Arc<Mutex<Vec<Req>>>>,
	/// use the trait's default stream implementation (lookup per coordinate) instead of the map walk
	pub default_stream: bool,
	/// > 0: lookups and streams go Pending (yield to the scheduler) like a reader doing real I/O
	pub yields: u32,
	/// single-tile lookups at these coordinates fail
	pub failing: Option<Arc<std::collections::BTreeSet<Key>>>,
}

impl std::fmt::Debug for MemSource {
	fn fmt(&self, f: &mut std::fmt::Formatter<'_>) -> std::fmt::Result {
		write!(f, "MemSource({}, {} tiles)", self.name, self.tiles.len())
	}
}

impl MemSource {
	pub fn new(ts: &TileSet) -> MemSource {
		MemSource::with_pyramid(ts, ts.pyramid())
	}
	pub fn with_pyramid(ts: &TileSet, pyramid: TileBBoxPyramid) -> MemSource {
		let tiles: BTreeMap<Key, Blob> = ts.tiles.iter().map(|(k, v)| (*k, Blob::from(v.clone()))).collect();
		let tilejson = TileJSON::try_from(ts.tilejson.as_str()).unwrap_or_default();
		MemSource {
			params: TilesReaderParameters::new(ts.format, ts.comp.to_core(), pyramid),
			tilejson,
			tiles: Arc::new(tiles),
			name: format!("mem:{}", ts.shape),
			log: None,
			default_stream: false,
			yields: 0,
			failing: None,
		}
	}
	pub fn recording(mut self) -> (MemSource, Arc<Mutex<Vec<Req>>>) {
		let log = Arc::new(Mutex::new(vec![]));
		self.log = Some(log.clone());
		(self, log)
	}
	pub fn boxed(self) -> Box<dyn TilesReaderTrait> {
		Box::new(self)
	}
	pub fn tiles_in(&self, bbox: &TileBBox) -> Vec<(TileCoord3, Blob)> {
		if bbox.is_empty() {
			return vec![];
		}
		let z = bbox.level;
		let mut v: Vec<(TileCoord3, Blob)> = self
			.tiles
			.range((z, bbox.x_min, 0)..=(z, bbox.x_max, u32::MAX))
			.filter(|(k, _)| k.2 >= bbox.y_min && k.2 <= bbox.y_max)
			.map(|(k, b)| (coord_of(k), b.clone()))
			.collect();
		v.sort_by_key(|(c, _)| (c.y, c.x));
		v
	}
}

#[async_trait]
impl TilesReaderTrait for MemSource {
	fn get_source_name(&self) -> &str {
		&self.name
	}
	fn get_container_name(&self) -> &str {
		"mem"
	}
	fn get_parameters(&self) -> &TilesReaderParameters {
		&self.params
	}
	fn override_compression(&mut self, tile_compression: TileCompression) {
		self.params.tile_compression = tile_compression;
	}
	fn get_tilejson(&self) -> &TileJSON {
		&self.tilejson
	}
	async fn get_tile_data(&self, coord: &TileCoord3) -> Result<Option<Blob>> {
		if let Some(l) = &self.log {
			l.lock().unwrap().push(Req::Tile(key_of(coord)));
		}
		for _ in 0..self.yields {
			tokio::task::yield_now().await;
		}
		if self.failing.as_ref().is_some_and(|f| f.contains(&key_of(coord))) {
			anyhow::bail!("{}: this tile cannot be read (injected read error)", self.name);
		}
		Ok(self.tiles.get(&key_of(coord)).cloned())
	}
	async fn get_bbox_tile_stream(&self, bbox: TileBBox) -> TileStream {
		if let Some(l) = &self.log {
			l.lock().unwrap().push(Req::Stream(format!("{bbox:?}")));
		}
		if self.default_stream {
			let coords: Vec<TileCoord3> = bbox.iter_coords().collect();
			let tiles = self.tiles.clone();
			return TileStream::from_coord_vec_async(coords, move |c| {
				let t = tiles.get(&key_of(&c)).cloned();
				async move { t.map(|b| (c, b)) }
			});
		}
		if self.yields > 0 {
			use futures::StreamExt;
			let n = self.yields;
			let s = futures::stream::iter(self.tiles_in(&bbox)).then(move |it| async move {
				for _ in 0..n {
					tokio::task::yield_now().await;
				}
				it
			});
			return TileStream::from_stream(Box::pin(s));
		}
		TileStream::from_vec(self.tiles_in(&bbox))
	}
}
