//! vtv — runtime monitors for the versatiles-rs properties C01…C20 (see /verif/DESIGN.md).
pub mod alloc;
pub mod check;
pub mod codec;
pub mod comp;
pub mod gen;
pub mod guard;
pub mod http;
pub mod jsonref;
pub mod model;
pub mod mon;
pub mod mvtsrc;
pub mod pipe;
pub mod report;
pub mod rng;
pub mod server;
pub mod shard;
pub mod sources;
