//! Strict RFC 8259 parser of the harness (numbers through the correctly rounding `f64::from_str`).
//! Used as the "standard parser" next to serde_json, which is built without `float_roundtrip`.

use serde_json::{Map, Number, Value};

pub fn parse(text: &str) -> Result<Value, String> {
	let b = text.as_bytes();
	let mut p = 0usize;
	let v = value(b, &mut p, 0)?;
	ws(b, &mut p);
	if p != b.len() {
		return Err(format!("trailing characters at {p}"));
	}
	Ok(v)
}

fn ws(b: &[u8], p: &mut usize) {
	while *p < b.len() && matches!(b[*p], b' ' | b'\t' | b'\n' | b'\r') {
		*p += 1;
	}
}

fn value(b: &[u8], p: &mut usize, depth: usize) -> Result<Value, String> {
	if depth > 512 {
		return Err("too deep".into());
	}
	ws(b, p);
	match b.get(*p) {
		None => Err("unexpected end".into()),
		Some(b'{') => {
			*p += 1;
			let mut m = Map::new();
			ws(b, p);
			if b.get(*p) == Some(&b'}') {
				*p += 1;
				return Ok(Value::Object(m));
			}
			loop {
				ws(b, p);
				let k = string(b, p)?;
				ws(b, p);
				if b.get(*p) != Some(&b':') {
					return Err(format!("expected ':' at {p}"));
				}
				*p += 1;
				let v = value(b, p, depth + 1)?;
				if m.insert(k, v).is_some() {
					return Err("duplicate key".into());
				}
				ws(b, p);
				match b.get(*p) {
					Some(b',') => *p += 1,
					Some(b'}') => {
						*p += 1;
						return Ok(Value::Object(m));
					}
					_ => return Err(format!("expected ',' or '}}' at {p}")),
				}
			}
		}
		Some(b'[') => {
			*p += 1;
			let mut a = vec![];
			ws(b, p);
			if b.get(*p) == Some(&b']') {
				*p += 1;
				return Ok(Value::Array(a));
			}
			loop {
				a.push(value(b, p, depth + 1)?);
				ws(b, p);
				match b.get(*p) {
					Some(b',') => *p += 1,
					Some(b']') => {
						*p += 1;
						return Ok(Value::Array(a));
					}
					_ => return Err(format!("expected ',' or ']' at {p}")),
				}
			}
		}
		Some(b'"') => Ok(Value::String(string(b, p)?)),
		Some(b't') => lit(b, p, "true", Value::Bool(true)),
		Some(b'f') => lit(b, p, "false", Value::Bool(false)),
		Some(b'n') => lit(b, p, "null", Value::Null),
		Some(c) if *c == b'-' || c.is_ascii_digit() => number(b, p),
		Some(c) => Err(format!("unexpected byte {c:#x} at {p}")),
	}
}

fn lit(b: &[u8], p: &mut usize, word: &str, v: Value) -> Result<Value, String> {
	if b[*p..].starts_with(word.as_bytes()) {
		*p += word.len();
		Ok(v)
	} else {
		Err(format!("bad literal at {p}"))
	}
}

fn number(b: &[u8], p: &mut usize) -> Result<Value, String> {
	let start = *p;
	if b.get(*p) == Some(&b'-') {
		*p += 1;
	}
	match b.get(*p) {
		Some(b'0') => *p += 1,
		Some(c) if c.is_ascii_digit() => {
			while b.get(*p).map(|c| c.is_ascii_digit()).unwrap_or(false) {
				*p += 1;
			}
		}
		_ => return Err(format!("bad number at {start}")),
	}
	if b.get(*p) == Some(&b'.') {
		*p += 1;
		if !b.get(*p).map(|c| c.is_ascii_digit()).unwrap_or(false) {
			return Err(format!("bad fraction at {start}"));
		}
		while b.get(*p).map(|c| c.is_ascii_digit()).unwrap_or(false) {
			*p += 1;
		}
	}
	if matches!(b.get(*p), Some(b'e') | Some(b'E')) {
		*p += 1;
		if matches!(b.get(*p), Some(b'+') | Some(b'-')) {
			*p += 1;
		}
		if !b.get(*p).map(|c| c.is_ascii_digit()).unwrap_or(false) {
			return Err(format!("bad exponent at {start}"));
		}
		while b.get(*p).map(|c| c.is_ascii_digit()).unwrap_or(false) {
			*p += 1;
		}
	}
	let s = std::str::from_utf8(&b[start..*p]).map_err(|e| e.to_string())?;
	let f: f64 = s.parse().map_err(|_| format!("unparsable number {s}"))?;
	if !f.is_finite() {
		return Err(format!("number out of range: {s}"));
	}
	Ok(Value::Number(Number::from_f64(f).unwrap()))
}

fn string(b: &[u8], p: &mut usize) -> Result<String, String> {
	if b.get(*p) != Some(&b'"') {
		return Err(format!("expected string at {p}"));
	}
	*p += 1;
	let mut out: Vec<u16> = vec![];
	let mut raw = String::new();
	loop {
		match b.get(*p) {
			None => return Err("unterminated string".into()),
			Some(b'"') => {
				*p += 1;
				flush(&mut out, &mut raw)?;
				return Ok(raw);
			}
			Some(b'\\') => {
				*p += 1;
				let c = *b.get(*p).ok_or("unterminated escape")?;
				*p += 1;
				let ch = match c {
					b'"' => '"',
					b'\\' => '\\',
					b'/' => '/',
					b'b' => '\u{8}',
					b'f' => '\u{c}',
					b'n' => '\n',
					b'r' => '\r',
					b't' => '\t',
					b'u' => {
						let h = b.get(*p..*p + 4).ok_or("short \\u escape")?;
						let hs = std::str::from_utf8(h).map_err(|e| e.to_string())?;
						if !hs.bytes().all(|c| c.is_ascii_hexdigit()) {
							return Err("bad \\u escape".into());
						}
						out.push(u16::from_str_radix(hs, 16).map_err(|e| e.to_string())?);
						*p += 4;
						continue;
					}
					_ => return Err(format!("bad escape \\{}", c as char)),
				};
				flush(&mut out, &mut raw)?;
				raw.push(ch);
			}
			Some(c) if *c < 0x20 => return Err(format!("raw control character {c:#x} in string")),
			Some(_) => {
				flush(&mut out, &mut raw)?;
				// copy one UTF-8 scalar
				let rest = std::str::from_utf8(&b[*p..]).map_err(|e| e.to_string())?;
				let ch = rest.chars().next().unwrap();
				raw.push(ch);
				*p += ch.len_utf8();
			}
		}
	}
}

fn flush(units: &mut Vec<u16>, raw: &mut String) -> Result<(), String> {
	if !units.is_empty() {
		raw.push_str(&String::from_utf16(units).map_err(|_| "lone surrogate in \\u escapes".to_string())?);
		units.clear();
	}
	Ok(())
}
