//! Evidence / verdict bookkeeping shared by all monitors.
//!
//! A `Report` is filled by the monitor while it runs (in the shard children), serialised,
//! merged by the parent, and finally turned into `/verif/evidence/<id>.json`, replay files and
//! the `VIOLATION` / `KNOWN-FINDING` lines of the interface.

use serde_json::{json, Map, Value};
use std::collections::{BTreeMap, BTreeSet, HashSet};
use std::path::{Path, PathBuf};

#[derive(Clone, Copy, Debug, PartialEq, Eq)]
pub enum Tier {
	Quick,
	Thorough,
	/// very small workloads for the interpreter flavour (Miri); never written as evidence tier
	Tiny,
}

impl Tier {
	pub fn as_str(&self) -> &'static str {
		match self {
			Tier::Quick => "quick",
			Tier::Thorough => "thorough",
			Tier::Tiny => "quick",
		}
	}
	pub fn parse(s: &str) -> Tier {
		if s == "thorough" {
			Tier::Thorough
		} else if s == "tiny" {
			Tier::Tiny
		} else {
			Tier::Quick
		}
	}
	/// pick a budget by tier
	pub fn pick<T>(&self, quick: T, thorough: T) -> T {
		match self {
			Tier::Quick | Tier::Tiny => quick,
			Tier::Thorough => thorough,
		}
	}
	pub fn is_tiny(&self) -> bool {
		*self == Tier::Tiny
	}
}

pub fn verif_dir() -> PathBuf {
	std::env::var("VERIF_DIR").map(PathBuf::from).unwrap_or_else(|_| PathBuf::from("/verif"))
}

pub fn work_dir(property: &str) -> PathBuf {
	let p = verif_dir().join("work").join(property);
	let _ = std::fs::create_dir_all(&p);
	p
}

const MAX_SAMPLES: usize = 8;
const MAX_WITNESSES: usize = 3;

#[derive(Clone, Debug, Default)]
pub struct ViolationGroup {
	pub count: u64,
	pub what: String,
	pub witnesses: Vec<Value>,
}

#[derive(Clone, Debug, Default)]
pub struct Report {
	pub evaluations: u64,
	pub fingerprints: HashSet<u64>,
	pub samples: Vec<Value>,
	pub counters: BTreeMap<String, u64>,
	pub maxima: BTreeMap<String, u64>,
	pub labels: BTreeMap<String, BTreeSet<String>>,
	pub violations: BTreeMap<String, ViolationGroup>,
	pub inconclusive: Vec<String>,
	pub notes: BTreeSet<String>,
	/// set by the shard runner around each case so witnesses name the case
	pub current_case: u64,
}

impl Report {
	pub fn new() -> Report {
		Report::default()
	}
	/// one more execution / input evaluated
	pub fn eval(&mut self) {
		self.evaluations += 1;
	}
	pub fn evals(&mut self, n: u64) {
		self.evaluations += n;
	}
	/// register a case that is non-trivial by the monitor's rule; `fp` is its fingerprint
	pub fn nontrivial(&mut self, fp: u64) {
		self.fingerprints.insert(fp);
	}
	pub fn sample(&mut self, v: Value) {
		if self.samples.len() < MAX_SAMPLES {
			self.samples.push(v);
		}
	}
	pub fn wants_sample(&self) -> bool {
		self.samples.len() < MAX_SAMPLES
	}
	pub fn count(&mut self, key: &str, n: u64) {
		*self.counters.entry(key.to_string()).or_insert(0) += n;
	}
	pub fn max(&mut self, key: &str, v: u64) {
		let e = self.maxima.entry(key.to_string()).or_insert(0);
		if v > *e {
			*e = v;
		}
	}
	pub fn label(&mut self, key: &str, s: &str) {
		let set = self.labels.entry(key.to_string()).or_default();
		if set.len() < 200 {
			set.insert(s.to_string());
		}
	}
	pub fn note(&mut self, s: &str) {
		self.notes.insert(s.to_string());
	}
	pub fn counter(&self, key: &str) -> u64 {
		self.counters.get(key).copied().unwrap_or(0)
	}
	pub fn maximum(&self, key: &str) -> u64 {
		self.maxima.get(key).copied().unwrap_or(0)
	}
	/// the oracle rejected an observed execution
	pub fn violation(&mut self, signature: &str, what: &str, mut witness: Value) {
		if signature.starts_with("harness-panic|") {
			self.inconclusive(&format!("harness panic in case {} ({signature})", self.current_case));
			return;
		}
		let g = self.violations.entry(signature.to_string()).or_default();
		g.count += 1;
		if g.what.is_empty() {
			g.what = what.to_string();
		}
		if g.witnesses.len() < MAX_WITNESSES {
			if let Value::Object(m) = &mut witness {
				m.insert("case".into(), json!(self.current_case));
			}
			g.witnesses.push(witness);
		}
	}
	pub fn inconclusive(&mut self, why: &str) {
		if self.inconclusive.len() < 50 && !self.inconclusive.iter().any(|w| w == why) {
			self.inconclusive.push(why.to_string());
		}
	}

	pub fn merge(&mut self, o: Report) {
		self.evaluations += o.evaluations;
		self.fingerprints.extend(o.fingerprints);
		for s in o.samples {
			self.sample(s);
		}
		for (k, v) in o.counters {
			*self.counters.entry(k).or_insert(0) += v;
		}
		for (k, v) in o.maxima {
			self.max(&k, v);
		}
		for (k, v) in o.labels {
			let set = self.labels.entry(k).or_default();
			for s in v {
				if set.len() < 200 {
					set.insert(s);
				}
			}
		}
		for (k, g) in o.violations {
			let e = self.violations.entry(k).or_default();
			e.count += g.count;
			if e.what.is_empty() {
				e.what = g.what;
			}
			for w in g.witnesses {
				if e.witnesses.len() < MAX_WITNESSES {
					e.witnesses.push(w);
				}
			}
		}
		for s in o.inconclusive {
			self.inconclusive(&s);
		}
		self.notes.extend(o.notes);
	}

	pub fn to_json(&self) -> Value {
		json!({
			"evaluations": self.evaluations,
			"fingerprints": self.fingerprints.iter().map(|f| format!("{f:x}")).collect::<Vec<_>>(),
			"samples": self.samples,
			"counters": self.counters,
			"maxima": self.maxima,
			"labels": self.labels,
			"violations": self.violations.iter().map(|(k,g)| json!({"signature":k,"count":g.count,"what":g.what,"witnesses":g.witnesses})).collect::<Vec<_>>(),
			"inconclusive": self.inconclusive,
			"notes": self.notes,
		})
	}

	pub fn from_json(v: &Value) -> Report {
		let mut r = Report::new();
		r.evaluations = v["evaluations"].as_u64().unwrap_or(0);
		if let Some(a) = v["fingerprints"].as_array() {
			for f in a {
				if let Some(s) = f.as_str() {
					if let Ok(x) = u64::from_str_radix(s, 16) {
						r.fingerprints.insert(x);
					}
				}
			}
		}
		if let Some(a) = v["samples"].as_array() {
			r.samples = a.clone();
		}
		if let Some(m) = v["counters"].as_object() {
			for (k, x) in m {
				r.counters.insert(k.clone(), x.as_u64().unwrap_or(0));
			}
		}
		if let Some(m) = v["maxima"].as_object() {
			for (k, x) in m {
				r.maxima.insert(k.clone(), x.as_u64().unwrap_or(0));
			}
		}
		if let Some(m) = v["labels"].as_object() {
			for (k, x) in m {
				let set: BTreeSet<String> = x
					.as_array()
					.map(|a| a.iter().filter_map(|s| s.as_str().map(String::from)).collect())
					.unwrap_or_default();
				r.labels.insert(k.clone(), set);
			}
		}
		if let Some(a) = v["violations"].as_array() {
			for g in a {
				r.violations.insert(
					g["signature"].as_str().unwrap_or("?").to_string(),
					ViolationGroup {
						count: g["count"].as_u64().unwrap_or(1),
						what: g["what"].as_str().unwrap_or("").to_string(),
						witnesses: g["witnesses"].as_array().cloned().unwrap_or_default(),
					},
				);
			}
		}
		if let Some(a) = v["inconclusive"].as_array() {
			r.inconclusive = a.iter().filter_map(|s| s.as_str().map(String::from)).collect();
		}
		if let Some(a) = v["notes"].as_array() {
			r.notes = a.iter().filter_map(|s| s.as_str().map(String::from)).collect();
		}
		r
	}
}

/// Static description of a check, supplied by the monitor.
#[derive(Clone, Debug)]
pub struct Plan {
	pub cases: u64,
	pub shards: usize,
	/// seconds after which a single case is killed (inconclusive / counted, never a violation by itself)
	pub case_timeout_s: u64,
	pub level: &'static str,
	pub rule: String,
	pub assumptions: Vec<String>,
	pub min_evaluations: u64,
	pub exhaustive: bool,
	/// treat a killed (timed-out) case as "counted and excluded" instead of inconclusive
	pub timeouts_excluded: bool,
}

impl Default for Plan {
	fn default() -> Self {
		Plan {
			cases: 1,
			shards: 1,
			case_timeout_s: 300,
			level: "exploration",
			rule: String::new(),
			assumptions: vec![],
			min_evaluations: 1,
			exhaustive: false,
			timeouts_excluded: false,
		}
	}
}

#[derive(Clone, Debug)]
pub struct KnownFinding {
	pub property: String,
	pub signature: String,
	pub what: String,
	pub open: bool,
}

pub fn load_known_findings() -> Vec<KnownFinding> {
	let path = verif_dir().join("known_findings.json");
	let mut out = vec![];
	if let Ok(text) = std::fs::read_to_string(&path) {
		if let Ok(v) = serde_json::from_str::<Value>(&text) {
			if let Some(a) = v["findings"].as_array() {
				for f in a {
					out.push(KnownFinding {
						property: f["property"].as_str().unwrap_or("").to_string(),
						signature: f["signature"].as_str().unwrap_or("").to_string(),
						what: f["what"].as_str().unwrap_or("").to_string(),
						open: f["status"].as_str().unwrap_or("open") == "open",
					});
				}
			}
		}
	}
	out
}

pub struct Outcome {
	pub exit_code: i32,
}

/// Turn a merged report into evidence + verdict lines. Returns the process exit code
/// (0 held, 1 violated, 2 inconclusive).
pub fn conclude(property: &str, tier: Tier, seed: u64, plan: &Plan, rep: &Report, wall_s: f64, extra: Option<Value>) -> Outcome {
	let known = load_known_findings();
	let replay_dir = verif_dir().join("replay").join(property);
	let _ = std::fs::create_dir_all(&replay_dir);

	let mut unknown = 0u64;
	let mut known_hits: Vec<Value> = vec![];
	let mut lines: Vec<String> = vec![];
	for (idx, (sig, g)) in rep.violations.iter().enumerate() {
		if let Some(k) = known.iter().find(|k| k.open && k.property == property && &k.signature == sig) {
			lines.push(format!(
				"KNOWN-FINDING: property={property} signature={sig} count={} {}",
				g.count, k.what
			));
			known_hits.push(json!({"signature": sig, "count": g.count}));
		} else {
			unknown += 1;
			let file = replay_dir.join(format!("{}_{}_{}_{:02}.json", tier.as_str(), seed, crate::rng::fnv(sig.as_bytes()) % 100000, idx));
			let body = json!({
				"property": property, "tier": tier.as_str(), "seed": seed,
				"signature": sig, "what": g.what, "count": g.count, "witnesses": g.witnesses,
				"replay_hint": format!("./check {property} --replay {}", file.display()),
			});
			let _ = std::fs::write(&file, serde_json::to_string_pretty(&body).unwrap());
			if unknown <= 25 {
				lines.push(format!("VIOLATION property={property} replay={}", file.display()));
				lines.push(format!("  signature={sig} count={} what={}", g.count, g.what));
			}
		}
	}

	let distinct = rep.fingerprints.len() as u64;
	let mut inconclusive: Vec<String> = rep.inconclusive.clone();
	if rep.evaluations < plan.min_evaluations {
		inconclusive.push(format!("only {} evaluations (floor {})", rep.evaluations, plan.min_evaluations));
	}
	if distinct < 2 {
		inconclusive.push(format!("only {distinct} distinct non-trivial cases"));
	}

	let verdict = if unknown > 0 {
		"violated"
	} else if !inconclusive.is_empty() {
		"inconclusive"
	} else {
		"held"
	};

	let mut coverage = Map::new();
	coverage.insert("evaluations".into(), json!(rep.evaluations.max(0)));
	coverage.insert("distinct_nontrivial".into(), json!(distinct));
	coverage.insert("rule".into(), json!(plan.rule));
	let samples: Vec<Value> = if rep.samples.is_empty() { vec![json!("(no sample recorded)")] } else { rep.samples.clone() };
	coverage.insert("samples".into(), json!(samples));
	coverage.insert("exhaustive".into(), json!(plan.exhaustive));
	coverage.insert("cases_planned".into(), json!(plan.cases));
	for (k, v) in &rep.counters {
		coverage.insert(k.clone(), json!(v));
	}
	for (k, v) in &rep.maxima {
		coverage.insert(format!("max_{k}"), json!(v));
	}
	for (k, v) in &rep.labels {
		coverage.insert(format!("seen_{k}"), json!(v));
	}
	if !rep.notes.is_empty() {
		coverage.insert("notes".into(), json!(rep.notes));
	}
	coverage.insert("verdict".into(), json!(verdict));
	if !inconclusive.is_empty() {
		coverage.insert("inconclusive_reasons".into(), json!(inconclusive));
	}
	coverage.insert("known_findings_observed".into(), json!(known_hits));
	coverage.insert(
		"violation_signatures".into(),
		json!(rep.violations.iter().map(|(k, g)| json!({"signature":k,"count":g.count})).collect::<Vec<_>>()),
	);
	if let Some(Value::Object(m)) = extra {
		for (k, v) in m {
			coverage.insert(k, v);
		}
	}

	let evidence = json!({
		"property_id": property,
		"tier": tier.as_str(),
		"seed": seed,
		"level": plan.level,
		"coverage": Value::Object(coverage),
		"assumptions": plan.assumptions,
		"wall_s": (wall_s * 100.0).round() / 100.0,
		"violations": unknown,
	});
	let ev_dir = verif_dir().join("evidence");
	let _ = std::fs::create_dir_all(&ev_dir);
	let ev_path = std::env::var("VTV_EVIDENCE_PATH").map(PathBuf::from).unwrap_or_else(|_| ev_dir.join(format!("{property}.json")));
	write_atomic(&ev_path, &serde_json::to_string_pretty(&evidence).unwrap());

	for l in &lines {
		println!("{l}");
	}
	println!(
		"{property} {} seed={seed}: verdict={verdict} evaluations={} distinct_nontrivial={distinct} violations(unlisted)={unknown} known={} wall={:.1}s",
		tier.as_str(),
		rep.evaluations,
		known_hits.len(),
		wall_s
	);
	if verdict == "inconclusive" {
		println!("INCONCLUSIVE property={property}: {}", inconclusive.join("; "));
	}
	Outcome {
		exit_code: match verdict {
			"held" => 0,
			"violated" => 1,
			_ => 2,
		},
	}
}

pub fn write_atomic(path: &Path, text: &str) {
	let tmp = path.with_extension("tmp");
	if std::fs::write(&tmp, text).is_ok() {
		let _ = std::fs::rename(&tmp, path);
	}
}
