//! Builders for the zoo of tile sources used by C02 / C03 (container readers over own and
//! foreign encodings, the converting reader, pipeline operations and nestings of them).

use crate::codec::{idir, imb, ipm, itar, ivt};
use crate::comp::{self, Comp};
use crate::gen::{self, GenOpts, Key, MemSource, TileSet};
use crate::guard;
use crate::mon::c01::{container_path, pairs_for, TARGETS};
use crate::pipe::{self, Sources, Src};
use crate::rng::Rng;
use serde_json::{json, Value};
use std::collections::{BTreeMap, BTreeSet};
use std::path::Path;
use versatiles_container::*;
use versatiles_core::types::*;

pub struct Built {
	pub reader: Box<dyn TilesReaderTrait>,
	pub class: String,
	pub describe: Value,
	/// coordinates at which tiles may exist (lookup candidates)
	pub known: BTreeSet<Key>,
	/// exact expected mapping, when the harness has a model for this source
	pub model: Option<BTreeMap<Key, Vec<u8>>>,
	pub logs: Option<pipe::Logs>,
}

pub const KINDS: usize = 24;

pub fn kind_name(kind: usize) -> String {
	match kind {
		0..=4 => format!("own:{}", TARGETS[kind]),
		5..=9 => format!("foreign:{}", TARGETS[kind - 5]),
		10 => "convert(mem)".into(),
		11 => "convert(file)".into(),
		12 => "vpl:from_container".into(),
		13 => "vpl:filter_zoom".into(),
		14 => "vpl:filter_bbox".into(),
		15 => "vpl:from_overlayed".into(),
		16 => "vpl:nested".into(),
		17 => "vpl:from_debug".into(),
		18 => "vpl:from_vectortiles_merged".into(),
		19 => "vpl:vectortiles_update_properties".into(),
		20 => "vplfile(get_reader)".into(),
		21 => "vpl:deep-nesting".into(),
		22 => "convert(vpl)".into(),
		_ => "vpl:vector-nesting".into(),
	}
}

/// a tile set whose file layout forces the versatiles reader to split a selection into chunks
pub fn chunky_tileset(rng: &mut Rng) -> TileSet {
	let mut tiles = BTreeMap::new();
	let z = 10u8;
	let (x0, y0) = (300u32, 520u32);
	for y in 0..4u32 {
		for x in 0..4u32 {
			let big = x >= 1;
			let size = if big { 45_000 } else { 50 };
			tiles.insert((z, x0 + x, y0 + y), gen::payload_unique(z, x0 + x, y0 + y, size, rng));
		}
	}
	TileSet { format: TileFormat::BIN, comp: Comp::None, tiles, tilejson: "{\"tilejson\":\"3.0.0\"}".into(), shape: "chunky 4x4 at z10 (columns >= 1 hold 45 kB tiles)".into(), really_compressed: false }
}

/// set by a monitor that wants the next versatiles source to hold more than 64 MiB of tile data in one block
pub static FORCE_HUGE: std::sync::atomic::AtomicBool = std::sync::atomic::AtomicBool::new(false);

/// one block whose tile data exceeds the versatiles reader's 64 MiB chunk limit: either nine tiles of
/// 9 MiB, or a single tile larger than the limit between two small ones
pub fn huge_tileset(rng: &mut Rng) -> TileSet {
	let mut tiles = BTreeMap::new();
	let z = 9u8;
	let (x0, y0) = (100u32, 200u32);
	let single = rng.chance(0.4);
	let fill = |x: u32, y: u32, size: usize| -> Vec<u8> {
		let mut v = format!("T:{z}/{x}/{y};").into_bytes();
		let mut n: u64 = (x as u64) << 40 | (y as u64) << 20;
		v.reserve(size);
		while v.len() < size {
			v.extend_from_slice(&n.to_le_bytes());
			n = n.wrapping_mul(6364136223846793005).wrapping_add(1442695040888963407);
		}
		v
	};
	if single {
		tiles.insert((z, x0, y0), fill(x0, y0, 1 << 20));
		tiles.insert((z, x0 + 1, y0), fill(x0 + 1, y0, 65 << 20));
		tiles.insert((z, x0 + 2, y0), fill(x0 + 2, y0, 1 << 20));
		tiles.insert((z, x0, y0 + 1), fill(x0, y0 + 1, 100));
	} else {
		for y in 0..3u32 {
			for x in 0..3u32 {
				tiles.insert((z, x0 + x, y0 + y), fill(x0 + x, y0 + y, 9 << 20));
			}
		}
	}
	let shape = if single { "huge: one 65 MiB tile between small ones at z9" } else { "huge: 3x3 tiles of 9 MiB at z9 (81 MiB in one block)" };
	TileSet { format: TileFormat::BIN, comp: Comp::None, tiles, tilejson: "{\"tilejson\":\"3.0.0\"}".into(), shape: shape.into(), really_compressed: false }
}

/// a level that holds nothing but one Hilbert-aligned square of identical content: with run
/// lengths switched on it becomes a single PMTiles run whose middle tiles lie outside the
/// bounding box of its first and last tile
pub fn add_aligned_run(ts: &mut TileSet, rng: &mut Rng) {
	let z = *rng.pick(&[4u8, 6, 11, 13]);
	ts.tiles.retain(|k, _| k.0 != z);
	let side = *rng.pick(&[2u32, 4, 8]);
	let n = (1u32 << z) / side;
	let (bx, by) = (rng.below(n as u64) as u32 * side, rng.below(n as u64) as u32 * side);
	for dx in 0..side {
		for dy in 0..side {
			ts.tiles.insert((z, bx + dx, by + dy), b"one run".to_vec());
		}
	}
	ts.shape.push_str(&format!(" +z{z}:aligned-run-{side}x{side}"));
}

pub fn write_own(ts: &TileSet, target: &str, dir: &Path) -> Result<std::path::PathBuf, String> {
	let path = container_path(dir, target);
	if target == "directory" {
		let _ = std::fs::create_dir_all(&path);
	}
	let mut src = MemSource::new(ts);
	guard::block_on(write_to_filename(&mut src, path.to_str().unwrap())).map_err(|e| format!("write {target}: {e:#}"))?;
	Ok(path)
}

pub fn write_foreign(ts: &TileSet, target: &str, dir: &Path, rng: &mut Rng) -> Result<std::path::PathBuf, String> {
	let path = container_path(dir, target);
	match target {
		"versatiles" => {
			let mut o = ivt::EncOpts::random(rng);
			o.pooled_blobs = rng.chance(0.3);
			o.sloppy_zoom_bytes = rng.chance(0.2);
			std::fs::write(&path, ivt::encode(ts, &o, rng)).map_err(|e| e.to_string())?
		}
		"pmtiles" => {
			let mut o = ipm::EncOpts::random(rng, ts.tiles.len());
			if ts.shape.contains("aligned-run") {
				o.runs = true;
			}
			let mut b = ipm::encode(ts, &o, rng);
			let mut n = 0;
			while ipm::root_end(&b) > 16384 && n < 12 {
				o.leaf_levels = o.leaf_levels.max(1);
				o.leaf_size = o.leaf_size * 2 + 8;
				b = ipm::encode(ts, &o, rng);
				n += 1;
			}
			std::fs::write(&path, b).map_err(|e| e.to_string())?
		}
		"tar" => std::fs::write(&path, itar::encode(ts, &itar::EncOpts::random(rng), rng)).map_err(|e| e.to_string())?,
		"directory" => {
			let mut o = idir::EncOpts::random(rng);
			o.alt_spellings = rng.chance(0.5);
			idir::encode(ts, &path, &o)?
		}
		_ => imb::encode(ts, &path, &imb::EncOpts::random(rng), rng)?,
	}
	Ok(path)
}

pub fn open(path: &Path) -> Result<Box<dyn TilesReaderTrait>, String> {
	guard::block_on(get_reader(path.to_str().unwrap())).map_err(|e| format!("open {path:?}: {e:#}"))
}

pub fn gen_for(rng: &mut Rng, target: &str, max_tiles: usize, really: bool, unique: bool) -> TileSet {
	let opts = GenOpts { max_tiles, formats: pairs_for(target), really_compress: really, unique_payloads: unique, ..Default::default() };
	gen::gen_tileset(rng, &opts)
}

/// tile sets that share format (and optionally differ in compression) with overlapping coverage
/// metadata of one member of a family of sets; `layered`: every member describes the same vector layers (same ids,
/// field names as real schemas have them, zoom ranges that differ from member to member)
fn related_tilejson(i: usize, layered: bool) -> String {
	if !layered {
		return format!("{{\"tilejson\":\"3.0.0\",\"name\":\"s{i}\"}}");
	}
	let extra = ["\"name_en\":\"String\",", "\"admin_level\":\"Number\",\"name:de\":\"String\",", "\"is-tunnel\":\"Boolean\",", ""][i % 4];
	format!(
		"{{\"tilejson\":\"3.0.0\",\"name\":\"s{i}\",\"vector_layers\":[{{\"id\":\"roads\",\"fields\":{{{extra}\"kind\":\"String\"}},\"minzoom\":{},\"maxzoom\":{}}},{{\"id\":\"water_polygons\",\"fields\":{{\"way_area\":\"Number\"}}}}]}}",
		i % 3,
		9 + 2 * i
	)
}

pub fn related_sets(rng: &mut Rng, n: usize, max_tiles: usize, mixed_comp: bool, fmt: Option<TileFormat>) -> Vec<TileSet> {
	let layered = rng.chance(0.3);
	let format = fmt.unwrap_or(*rng.pick(&[TileFormat::PNG, TileFormat::JPG, TileFormat::BIN, TileFormat::JSON, TileFormat::WEBP]));
	let base_comp = *rng.pick(&comp::ALL);
	let levels: Vec<u8> = {
		// now and then the deepest levels there are (28..31)
		let z0 = if rng.chance(0.2) { 28 + rng.below(3) as u8 } else { rng.below(12) as u8 };
		let mut v: Vec<u8> = (0..rng.range(1, 4) as u8).map(|i| (z0 + i * rng.range(1, 2) as u8).min(31)).collect();
		v.dedup();
		v
	};
	if rng.chance(0.25) {
		// "jigsaw": all sources scatter over the same small window inside one cell of the operators' 32 x 32 grid, each
		// with its own density — irregular gaps whose bounding rectangles contain tiles another source filled already
		let z = 6 + rng.below(10) as u8;
		let (gx, gy) = (rng.below(1u64 << (z - 5)) as u32 * 32, rng.below(1u64 << (z - 5)) as u32 * 32);
		let (w, h) = (rng.range(3, 14) as u32, rng.range(3, 14) as u32);
		let (ox, oy) = (rng.below(32 - w as u64) as u32, rng.below(32 - h as u64) as u32);
		let mut out = vec![];
		for i in 0..n {
			let comp = if mixed_comp { *rng.pick(&comp::ALL) } else { base_comp };
			let p = rng.f64_range(0.2, 0.85);
			let mut tiles = BTreeMap::new();
			for dx in 0..w {
				for dy in 0..h {
					if rng.chance(p) {
						let (x, y) = (gx + ox + dx, gy + oy + dy);
						let raw = format!("s{i}:{z}/{x}/{y};").into_bytes();
						tiles.insert((z, x, y), comp::compress(&raw, comp));
					}
				}
			}
			if tiles.is_empty() {
				let (x, y) = (gx + ox, gy + oy);
				tiles.insert((z, x, y), comp::compress(format!("s{i}:{z}/{x}/{y};").as_bytes(), comp));
			}
			out.push(TileSet { format, comp, tiles, tilejson: related_tilejson(i, layered), shape: format!("jigsaw#{i}"), really_compressed: true });
		}
		return out;
	}
	let mut out = vec![];
	// common anchor so that coverages overlap partly
	let anchors: BTreeMap<u8, (u32, u32)> = levels.iter().map(|z| {
		let m = ((1u64 << z) - 1) as u32;
		(*z, (rng.range(0, m as u64) as u32, rng.range(0, m as u64) as u32))
	}).collect();
	for i in 0..n {
		let comp = if mixed_comp { *rng.pick(&comp::ALL) } else { base_comp };
		let mut tiles = BTreeMap::new();
		for z in &levels {
			if n > 1 && rng.chance(0.25) {
				continue; // this source lacks the level
			}
			let m = ((1u64 << z) - 1) as i64;
			let (ax, ay) = anchors[z];
			let (ox, oy) = (rng.range_i(-6, 6), rng.range_i(-6, 6));
			// mostly small, sometimes wide enough to span several 32-tile cells of the overlay / merge grid
			let (w, h) = if rng.chance(0.2) { (rng.range(20, 70) as i64, rng.range(2, 40) as i64) } else { (rng.range(1, 9) as i64, rng.range(1, 9) as i64) };
			for dx in 0..w {
				for dy in 0..h {
					if rng.chance(0.7) {
						let (x, y) = (ax as i64 + ox + dx, ay as i64 + oy + dy);
						if x >= 0 && y >= 0 && x <= m && y <= m && tiles.len() < max_tiles {
							// now and then a tile whose decoded payload is empty (only where the stored bytes are not)
							let raw = if comp != Comp::None && rng.chance(0.04) { vec![] } else { format!("s{i}:{z}/{x}/{y};{}", "p".repeat(rng.below(40) as usize)).into_bytes() };
							tiles.insert((*z, x as u32, y as u32), comp::compress(&raw, comp));
						}
					}
				}
			}
		}
		if tiles.is_empty() {
			let z = levels[0];
			let (ax, ay) = anchors[&z];
			tiles.insert((z, ax, ay), comp::compress(format!("s{i}:{z}/{ax}/{ay};").as_bytes(), comp));
		}
		out.push(TileSet { format, comp, tiles, tilejson: related_tilejson(i, layered), shape: format!("related#{i}"), really_compressed: true });
	}
	out
}

pub fn build_source(rng: &mut Rng, kind: usize, dir: &Path, max_tiles: usize) -> Result<Built, String> {
	let class = kind_name(kind);
	match kind {
		0..=9 => {
			let target = TARGETS[kind % 5];
			let huge = target == "versatiles" && FORCE_HUGE.swap(false, std::sync::atomic::Ordering::SeqCst);
			let mut ts = if huge { huge_tileset(rng) } else if target == "versatiles" && rng.chance(0.2) { chunky_tileset(rng) } else { gen_for(rng, target, max_tiles, false, false) };
			if kind == 6 && rng.chance(0.4) {
				add_aligned_run(&mut ts, rng);
			}
			let path = if kind < 5 { write_own(&ts, target, dir)? } else { write_foreign(&ts, target, dir, rng)? };
			let reader = open(&path)?;
			Ok(Built { reader, class, describe: ts.describe(), known: ts.tiles.keys().cloned().collect(), model: Some(ts.tiles.clone()), logs: None })
		}
		10 | 11 => {
			let tgt = if kind == 11 { *rng.pick(&["versatiles", "tar", "pmtiles"]) } else { "tar" };
			let ts = gen_for(rng, tgt, max_tiles.min(600), true, true);
			let inner: Box<dyn TilesReaderTrait> = if kind == 10 {
				let mut m = MemSource::new(&ts);
				m.default_stream = rng.chance(0.3);
				m.boxed()
			} else {
				let target = if pairs_for("pmtiles").contains(&(ts.format, ts.comp)) { *rng.pick(&["versatiles", "tar", "pmtiles"]) } else { *rng.pick(&["versatiles", "tar"]) };
				open(&write_own(&ts, target, dir)?)?
			};
			let flip = rng.bool();
			let swap = rng.bool();
			let out_comp = if rng.chance(0.5) { Some(rng.pick(&comp::ALL).to_core()) } else { None };
			let force = rng.chance(0.3);
			let pyramid = if rng.chance(0.5) {
				let mut p = TileBBoxPyramid::new_full(31);
				let l: Vec<u8> = ts.levels().into_iter().collect();
				if rng.bool() {
					p.set_zoom_min(*rng.pick(&l));
				}
				if rng.bool() {
					p.set_zoom_max(*rng.pick(&l));
				}
				if rng.bool() {
					p.intersect_geo_bbox(&GeoBBox(rng.f64_range(-180.0, 0.0), rng.f64_range(-85.0, 0.0), rng.f64_range(0.0, 180.0), rng.f64_range(0.0, 85.0)));
				}
				Some(p)
			} else {
				None
			};
			let desc = json!({"inner": ts.describe(), "flip_y": flip, "swap_xy": swap, "compression": format!("{out_comp:?}"), "force": force, "restricted": pyramid.is_some()});
			let cp = TilesConverterParameters::new(out_comp, pyramid, force, flip, swap);
			let r = TilesConvertReader::new_from_reader(inner, cp).map_err(|e| format!("converter: {e:#}"))?;
			// candidates: images of the stored tiles under the transform
			let mut known = BTreeSet::new();
			for k in ts.tiles.keys() {
				let m = ((1u64 << k.0) - 1) as u32;
				let (mut x, mut y) = (k.1, k.2);
				if flip {
					y = m - y;
				}
				if swap {
					std::mem::swap(&mut x, &mut y);
				}
				known.insert((k.0, x, y));
				known.insert(*k);
			}
			// now and then the input compression is "overridden" after construction — with the value the source
			// declares anyway, so nothing changes
			let mut r = r;
			if rng.chance(0.3) {
				let declared = r.get_parameters().tile_compression;
				let inner_declared = if out_comp.is_none() && !force { Some(declared) } else { None };
				if let Some(c) = inner_declared {
					r.override_compression(c);
				}
			}
			Ok(Built { reader: Box::new(r), class, describe: desc, known, model: None, logs: None })
		}
		17 => {
			let fmt = *rng.pick(&["pbf", "png", "jpg", "webp"]);
			let vpl = format!("from_debug format={fmt}{}", if rng.bool() { " fast=true" } else { "" });
			let (r, logs) = guard::block_on(pipe::build(&vpl, &Sources::new(), None)).map_err(|e| format!("{vpl}: {e:#}"))?;
			Ok(Built { reader: Box::new(r), class, describe: json!({"vpl": vpl}), known: BTreeSet::new(), model: None, logs: Some(logs) })
		}
		12..=16 => {
			let mut sources = Sources::new();
			let n = if kind >= 15 { rng.range(2, 4) as usize } else { 1 };
			let mixed = kind >= 15 && rng.bool();
			let sets = related_sets(rng, n, max_tiles.min(300), mixed, None);
			let mut known = BTreeSet::new();
			let mut names = vec![];
			for (i, ts) in sets.iter().enumerate() {
				known.extend(ts.tiles.keys().cloned());
				let as_file = rng.chance(0.35);
				if as_file {
					let targets: Vec<&str> = TARGETS.iter().cloned().filter(|t| pairs_for(t).contains(&(ts.format, ts.comp))).collect();
					let target = *rng.pick(&targets);
					let sub = dir.join(format!("src{i}"));
					let _ = std::fs::create_dir_all(&sub);
					let p = write_own(ts, target, &sub)?;
					sources.add(&format!("s{i}.x"), Src::File(p));
				} else {
					let pyramid = if rng.chance(0.3) {
						let mut p = ts.pyramid();
						p.add_border(1, 1, 2, 2);
						Some(p)
					} else {
						None
					};
					sources.add(&format!("s{i}.x"), Src::Mem { ts: ts.clone(), pyramid, default_stream: rng.chance(0.3), yields: if rng.chance(0.3) { rng.range(1, 3) as u32 } else { 0 }, open_yields: if rng.chance(0.3) { rng.range(1, 4) as u32 } else { 0 } });
				}
				names.push(format!("s{i}.x"));
			}
			let lv: Vec<u8> = sets[0].levels().into_iter().collect();
			let zf = |rng: &mut Rng| -> String {
				let mut s = String::from("filter_zoom");
				if rng.bool() {
					s.push_str(&format!(" min={}", rng.pick(&lv)));
				}
				if rng.bool() {
					s.push_str(&format!(" max={}", (*rng.pick(&lv) as u64 + rng.below(2)) as u8));
				}
				s
			};
			let bf = |rng: &mut Rng, ts: &TileSet| -> String {
				// a geographic box around a part of the highest level's tiles
				let b = ts.bounds();
				let (z, bb) = b.iter().next_back().unwrap();
				let n = (2f64).powi(*z as i32);
				let fx0 = (bb.0 as f64 + rng.f64_range(-1.5, 2.5)).clamp(0.0, n);
				let fx1 = (bb.2 as f64 + 1.0 + rng.f64_range(-2.5, 1.5)).clamp(fx0, n);
				let fy0 = (bb.1 as f64 + rng.f64_range(-1.5, 2.5)).clamp(0.0, n);
				let fy1 = (bb.3 as f64 + 1.0 + rng.f64_range(-2.5, 1.5)).clamp(fy0, n);
				let lon = |x: f64| (x / n - 0.5) * 360.0;
				let lat = |y: f64| (std::f64::consts::PI * (1.0 - 2.0 * y / n)).sinh().atan().to_degrees();
				format!("filter_bbox bbox=[{},{},{},{}]", lon(fx0), lat(fy1), lon(fx1), lat(fy0))
			};
			let vpl = match kind {
				12 => format!("from_container filename=\"{}\"", names[0]),
				13 => format!("from_container filename={} | {}", names[0], zf(rng)),
				14 => format!("from_container filename={} | {}", names[0], bf(rng, &sets[0])),
				15 => format!("from_overlayed [ {} ]", names.iter().map(|n| format!("from_container filename={n}")).collect::<Vec<_>>().join(", ")),
				_ => {
					let inner: Vec<String> = names
						.iter()
						.enumerate()
						.map(|(i, n)| {
							let mut s = format!("from_container filename={n}");
							if rng.chance(0.5) {
								s.push_str(&format!(" | {}", zf(rng)));
							}
							if rng.chance(0.4) {
								s.push_str(&format!(" | {}", bf(rng, &sets[i])));
							}
							s
						})
						.collect();
					let mut s = format!("from_overlayed [ {} ]", inner.join(", "));
					if rng.chance(0.6) {
						s.push_str(&format!(" | {}", zf(rng)));
					}
					if rng.chance(0.5) {
						s.push_str(&format!(" | {}", bf(rng, &sets[0])));
					}
					s
				}
			};
			let (r, logs) = guard::block_on(pipe::build(&vpl, &sources, None)).map_err(|e| format!("{vpl}: {e:#}"))?;
			let model = if kind == 12 { Some(sets[0].tiles.clone()) } else { None };
			Ok(Built { reader: Box::new(r), class, describe: json!({"vpl": vpl, "sources": sets.iter().map(|t| t.describe()).collect::<Vec<_>>()}), known, model, logs: Some(logs) })
		}
		18 | 19 | 23 => crate::mvtsrc::build_vector_source(rng, kind, dir, max_tiles),
		_ => {
			// 20: a .vpl file next to real container files, opened through get_reader
			// 21: three levels of overlays / filters; 22: the converting reader over such a pipeline
			let n = rng.range(3, 4) as usize;
			let sets = related_sets(rng, n, max_tiles.min(200), false, None);
			let mut known = BTreeSet::new();
			let mut sources = Sources::new();
			let mut names = vec![];
			for (i, ts) in sets.iter().enumerate() {
				known.extend(ts.tiles.keys().cloned());
				let targets: Vec<&str> = ["versatiles", "tar", "pmtiles", "mbtiles"].iter().cloned().filter(|t| pairs_for(t).contains(&(ts.format, ts.comp))).collect();
				if kind == 20 || rng.chance(0.3) {
					let target = if targets.is_empty() { "versatiles" } else { *rng.pick(&targets) };
					let sub = dir.join(format!("d{i}"));
					let _ = std::fs::create_dir_all(&sub);
					let p = write_own(ts, target, &sub)?;
					let rel = format!("d{i}/{}", p.file_name().unwrap().to_string_lossy());
					sources.add(&rel, Src::File(p.clone()));
					sources.add(&p.file_name().unwrap().to_string_lossy().to_string(), Src::File(p));
					names.push(rel);
				} else {
					sources.add(&format!("s{i}.x"), Src::Mem { ts: ts.clone(), pyramid: None, default_stream: rng.chance(0.3), yields: if rng.chance(0.3) { 1 } else { 0 }, open_yields: if rng.chance(0.3) { 2 } else { 0 } });
					names.push(format!("s{i}.x"));
				}
			}
			let lv: Vec<u8> = sets.iter().flat_map(|s| s.levels()).collect();
			let zf = |rng: &mut Rng| format!("filter_zoom min={} max={}", rng.pick(&lv), (*rng.pick(&lv)).max(*rng.pick(&lv)));
			let c = |i: usize| format!("from_container filename=\"{}\"", names[i]);
			let vpl = if n >= 4 {
				format!("from_overlayed [\n  from_overlayed [ {} , {} | {} ] | {},\n  {} ,\n  {} | {}\n] | {}", c(0), c(1), zf(rng), zf(rng), c(2), c(3), zf(rng), zf(rng))
			} else {
				format!("from_overlayed [ from_overlayed [ {}, {} ] | {}, {} | {} ]", c(0), c(1), zf(rng), c(2), zf(rng))
			};
			let desc = json!({"vpl": vpl, "sources": sets.iter().map(|t| t.describe()).collect::<Vec<_>>()});
			if kind == 20 {
				let f = dir.join("pipeline.vpl");
				std::fs::write(&f, &vpl).map_err(|e| e.to_string())?;
				let reader = open(&f)?;
				return Ok(Built { reader, class, describe: desc, known, model: None, logs: None });
			}
			let (r, logs) = guard::block_on(pipe::build(&vpl, &sources, None)).map_err(|e| format!("{vpl}: {e:#}"))?;
			if kind == 22 {
				let flip = rng.bool();
				let swap = rng.bool();
				let cp = TilesConverterParameters::new(if rng.bool() { Some(rng.pick(&comp::ALL).to_core()) } else { None }, None, rng.chance(0.3), flip, swap);
				let cr = TilesConvertReader::new_from_reader(Box::new(r), cp).map_err(|e| format!("converter: {e:#}"))?;
				let mut k2 = BTreeSet::new();
				for k in &known {
					k2.insert(*k);
					k2.insert(crate::model::transform(k, flip, swap));
				}
				return Ok(Built { reader: Box::new(cr), class, describe: desc, known: k2, model: None, logs: Some(logs) });
			}
			Ok(Built { reader: Box::new(r), class, describe: desc, known, model: None, logs: Some(logs) })
		}
	}
}
