//! Vector-tile sources for the pipeline operations that decode tiles
//! (`from_vectortiles_merged`, `vectortiles_update_properties`).

use crate::codec::imvt::{self, WLayer};
use crate::comp::{self, Comp};
use crate::gen::{Key, TileSet};
use crate::guard;
use crate::pipe::{self, Sources, Src};
use crate::rng::Rng;
use crate::sources::{kind_name, Built};
use serde_json::json;
use std::collections::{BTreeMap, BTreeSet};
use std::path::Path;
use versatiles_core::types::TileFormat;

#[derive(Clone, Debug)]
pub struct VecSet {
	pub comp: Comp,
	pub layers: BTreeMap<Key, Vec<WLayer>>,
	pub blobs: BTreeMap<Key, Vec<u8>>,
}

impl VecSet {
	/// keep only the first `n` tiles (the tiny tier runs under an interpreter that is 10^4 times slower)
	pub fn truncate(&mut self, n: usize) {
		let keep: Vec<Key> = self.blobs.keys().take(n).cloned().collect();
		self.blobs.retain(|k, _| keep.contains(k));
		self.layers.retain(|k, _| keep.contains(k));
	}
	pub fn tileset(&self, name: &str) -> TileSet {
		TileSet {
			format: TileFormat::PBF,
			comp: self.comp,
			tiles: self.blobs.clone(),
			tilejson: format!("{{\"tilejson\":\"3.0.0\",\"name\":\"{name}\",\"vector_layers\":[{{\"id\":\"roads\",\"fields\":{{\"kind\":\"String\"}}}},{{\"id\":\"water\",\"fields\":{{}}}}]}}"),
			shape: format!("vector:{name}"),
			really_compressed: true,
		}
	}
}

/// `n` vector sources over a common small area with partly overlapping coverage
pub fn gen_vector_sets(rng: &mut Rng, n: usize, go: &imvt::GenOpts, mixed_comp: bool, enc: &imvt::EncOpts) -> Vec<VecSet> {
	// now and then the deepest levels there are
	let z0 = if rng.chance(0.15) { 29 + rng.below(2) as u8 } else { rng.below(10) as u8 };
	let mut levels: Vec<u8> = (0..rng.range(1, 3) as u8).map(|i| (z0 + i).min(31)).collect();
	levels.dedup();
	let anchors: BTreeMap<u8, (u32, u32)> = levels
		.iter()
		.map(|z| {
			let m = ((1u64 << z) - 1) as u64;
			(*z, (rng.range(0, m) as u32, rng.range(0, m) as u32))
		})
		.collect();
	let base = *rng.pick(&comp::ALL);
	let mut out: Vec<VecSet> = vec![];
	for _ in 0..n {
		let c = if mixed_comp { *rng.pick(&comp::ALL) } else { base };
		let mut layers = BTreeMap::new();
		let mut blobs = BTreeMap::new();
		for z in &levels {
			if n > 1 && rng.chance(0.2) {
				continue;
			}
			let m = ((1u64 << z) - 1) as i64;
			let (ax, ay) = anchors[z];
			let (ox, oy) = (rng.range_i(-2, 2), rng.range_i(-2, 2));
			let wide = rng.chance(0.15);
			for dx in 0..(if wide { rng.range(30, 40) } else { rng.range(1, 4) }) as i64 {
				for dy in 0..rng.range(1, 4) as i64 {
					let (x, y) = (ax as i64 + ox + dx, ay as i64 + oy + dy);
					if x < 0 || y < 0 || x > m || y > m || !rng.chance(0.8) {
						continue;
					}
					// now and then a tile without any layer (zero bytes before compression)
					let ls = if rng.chance(0.06) { vec![] } else { imvt::gen_layers(rng, go) };
					let raw = imvt::encode_tile(&ls, enc, rng);
					blobs.insert((*z, x as u32, y as u32), comp::compress(&raw, c));
					layers.insert((*z, x as u32, y as u32), ls);
				}
			}
		}
		if blobs.is_empty() {
			let z = levels[0];
			let (x, y) = anchors[&z];
			let ls = imvt::gen_layers(rng, go);
			blobs.insert((z, x, y), comp::compress(&imvt::encode_tile(&ls, enc, rng), c));
			layers.insert((z, x, y), ls);
		}
		// the same tile in two neighbouring sources (one container listed twice, overlapping extracts of one data set):
		// byte for byte the same content, still two tiles whose features all belong into the result
		if let Some(prev) = out.last() {
			if rng.chance(0.25) {
				for (k, ls) in prev.layers.iter().take(2) {
					let raw = comp::decompress(&prev.blobs[k], prev.comp).unwrap_or_default();
					blobs.insert(*k, comp::compress(&raw, c));
					layers.insert(*k, ls.clone());
				}
			}
		}
		out.push(VecSet { comp: c, layers, blobs });
	}
	out
}

pub struct CsvSpec {
	pub text: String,
	pub id_col: String,
	/// id (as string) -> column -> raw text
	pub rows: BTreeMap<String, BTreeMap<String, String>>,
}

/// a CSV table keyed by ids that occur in the generated tiles (`id0..id11` / `0..11`)
pub fn gen_csv(rng: &mut Rng) -> CsvSpec {
	let id_col = "id".to_string();
	// the id column plus any subset of the value columns — now and then none at all (a plain id list)
	let all = ["kind", "population", "ratio", "flag", "note"];
	let mut cols: Vec<&str> = vec!["id"];
	if !rng.chance(0.2) {
		let keep_all = rng.chance(0.5);
		for c in all {
			if keep_all || rng.bool() {
				cols.push(c);
			}
		}
	}
	let mut text = cols.join(",");
	text.push('\n');
	let mut rows = BTreeMap::new();
	let mut ids: Vec<String> = (0..12).map(|i| format!("id{i}")).chain((0..12).map(|i| i.to_string())).collect();
	rng.shuffle(&mut ids);
	let mut ids: Vec<String> = ids.into_iter().take(rng.range(3, 16) as usize).collect();
	if rng.chance(0.3) {
		// ids that differ from real ones only by surrounding blanks: other keys, matching nothing
		let extra: Vec<String> = ids.iter().take(3).map(|i| format!(" {i}")).chain(ids.iter().skip(1).take(2).map(|i| format!("{i} "))).collect();
		ids.extend(extra);
	}
	for id in ids {
		let mut r = BTreeMap::new();
		r.insert("id".to_string(), id.clone());
		// cells keep their blanks: " padded " is not "padded", " 42" is a text and not a number
		r.insert("kind".to_string(), (*rng.pick(&["primary", "secondary", "with space", "Größe", " padded ", "  indented", "trailing  "])).to_string());
		r.insert("population".to_string(), if rng.chance(0.1) { format!(" {}", rng.below(1000)) } else { rng.below(100000).to_string() });
		// decimals, also the way R / SQL*Plus exports write them: without the leading zero
		r.insert("ratio".to_string(), match rng.below(8) {
			0 => format!(".{}", rng.range(1, 99)),
			1 => format!("-.{}", rng.range(1, 99)),
			2 => format!("-{}.{}", rng.below(10), rng.range(1, 99)),
			_ => format!("{}.{}", rng.below(10), rng.range(1, 99)),
		});
		r.insert("flag".to_string(), (*rng.pick(&["true", "false"])).to_string());
		r.insert("note".to_string(), format!("n{}", rng.below(9)));
		// numbers just inside / outside the 32-bit range (a joined negative number becomes a signed integer)
		if rng.chance(0.15) {
			r.insert("population".to_string(), (*rng.pick(&["-1500000000", "1700000000", "2147483647", "-2147483648", "1073741824", "-1073741825", "4294967296"])).to_string());
		}
		// cells as spreadsheets write them: a separator, a quote, a line break or a lone carriage return inside a
		// cell puts the cell in quotes; what is between the quotes is the value, byte for byte
		if rng.chance(0.2) {
			r.insert("note".to_string(), (*rng.pick(&["a,b", "two\r\nlines", "cr\rinside", "say \"hi\"", "\r", "line\nfeed", "tab\there", "\r\n"])).to_string());
		}
		r.retain(|k, _| cols.contains(&k.as_str()));
		let cell = |v: &str, rng: &mut Rng| -> String {
			if v.contains(['"', ',', '\r', '\n']) || (!v.is_empty() && !v.starts_with(' ') && rng.chance(0.05)) {
				format!("\"{}\"", v.replace('"', "\"\""))
			} else {
				v.to_string()
			}
		};
		text.push_str(&cols.iter().map(|c| cell(&r[*c], rng)).collect::<Vec<_>>().join(","));
		text.push_str(if rng.chance(0.1) { "\r\n" } else { "\n" });
		rows.insert(id.clone(), r.clone());
		// a second row whose id differs from this one by a trailing carriage return only (inside quotes): another key
		if rng.chance(0.08) && cols.len() > 1 {
			let mut r2 = r.clone();
			let id2 = format!("{id}\r");
			r2.insert("id".to_string(), id2.clone());
			for c in &cols[1..] {
				r2.insert(c.to_string(), "other".to_string());
			}
			text.push_str(&cols.iter().map(|c| cell(&r2[*c], rng)).collect::<Vec<_>>().join(","));
			text.push('\n');
			rows.insert(id2, r2);
		}
	}
	CsvSpec { text, id_col, rows }
}

/// the same table with the value cells of every row moved to the previous row (ids stay): other content, the
/// same byte length. None if that changes nothing (no value columns, fewer than two rows, equal rows).
pub fn csv_second_generation(csv: &CsvSpec) -> Option<CsvSpec> {
	// (only for tables whose cells are plain: one row per line, no quoting)
	if csv.text.contains(['"', '\r']) {
		return None;
	}
	let mut lines = csv.text.lines();
	let header = lines.next()?.to_string();
	let cols: Vec<&str> = header.split(',').collect();
	if cols.len() < 2 || cols[0] != csv.id_col {
		return None;
	}
	let data: Vec<(String, String)> = lines.map(|l| l.split_once(',').map(|(a, b)| (a.to_string(), b.to_string()))).collect::<Option<Vec<_>>>()?;
	if data.len() < 2 {
		return None;
	}
	let mut text = header.clone();
	text.push('\n');
	let mut rows = BTreeMap::new();
	for (i, (id, _)) in data.iter().enumerate() {
		let rest = &data[(i + 1) % data.len()].1;
		let cells: Vec<&str> = rest.split(',').collect();
		if cells.len() != cols.len() - 1 {
			return None;
		}
		let mut r = BTreeMap::new();
		r.insert(csv.id_col.clone(), id.clone());
		for (c, v) in cols[1..].iter().zip(cells) {
			r.insert(c.to_string(), v.to_string());
		}
		rows.insert(id.clone(), r);
		text.push_str(&format!("{id},{rest}\n"));
	}
	if text == csv.text || text.len() != csv.text.len() || rows.len() != csv.rows.len() {
		return None;
	}
	Some(CsvSpec { text, id_col: csv.id_col.clone(), rows })
}

#[derive(Clone, Debug)]
pub struct UpdateArgs {
	pub layer: String,
	pub id_field_tiles: String,
	pub replace: bool,
	pub remove_non_matching: bool,
	pub include_id: bool,
}

pub fn update_vpl(source: &str, a: &UpdateArgs) -> String {
	let mut s = format!(
		"from_container filename={source} | vectortiles_update_properties data_source_path=\"data.csv\" layer_name=\"{}\" id_field_tiles=\"{}\" id_field_data=id",
		a.layer, a.id_field_tiles
	);
	// every spelling of "yes" the option parser documents by accepting it; which one is used depends on the arguments
	let yes = ["true", "True", "TRUE", "yes", "Yes", "1", "ok", "\" true \"", "\"YES\""];
	let pick = |salt: usize| yes[(a.layer.len() * 7 + a.replace as usize * 3 + a.remove_non_matching as usize * 5 + a.include_id as usize + salt) % yes.len()];
	if a.replace {
		s.push_str(&format!(" replace_properties={}", pick(0)));
	}
	if a.remove_non_matching {
		s.push_str(&format!(" remove_non_matching={}", pick(4)));
	}
	if a.include_id {
		s.push_str(&format!(" include_id={}", pick(2)));
	}
	s
}

pub fn build_vector_source(rng: &mut Rng, kind: usize, dir: &Path, _max_tiles: usize) -> Result<Built, String> {
	let class = kind_name(kind);
	let enc = imvt::EncOpts { foreign_field_order: rng.chance(0.5), ..Default::default() };
	if kind == 23 {
		// merged vector sources, one of them itself a merge, below a zoom filter and a property update
		let go = imvt::GenOpts { extreme_values: false, unknown_geom: false, big_ids: false, id_field: Some("osm_id".into()), ..Default::default() };
		let mixed = rng.bool();
		let sets = gen_vector_sets(rng, 3, &go, mixed, &enc);
		let csv = gen_csv(rng);
		std::fs::write(dir.join("data.csv"), &csv.text).map_err(|e| e.to_string())?;
		let mut sources = Sources::new();
		let mut known = BTreeSet::new();
		for (i, s) in sets.iter().enumerate() {
			known.extend(s.blobs.keys().cloned());
			sources.add(&format!("v{i}.x"), Src::Mem { ts: s.tileset(&format!("v{i}")), pyramid: None, default_stream: rng.chance(0.3), yields: if rng.chance(0.4) { 1 } else { 0 }, open_yields: 0 });
		}
		let zmax = known.iter().map(|k| k.0).max().unwrap_or(0);
		let vpl = format!("from_vectortiles_merged [ from_container filename=v0.x | filter_zoom max={zmax}, from_vectortiles_merged [ from_container filename=v1.x, from_container filename=v2.x ] ] | vectortiles_update_properties data_source_path=\"data.csv\" layer_name=roads id_field_tiles=osm_id id_field_data=id | filter_zoom min=0");
		let (r, logs) = guard::block_on(pipe::build(&vpl, &sources, Some(dir))).map_err(|e| format!("{vpl}: {e:#}"))?;
		return Ok(Built { reader: Box::new(r), class, describe: json!({"vpl": vpl}), known, model: None, logs: Some(logs) });
	}
	if kind == 18 {
		let go = imvt::GenOpts { extreme_values: false, unknown_geom: false, big_ids: false, ..Default::default() };
		let (n, mixed) = (rng.range(2, 4) as usize, rng.bool());
		let sets = gen_vector_sets(rng, n, &go, mixed, &enc);
		let mut sources = Sources::new();
		let mut known = BTreeSet::new();
		let mut names = vec![];
		for (i, s) in sets.iter().enumerate() {
			known.extend(s.blobs.keys().cloned());
			sources.add(&format!("v{i}.x"), Src::Mem { ts: s.tileset(&format!("v{i}")), pyramid: None, default_stream: rng.chance(0.3), yields: if rng.chance(0.4) { rng.range(1, 3) as u32 } else { 0 }, open_yields: if rng.chance(0.3) { rng.range(1, 4) as u32 } else { 0 } });
			names.push(format!("from_container filename=v{i}.x"));
		}
		let vpl = format!("from_vectortiles_merged [ {} ]", names.join(", "));
		let (r, logs) = guard::block_on(pipe::build(&vpl, &sources, None)).map_err(|e| format!("{vpl}: {e:#}"))?;
		Ok(Built { reader: Box::new(r), class, describe: json!({"vpl": vpl, "tiles_per_source": sets.iter().map(|s| s.blobs.len()).collect::<Vec<_>>()}), known, model: None, logs: Some(logs) })
	} else {
		let go = imvt::GenOpts { extreme_values: false, unknown_geom: false, big_ids: false, id_field: Some("osm_id".into()), ..Default::default() };
		let sets = gen_vector_sets(rng, 1, &go, false, &enc);
		let csv = gen_csv(rng);
		std::fs::write(dir.join("data.csv"), &csv.text).map_err(|e| e.to_string())?;
		let mut sources = Sources::new();
		sources.add("v0.x", Src::Mem { ts: sets[0].tileset("v0"), pyramid: None, default_stream: rng.chance(0.3), yields: if rng.chance(0.4) { rng.range(1, 3) as u32 } else { 0 }, open_yields: if rng.chance(0.3) { rng.range(1, 4) as u32 } else { 0 } });
		let a = UpdateArgs { layer: "roads".into(), id_field_tiles: "osm_id".into(), replace: rng.bool(), remove_non_matching: rng.bool(), include_id: rng.bool() };
		let vpl = update_vpl("v0.x", &a);
		let (r, logs) = guard::block_on(pipe::build(&vpl, &sources, Some(dir))).map_err(|e| format!("{vpl}: {e:#}"))?;
		Ok(Built { reader: Box::new(r), class, describe: json!({"vpl": vpl, "tiles": sets[0].blobs.len()}), known: sets[0].blobs.keys().cloned().collect(), model: None, logs: Some(logs) })
	}
}
