//! C05 — the HTTP tile endpoint serves exactly the stored tile under content negotiation.
//!
//! The real `versatiles serve` binary, a raw-socket HTTP/1.1 client and containers whose tile
//! maps the harness knows. Every exchange must be a complete HTTP response; status, body (after
//! undoing Content-Encoding with the harness's own codecs), Content-Type and Content-Encoding are
//! checked against the stored tile and the client's Accept-Encoding.

use crate::comp::{self, Comp};
use crate::gen::{self, GenOpts, Key, MemSource, TileSet};
use crate::guard;
use crate::http;
use crate::mon::c01::container_path;
use crate::report::{Plan, Report, Tier};
use crate::rng::{fnv, Rng};
use crate::server::Server;
use crate::shard::{CaseCtx, MonitorDef};
use serde_json::json;
use versatiles_core::types::TileFormat;

pub fn def() -> MonitorDef {
	MonitorDef { id: "C05", plan, run_case, finalize }
}

fn plan(tier: Tier, _seed: u64) -> Plan {
	Plan {
		cases: tier.pick(8, 48),
		shards: 6,
		case_timeout_s: 900,
		level: "exploration",
		rule: "one case = one server instance (mode best | --fast) serving 4..6 generated containers (versatiles in all three stored compressions with PBF / PNG / JPG / WEBP / JSON / BIN tiles, mbtiles, pmtiles, tar, directory). One evaluation = one raw HTTP exchange GET /tiles/<id>/<z>/<x>/<y>[.ext] for stored coordinates, neighbours, out-of-range x / y, z in 32..255, non-numeric and overflowing parts, with Accept-Encoding = a subset of {gzip, br, deflate, identity, zstd} in random order / case / positive q-values / spacing, or absent. Non-trivial: an exchange that returned a tile (200) or addressed an absent / malformed coordinate; distinct by (source, request target, Accept-Encoding)".into(),
		assumptions: vec![
			"bodies are decoded with the flate2 / brotli crates; media types come from an independent table (application/x-protobuf or application/vnd.mapbox-vector-tile for PBF)".into(),
			"z in 32..255 may be answered 400 or 404; leniently parsed forms (`2abc`, `+2`, `02`) only need a complete response and, on 200, the tile of the leniently parsed coordinate".into(),
		],
		min_evaluations: 3_000,
		exhaustive: false,
		timeouts_excluded: false,
	}
}

fn finalize(_t: Tier, _p: &Plan, rep: &mut Report) {
	for k in ["responses_200", "responses_404", "responses_400", "servers_best", "servers_fast", "responses_with_content_encoding_gzip", "responses_with_content_encoding_br", "servers_with_override_and_transform"] {
		if rep.counter(k) == 0 {
			rep.inconclusive(&format!("nothing observed for {k}"));
		}
	}
}

fn media_types(f: TileFormat) -> Vec<&'static str> {
	use TileFormat::*;
	match f {
		PNG => vec!["image/png"],
		JPG => vec!["image/jpeg"],
		WEBP => vec!["image/webp"],
		AVIF => vec!["image/avif"],
		SVG => vec!["image/svg+xml"],
		PBF => vec!["application/x-protobuf", "application/vnd.mapbox-vector-tile"],
		JSON => vec!["application/json"],
		GEOJSON => vec!["application/geo+json"],
		TOPOJSON => vec!["application/topo+json"],
		BIN => vec!["application/octet-stream"],
	}
}

struct Served {
	id: String,
	ts: TileSet,
	container: &'static str,
	/// `serve --flip-y / --swap-xy` (flip applied first): the server exposes the image of every stored tile
	flip: bool,
	swap: bool,
}
impl Served {
	fn img(&self, k: Key) -> Key {
		let m = ((1u64 << k.0) - 1) as u32;
		let (mut x, mut y) = (k.1, k.2);
		if self.flip {
			y = m - y;
		}
		if self.swap {
			std::mem::swap(&mut x, &mut y);
		}
		(k.0, x, y)
	}
	fn pre(&self, k: &Key) -> Option<Key> {
		let m = ((1u64 << k.0) - 1) as u32;
		let (mut x, mut y) = (k.1, k.2);
		if x > m || y > m {
			return None;
		}
		if self.swap {
			std::mem::swap(&mut x, &mut y);
		}
		if self.flip {
			y = m - y;
		}
		Some((k.0, x, y))
	}
}

fn accept_encoding(rng: &mut Rng) -> (Option<String>, Vec<String>) {
	if rng.chance(0.12) {
		return (None, vec![]);
	}
	let all = ["gzip", "br", "deflate", "identity", "zstd"];
	let mut chosen: Vec<&str> = all.iter().cloned().filter(|_| rng.chance(0.5)).collect();
	if chosen.is_empty() {
		chosen.push(*rng.pick(&all));
	}
	rng.shuffle(&mut chosen);
	let mut parts = vec![];
	for t in &chosen {
		let mut s: String = match rng.below(4) {
			0 => t.to_ascii_uppercase(),
			1 => {
				let mut c = t.chars();
				c.next().map(|f| f.to_ascii_uppercase().to_string() + c.as_str()).unwrap_or_default()
			}
			_ => t.to_string(),
		};
		if rng.chance(0.3) {
			s.push_str(*rng.pick(&[";q=1", ";q=0.5", "; q=0.9", ";q=0.001", ";q=1.0"]));
		}
		parts.push(s);
	}
	let sep = *rng.pick(&[",", ", ", " , ", ",  "]);
	(Some(parts.join(sep)), chosen.iter().map(|s| s.to_string()).collect())
}

fn run_case(cx: &CaseCtx, rep: &mut Report) {
	let mut rng = cx.rng();
	let fast = cx.case % 2 == 1;
	let group = (cx.case / 2) % 4;
	let dir = cx.fresh_dir("c05");
	// fixtures
	let specs: Vec<(&'static str, TileFormat, Comp)> = match group {
		0 => vec![("versatiles", TileFormat::PBF, Comp::None), ("versatiles", TileFormat::PBF, Comp::Gzip), ("versatiles", TileFormat::PBF, Comp::Brotli), ("versatiles", TileFormat::JSON, Comp::Gzip)],
		1 => vec![("versatiles", TileFormat::PNG, Comp::None), ("versatiles", TileFormat::JPG, Comp::Gzip), ("versatiles", TileFormat::WEBP, Comp::Brotli), ("versatiles", TileFormat::BIN, Comp::Brotli), ("versatiles", TileFormat::AVIF, Comp::None), ("versatiles", TileFormat::BIN, Comp::None)],
		3 => vec![("mislabelled-directory", TileFormat::PBF, if cx.case % 4 < 2 { Comp::Gzip } else { Comp::Brotli }), ("mislabelled-directory", TileFormat::JSON, Comp::Gzip)],
		_ => vec![("mbtiles", TileFormat::PBF, Comp::Gzip), ("pmtiles", TileFormat::PNG, Comp::None), ("pmtiles", TileFormat::PBF, Comp::Brotli), ("tar", TileFormat::PBF, Comp::Gzip), ("directory", TileFormat::GEOJSON, Comp::Brotli), ("mbtiles", TileFormat::WEBP, Comp::None), ("foreign-versatiles", TileFormat::PBF, Comp::Gzip), ("foreign-versatiles", TileFormat::PNG, Comp::None)],
	};
	let mut served: Vec<Served> = vec![];
	let mut args: Vec<String> = vec![];
	// group 3: tiles stored compressed under names without a compression suffix, served with
	// --override-input-compression, alone and together with the transform flags
	let combo = if group != 3 { 0 } else if cx.case % 2 == 0 { 1 + (cx.case / 8) % 3 } else { (cx.case / 8) % 4 };
	let (flip, swap) = (combo & 1 == 1, combo & 2 == 2);
	for (i, (container, f, c)) in specs.iter().enumerate() {
		if *container == "foreign-versatiles" {
			// a versatiles file from another encoder: padding between and behind the blobs, partial blocks, shuffled order
			let opts = GenOpts { max_tiles: 60, max_level: 31, formats: vec![(*f, *c)], really_compress: true, ..Default::default() };
			let ts = gen::gen_tileset(&mut rng, &opts);
			let mut eo = crate::codec::ivt::EncOpts::random(&mut rng);
			eo.gaps = true;
			let path = dir.join(format!("s{i}.versatiles"));
			if std::fs::write(&path, crate::codec::ivt::encode(&ts, &eo, &mut rng)).is_err() {
				rep.inconclusive("fixture write failed");
				return;
			}
			let id = format!("src{i}");
			args.push(format!("[{id}]{}", path.display()));
			served.push(Served { id, ts, container: "versatiles(foreign encoder)", flip: false, swap: false });
			continue;
		}
		if *container == "mislabelled-directory" {
			if i > 0 && *c != specs[0].2 {
				continue; // one override for the whole server
			}
			let opts = GenOpts { max_tiles: 60, max_level: 31, formats: vec![(*f, *c)], really_compress: true, ..Default::default() };
			let mut ts = gen::gen_tileset(&mut rng, &opts);
			if flip || swap {
				// the deepest levels take part in the relocation as well
				for (z, x, y) in [(31u8, 5u32, 2147483000u32), (31, 2147483647, 0), (30, 1073741823, 1073741823)] {
					ts.tiles.insert((z, x, y), crate::comp::compress(&gen::payload_unique(z, x, y, 40, &mut rng), *c));
				}
			}
			let path = dir.join(format!("s{i}")).join("tiles_dir");
			let mut named = ts.clone();
			named.comp = Comp::None; // file names say "uncompressed", the bytes are not
			// the first folder spells some numbers with a leading zero / plus sign (the reader reads names as numbers)
			if let Err(e) = crate::codec::idir::encode(&named, &path, &crate::codec::idir::EncOpts { meta_name: "tiles.json", no_meta: false, stray_files: false, alt_spellings: i == 0, symlinks: false }) {
				rep.inconclusive(&format!("fixture write failed: {e}"));
				return;
			}
			let id = format!("src{i}");
			args.push(format!("[{id}]{}", path.display()));
			served.push(Served { id, ts, container: "directory", flip, swap });
			continue;
		}
		let opts = GenOpts { max_tiles: 60, max_level: 31, formats: vec![(*f, *c)], really_compress: true, ..Default::default() };
		let mut ts = gen::gen_tileset(&mut rng, &opts);
		// two more tiles next to the first one: where the source is compressed, a tile whose decoded content is
		// empty (the stored stream is not); where it is not, tiles that are themselves gzip files / begin with the
		// gzip magic (opaque data carried as it is)
		if let Some(k0) = ts.tiles.keys().next().cloned() {
			let m = ((1u64 << k0.0) - 1) as u32;
			let free: Vec<Key> = [(k0.0, (k0.1 + 1).min(m), k0.2), (k0.0, k0.1, (k0.2 + 1).min(m)), (k0.0, k0.1.saturating_sub(1), k0.2), (k0.0, k0.1, k0.2.saturating_sub(1))].into_iter().filter(|k| !ts.tiles.contains_key(k)).collect();
			let extra: Vec<Vec<u8>> = if *c != Comp::None {
				vec![crate::comp::compress(b"", *c)]
			} else if *f == TileFormat::BIN {
				vec![crate::comp::gzip(b"a tile that is a gzip file: opaque bytes, carried as they are"), [&[0x1fu8, 0x8b, 0x08, 0x00][..], &rng.bytes(30)[..]].concat()]
			} else {
				vec![]
			};
			for (k, v) in free.into_iter().zip(extra) {
				ts.tiles.insert(k, v);
				rep.count("tiles_with_empty_content_or_gzip_magic", 1);
			}
		}
		let sub = dir.join(format!("s{i}"));
		let _ = std::fs::create_dir_all(&sub);
		let path = container_path(&sub, container);
		if *container == "directory" {
			let _ = std::fs::create_dir_all(&path);
		}
		let mut m = MemSource::new(&ts);
		if let Err(e) = guard::block_on(versatiles_container::write_to_filename(&mut m, path.to_str().unwrap())) {
			rep.inconclusive(&format!("fixture write failed: {e:#}"));
			return;
		}
		let id = format!("src{i}");
		args.push(format!("[{id}]{}", path.display()));
		served.push(Served { id, ts, container, flip: false, swap: false });
	}
	if fast {
		args.push("--fast".into());
	}
	// every other pair of cases: a server that logs at trace level (`versatiles -vvvv serve`), as someone
	// chasing a problem would run it
	let tracing = (cx.case / 2) % 2 == 1;
	if tracing {
		rep.count("servers_logging_at_trace_level", 1);
	}
	if group == 3 {
		args.push("--override-input-compression".into());
		args.push(if specs[0].2 == Comp::Gzip { "gzip" } else { "brotli" }.into());
		if flip {
			args.push("--flip-y".into());
		}
		if swap {
			args.push("--swap-xy".into());
		}
		rep.count("servers_with_override_input_compression", 1);
		if flip || swap {
			rep.count("servers_with_override_and_transform", 1);
		}
	}
	cx.progress(&format!("server group {group} fast={fast}"));
	let mut server = match if tracing { Server::start_verbose(&args, &dir) } else { Server::start(&args, &dir) } {
		Ok(s) => s,
		Err(e) => {
			rep.inconclusive(&format!("server start failed: {e}"));
			return;
		}
	};
	rep.count(if fast { "servers_fast" } else { "servers_best" }, 1);
	let budget = cx.tier.pick(1100, 3500);
	let mut bad = 0;
	for n in 0..budget {
		if bad > 15 {
			break;
		}
		let s = &served[n % served.len()];
		let keys: Vec<Key> = s.ts.tiles.keys().cloned().collect();
		let k = s.img(*rng.pick(&keys));
		let lim = ((1u64 << k.0) - 1) as u64;
		// request form
		#[derive(PartialEq, Debug)]
		enum Expect {
			Canonical(Key),
			BadLevel,
			Unparsable,
			Lenient(Option<Key>),
		}
		let ext = *rng.pick(&["", "", ".png", ".pbf", ".jpg", ".xyz", ".json"]);
		let (path, expect): (String, Expect) = match rng.below(15) {
			14 => {
				// percent-encoded octets in the coordinate part: a server may or may not decode them; a 200 must
				// then carry the tile of the decoded coordinate
				match rng.below(3) {
					0 => (format!("{}/%3{}/{}", k.0, k.1 % 10, k.2), Expect::Lenient(if k.1 < 10 { Some(k) } else { None })),
					1 => (format!("{}/{}%2F{}", k.0, k.1, k.2), Expect::Lenient(Some(k))),
					_ => (format!("{}%2f{}%2f{}", k.0, k.1, k.2), Expect::Lenient(Some(k))),
				}
			}
			0..=4 => (format!("{}/{}/{}{ext}", k.0, k.1, k.2), Expect::Canonical(k)),
			5 => {
				let (x, y) = ((k.1 as u64 + rng.below(3)).min(lim) as u32, (k.2 as u64 + rng.below(3)).min(lim) as u32);
				(format!("{}/{}/{}{ext}", k.0, x, y), Expect::Canonical((k.0, x, y)))
			}
			6 => {
				// x / y beyond the level
				let big = *rng.pick(&[lim + 1, lim + 2, u32::MAX as u64, (lim + 1) * 2]);
				let big = big.min(u32::MAX as u64) as u32;
				if rng.bool() {
					(format!("{}/{}/{}{ext}", k.0, big, k.2), Expect::Canonical((k.0, big, k.2)))
				} else {
					(format!("{}/{}/{}{ext}", k.0, k.1, big), Expect::Canonical((k.0, k.1, big)))
				}
			}
			7 => {
				let z = rng.range(32, 255);
				(format!("{z}/{}/{}{ext}", k.1, k.2), Expect::BadLevel)
			}
			8 => {
				let (z, x, y) = match rng.below(6) {
					0 => ("abc".to_string(), k.1.to_string(), k.2.to_string()),
					1 => (k.0.to_string(), "x".to_string(), k.2.to_string()),
					2 => (k.0.to_string(), k.1.to_string(), "y".to_string()),
					3 => ("256".to_string(), k.1.to_string(), k.2.to_string()),
					4 => (k.0.to_string(), "4294967296".to_string(), k.2.to_string()),
					_ => (k.0.to_string(), k.1.to_string(), ".png".to_string()),
				};
				(format!("{z}/{x}/{y}"), Expect::Unparsable)
			}
			9 => (format!("{}/{}/{}abc", k.0, k.1, k.2), Expect::Lenient(Some(k))),
			10 => (format!("{}/+{}/{}", k.0, k.1, k.2), Expect::Lenient(Some(k))),
			11 => (format!("0{}/0{}/0{}{ext}", k.0, k.1, k.2), Expect::Lenient(Some(k))),
			12 => (format!("{}/{}/{}/extra{ext}", k.0, k.1, k.2), Expect::Lenient(Some(k))),
			_ => {
				// an absent coordinate on a level the source has
				let (x, y) = (rng.range(0, lim) as u32, rng.range(0, lim) as u32);
				(format!("{}/{}/{}{ext}", k.0, x, y), Expect::Canonical((k.0, x, y)))
			}
		};
		let target = format!("/tiles/{}/{path}", s.id);
		let (ae, listed) = accept_encoding(&mut rng);
		let headers: Vec<(&str, &str)> = match &ae {
			Some(v) => vec![("Accept-Encoding", v.as_str())],
			None => vec![],
		};
		let r = http::get(server.port, &target, &headers);
		rep.eval();
		let witness = |extra: serde_json::Value| json!({"request": target, "accept_encoding": ae, "mode": if fast {"fast"} else {"best"}, "server_args": args.iter().filter(|a| a.starts_with("--")).cloned().collect::<Vec<_>>(), "container": s.container, "tile_format": format!("{:?}", s.ts.format), "stored_compression": s.ts.comp.name(), "status": r.status, "response_headers": r.headers, "detail": extra});
		if !r.complete {
			bad += 1;
			let alive = server.alive();
			rep.violation(&format!("incomplete-response|{}", match expect { Expect::Canonical(_) => "canonical-coordinate", Expect::BadLevel => "z>=32", Expect::Unparsable => "unparsable", Expect::Lenient(_) => "lenient-form" }), "no complete HTTP response (dropped / short connection)", witness(json!({"problem": r.problem, "server_alive": alive, "server_panics": server.panics().into_iter().rev().take(2).collect::<Vec<_>>()})));
			if !alive {
				break;
			}
			continue;
		}
		match r.status {
			200 => rep.count("responses_200", 1),
			404 => rep.count("responses_404", 1),
			400 => rep.count("responses_400", 1),
			_ => rep.count("responses_other", 1),
		}
		rep.nontrivial(fnv(format!("{target}|{ae:?}|{fast}").as_bytes()));
		let stored = |k: &Key| s.pre(k).and_then(|p| s.ts.tiles.get(&p));
		let mut check_200 = |k: &Key, rep: &mut Report| {
			let Some(tile) = stored(k) else {
				rep.violation("status|200-for-absent-tile", "200 although the source holds no tile at the coordinate", witness(json!({"coordinate": format!("{k:?}")})));
				return;
			};
			let raw = comp::decompress(tile, s.ts.comp).unwrap();
			match r.decoded_body() {
				Err(e) => rep.violation("body|not-decodable-with-content-encoding", "body does not decode with the response's Content-Encoding", witness(json!({"error": e}))),
				Ok(b) => {
					if b != raw {
						rep.violation("body|differs-from-stored-tile", "decoded body differs from the decoded stored tile", witness(json!({"expected_len": raw.len(), "got_len": b.len()})));
					}
				}
			}
			let ct = r.header("content-type").unwrap_or("").split(';').next().unwrap_or("").trim().to_ascii_lowercase();
			if !media_types(s.ts.format).contains(&ct.as_str()) {
				rep.violation("content-type|wrong", "Content-Type is not the tile format's media type", witness(json!({"content_type": ct})));
			}
			if let Some(ce) = r.header("content-encoding") {
				let ce = ce.trim().to_ascii_lowercase();
				match ce.as_str() {
					"gzip" => rep.count("responses_with_content_encoding_gzip", 1),
					"br" => rep.count("responses_with_content_encoding_br", 1),
					_ => {}
				}
				if ce != "identity" && !listed.iter().any(|l| l == &ce) {
					rep.violation("content-encoding|not-listed-by-client", "Content-Encoding is an encoding the client did not list", witness(json!({"content_encoding": ce, "client_listed": listed})));
				}
			} else {
				rep.count("responses_without_content_encoding", 1);
			}
		};
		match &expect {
			Expect::Canonical(k) => match (r.status, stored(k).is_some()) {
				(200, _) => check_200(k, rep),
				(404, false) => {}
				(404, true) => rep.violation("status|404-for-stored-tile", "404 although the source holds the tile", witness(json!({}))),
				(st, has) => rep.violation(&format!("status|{st}-for-parseable-coordinate"), "a well-formed coordinate must be answered 200 or 404", witness(json!({"tile_stored": has}))),
			},
			Expect::BadLevel => {
				if r.status != 400 && r.status != 404 {
					rep.violation("status|z>=32", "zoom beyond 31 must give 400 or 404", witness(json!({})));
				}
			}
			Expect::Unparsable => {
				if r.status != 400 {
					rep.violation("status|unparsable-not-400", "a coordinate that cannot be parsed must give 400", witness(json!({})));
				}
			}
			Expect::Lenient(k) => {
				if r.status == 200 {
					if let Some(k) = k {
						check_200(k, rep);
					}
				} else if r.status != 400 && r.status != 404 {
					rep.violation("status|lenient-form", "unexpected status for a loosely written coordinate", witness(json!({})));
				}
			}
		}
		if rep.wants_sample() && r.status == 200 && ae.is_some() {
			rep.sample(json!({"request": target, "accept_encoding": ae, "mode": if fast {"fast"} else {"best"}, "status": r.status, "content_encoding": r.header("content-encoding"), "content_type": r.header("content-type"), "body_len": r.body.len()}));
		}
	}
	let panics = server.panics();
	if !panics.is_empty() {
		rep.note(&format!("server printed panics: {}", panics[0].chars().take(200).collect::<String>()));
	}
	drop(server);
	let _ = std::fs::remove_dir_all(&dir);
}
