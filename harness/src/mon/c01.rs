//! C01 — container round trip is lossless for every tile set and every format.
//!
//! generated tile set -> repo writer -> (a) repo reader: lookups over a superset of coordinates
//! and streams of the advertised level boxes must give back exactly the source mapping and the
//! declared format / compression; (b) independent decoder on the produced bytes must recover the
//! same mapping.

use crate::check::{self, ReaderCheckOpts};
use crate::codec;
use crate::gen::{self, GenOpts, MemSource, TileSet};
use crate::guard;
use crate::report::{Plan, Report, Tier};
use crate::rng::Rng;
use crate::shard::{CaseCtx, MonitorDef};
use serde_json::json;
use std::path::Path;
use versatiles_container::*;
use versatiles_core::io::{DataReaderBlob, DataWriterBlob};
use versatiles_core::types::*;

pub fn def() -> MonitorDef {
	MonitorDef { id: "C01", plan, run_case, finalize }
}

pub const TARGETS: [&str; 5] = ["versatiles", "pmtiles", "mbtiles", "tar", "directory"];

fn plan(tier: Tier, _seed: u64) -> Plan {
	Plan {
		cases: tier.pick(150, 2000),
		shards: 14,
		case_timeout_s: 600,
		level: "exploration",
		rule: "one case = (generated tile set, target format, (tile format, compression) pair the target accepts, advertised coverage exact or widened, stream implementation of the source). Shapes: single, dense, sparse, diagonal, off-centre extremes, ring, L, clusters across the 256 grid, level borders, zoom gaps, levels up to 31, payload sizes around 1000 bytes, duplicates; a few cases with > 16384 tiles on one level. Non-trivial: >= 3 tiles and (crosses the 256 grid | fill < 50% | duplicate payloads | zoom gap | > 16384 tiles | level >= 30); distinct by fingerprint of (tile set, target)".into(),
		assumptions: vec![
			"independent decoders (harness/src/codec) implement the published versatiles v02, PMTiles v3, MBTiles, tar and directory layouts".into(),
			"MBTiles is exercised only with its four legal (format, compression) pairs, PMTiles with the five tile types it can express".into(),
		],
		min_evaluations: 100,
		exhaustive: false,
		timeouts_excluded: false,
	}
}

fn finalize(_t: Tier, _p: &Plan, rep: &mut Report) {
	for t in TARGETS {
		if rep.counter(&format!("roundtrips_{t}")) == 0 {
			rep.inconclusive(&format!("no round trip executed for {t}"));
		}
	}
	if rep.counter("leaf_directory_cases") == 0 {
		rep.inconclusive("no PMTiles case with leaf directories");
	}
	if rep.counter("dedup_shared_ranges") == 0 {
		rep.inconclusive("no versatiles case with de-duplicated payloads");
	}
}

pub fn pairs_for(target: &str) -> Vec<(TileFormat, crate::comp::Comp)> {
	match target {
		"mbtiles" => gen::mbtiles_pairs(),
		"pmtiles" => gen::pmtiles_pairs(),
		_ => gen::all_format_pairs(),
	}
}

/// > 16384 tiles on one level (forces PMTiles leaf directories, several versatiles blocks)
pub fn big_tileset(rng: &mut Rng, target: &str) -> TileSet {
	let (format, comp) = *rng.pick(&pairs_for(target));
	let mut tiles = std::collections::BTreeMap::new();
	let z = 9u8;
	let (x0, y0) = (190u32, 200u32);
	for x in 0..130u32 {
		for y in 0..131u32 {
			let v = if (x + y) % 17 == 0 { b"shared payload".to_vec() } else { format!("T:{z}/{}/{};{}", x0 + x, y0 + y, "x".repeat(((x * 7 + y) % 23) as usize)).into_bytes() };
			tiles.insert((z, x0 + x, y0 + y), v);
		}
	}
	tiles.insert((3, 1, 2), b"low level".to_vec());
	TileSet { format, comp, tiles, tilejson: gen::gen_tilejson(rng, format), shape: "big 130x131 at z9 + z3".into(), really_compressed: false }
}

pub fn container_path(dir: &Path, target: &str) -> std::path::PathBuf {
	if target == "directory" {
		dir.join("tiles_dir")
	} else {
		dir.join(format!("c.{target}"))
	}
}

/// Walk the number of tiles across the point where the PMTiles root directory stops fitting into
/// the first 16 KiB (single directory -> leaf directories): every step is a full round trip.
fn pmtiles_root_boundary_walk(cx: &CaseCtx, rep: &mut Report, rng: &mut Rng) {
	use std::collections::BTreeMap;
	cx.progress("pmtiles root-directory boundary walk");
	let z = 12u8;
	let (x0, y0) = (rng.range(0, 3000) as u32, rng.range(0, 3000) as u32);
	let mut all: Vec<(u32, u32)> = vec![];
	for dx in 0..240u32 {
		for dy in 0..240u32 {
			all.push((x0 + dx, y0 + dy));
		}
	}
	rng.shuffle(&mut all);
	let payload = |x: u32, y: u32, rng: &mut Rng| {
		let n = rng.range(1, 400) as usize;
		let mut v = format!("T:{z}/{x}/{y};").into_bytes();
		v.extend(rng.bytes(n));
		v
	};
	let payloads: Vec<Vec<u8>> = all.iter().take(9000).map(|(x, y)| payload(*x, *y, rng)).collect();
	let make = |n: usize| -> TileSet {
		let tiles: BTreeMap<crate::gen::Key, Vec<u8>> = (0..n).map(|i| ((z, all[i].0, all[i].1), payloads[i].clone())).collect();
		TileSet { format: TileFormat::PNG, comp: crate::comp::Comp::None, tiles, tilejson: "{\"tilejson\":\"3.0.0\"}".into(), shape: format!("{n} scattered tiles at z12 (root-directory boundary walk)"), really_compressed: false }
	};
	let write = |ts: &TileSet| -> Result<Vec<u8>, String> {
		let mut src = MemSource::new(ts);
		let mut w = DataWriterBlob::new().map_err(|e| e.to_string())?;
		guard::block_on(PMTilesWriter::write_to_writer(&mut src, &mut w)).map_err(|e| format!("{e:#}"))?;
		Ok(w.into_blob().into_vec())
	};
	// find the largest n whose file still has no leaf directories
	let (mut lo, mut hi) = (500usize, 8000usize);
	let mut guard_n = 0;
	while hi - lo > 4 && guard_n < 20 {
		guard_n += 1;
		let mid = (lo + hi) / 2;
		let leaf = write(&make(mid)).ok().and_then(|b| codec::ipm::parse_header(&b).ok()).map(|h| h.leaves.1 > 0).unwrap_or(true);
		if leaf {
			hi = mid;
		} else {
			lo = mid;
		}
	}
	rep.count("pmtiles_boundary_walks", 1);
	let mut root_sizes = vec![];
	for n in (lo.saturating_sub(60)..=lo + 60).step_by(3) {
		let ts = make(n);
		rep.eval();
		rep.count("roundtrips_pmtiles", 1);
		let witness = |extra: serde_json::Value| json!({"target": "pmtiles", "tileset": ts.describe(), "detail": extra});
		let r = guard::catch(|| write(&ts));
		let bytes = match r {
			Err(p) => {
				rep.violation(&p.signature("write-pmtiles"), "writing the container panicked", witness(json!({"panic": p.describe()})));
				continue;
			}
			Ok(Err(e)) => {
				rep.violation("pmtiles|write-failed", "writing the container failed", witness(json!({"error": e})));
				continue;
			}
			Ok(Ok(b)) => b,
		};
		if let Ok(h) = codec::ipm::parse_header(&bytes) {
			root_sizes.push(h.root.1);
			rep.max("pmtiles_root_directory_bytes_without_leaves", if h.leaves.1 == 0 { h.root.1 } else { 0 });
			if h.root.0 + h.root.1 > 16384 {
				rep.violation("pmtiles|layout-root-beyond-16k", "PMTiles root directory is not inside the first 16 KiB", witness(json!({"root": [h.root.0, h.root.1]})));
			}
			if h.root.0 + h.root.1 > h.meta.0 && h.meta.0 >= h.root.0 {
				rep.violation("pmtiles|root-overlaps-metadata", "root directory overlaps the metadata section", witness(json!({"root": [h.root.0, h.root.1], "metadata": [h.meta.0, h.meta.1]})));
			}
		}
		rep.nontrivial(ts.fingerprint());
		match codec::ipm::decode(&bytes) {
			Err(e) => rep.violation("pmtiles|decoder-cannot-parse", "an independent decoder cannot parse the written container", witness(json!({"error": e}))),
			Ok(d) => {
				for f in check::compare_decoded(&d, &ts, true) {
					rep.violation(&format!("pmtiles|{}", f.kind), "an independent decoder recovers a different mapping / declaration", witness(f.detail));
				}
			}
		}
		let opened = guard::catch(|| guard::block_on(PMTilesReader::open_reader(Box::new(DataReaderBlob::from(bytes.clone())))));
		match opened {
			Err(p) => rep.violation(&p.signature("open-pmtiles"), "opening the written container panicked", witness(json!({"panic": p.describe()}))),
			Ok(Err(e)) => rep.violation("pmtiles|open-failed|other", "the written container cannot be opened", witness(json!({"error": format!("{e:#}")}))),
			Ok(Ok(reader)) => {
				let o = ReaderCheckOpts { exact_coverage: false, check_streams: false, multi_thread: false, extra_random: 5 };
				let (findings, st) = check::check_reader(&reader, &ts.tiles, rng, &o);
				rep.count("lookups", st.lookups);
				for f in findings {
					rep.violation(&format!("pmtiles|{}", f.kind), "round trip through the repo's reader differs from the source", witness(f.detail));
				}
			}
		}
	}
	if rep.wants_sample() {
		rep.sample(json!({"kind": "pmtiles root-directory boundary walk", "tiles_at_boundary": lo, "root_directory_sizes_seen": root_sizes.iter().take(12).collect::<Vec<_>>()}));
	}
}

fn run_case(cx: &CaseCtx, rep: &mut Report) {
	let mut rng = cx.rng();
	if cx.case == 11 || (cx.case == 12 && cx.tier == Tier::Thorough) {
		pmtiles_root_boundary_walk(cx, rep, &mut rng);
		return;
	}
	if cx.case == 28 {
		empty_tile_set(cx, rep, &mut rng);
		return;
	}
	if cx.tier == Tier::Thorough && (25..=27).contains(&cx.case) {
		beyond_4gib(cx, rep, ["tar", "versatiles", "pmtiles"][(cx.case - 25) as usize]);
		return;
	}
	if (22..=24).contains(&cx.case) || (cx.tier == Tier::Thorough && cx.case % 100 == 99) {
		siblings(cx, rep, &mut rng);
		return;
	}
	if cx.case == 29 || cx.case == 30 {
		many_tiles_on_one_level(cx, rep, &mut rng, if cx.case == 29 { "mbtiles" } else { "tar" });
		return;
	}
	let target = if (13..=15).contains(&cx.case) || cx.case == 20 {
		"pmtiles"
	} else if (16..=18).contains(&cx.case) {
		"mbtiles"
	} else if cx.case == 19 {
		"versatiles"
	} else if cx.case == 21 {
		["tar", "directory", "mbtiles"][(cx.seed % 3) as usize]
	} else {
		TARGETS[(cx.case % 5) as usize]
	};
	let big = cx.case < 10 && (target == "pmtiles" || target == "versatiles") && cx.case < 5 * cx.tier.pick(1, 2);
	let ts = if cx.case == 19 {
		// deep levels, coordinates a power of two apart: tiles 2^24 rows apart in neighbouring block columns (and
		// the blocks between them empty) — anything that folds block coordinates into fewer bits collides here
		let (format, comp) = *rng.pick(&pairs_for(target));
		let mut tiles = std::collections::BTreeMap::new();
		for z in [25u8, 27] {
			let far = 1u32 << 24;
			for (x, y) in [(255u32, far), (256, 0), (255, 0), (256, far), (255, far + 256), (256, 65536 * 3)] {
				tiles.insert((z, x, y), gen::payload_unique(z, x, y, 40, &mut rng));
			}
		}
		TileSet { format, comp, tiles, tilejson: gen::gen_tilejson(&mut rng, format), shape: "z25 / z27: tiles 2^24 rows apart in neighbouring block columns".into(), really_compressed: false }
	} else if cx.case == 20 || cx.case == 21 {
		// one corner (with its inner neighbours) of every level from 24 to 31, the corner rotating from level to level:
		// the last ids of a level in any space-filling order, the largest coordinates there are. (One corner per
		// level keeps the level's box small — the writers walk the 256-grid of that box.)
		let (format, comp) = *rng.pick(&pairs_for(target));
		let mut tiles = std::collections::BTreeMap::new();
		for z in 24..=31u8 {
			let m = ((1u64 << z) - 1) as u32;
			let cluster: [(u32, u32); 3] = match (z as u64 + cx.seed) % 4 {
				0 => [(m, 0), (m - 1, 0), (m, 1)],
				1 => [(0, m), (1, m), (0, m - 1)],
				2 => [(m, m), (m - 1, m), (m, m - 1)],
				_ => [(0, 0), (1, 0), (0, 1)],
			};
			for (x, y) in cluster {
				tiles.insert((z, x, y), gen::payload_unique(z, x, y, 30, &mut rng));
			}
		}
		TileSet { format, comp, tiles, tilejson: gen::gen_tilejson(&mut rng, format), shape: "corners of the levels 24..31".into(), really_compressed: false }
	} else if (13..=15).contains(&cx.case) {
		// exactly 16383 / 16384 / 16385 directory entries: the writer's single-directory threshold
		let n = 16383 + (cx.case - 13) as usize;
		let mut t = big_tileset(&mut rng, target);
		t.tiles.retain(|k, _| k.0 == 9);
		let keys: Vec<crate::gen::Key> = t.tiles.keys().cloned().collect();
		for k in keys.iter().skip(n) {
			t.tiles.remove(k);
		}
		t.shape = format!("{} tiles at z9 (single-directory threshold)", t.tiles.len());
		t
	} else if (16..=18).contains(&cx.case) {
		// 1999 / 2000 / 4001 tiles on one level: the MBTiles writer inserts in chunks of 2000
		let n = [1999usize, 2000, 4001][(cx.case - 16) as usize];
		let mut t = big_tileset(&mut rng, target);
		t.tiles.retain(|k, _| k.0 == 9);
		let keys: Vec<crate::gen::Key> = t.tiles.keys().cloned().collect();
		for k in keys.iter().skip(n) {
			t.tiles.remove(k);
		}
		t.shape = format!("{} tiles at z9 (insert-chunk boundary)", t.tiles.len());
		t
	} else if big {
		big_tileset(&mut rng, target)
	} else {
		let opts = GenOpts { max_tiles: cx.tier.pick(1200, 4000), formats: pairs_for(target), allow_big: true, ..Default::default() };
		gen::gen_tileset(&mut rng, &opts)
	};
	cx.progress(&format!("{target} {}", ts.shape));
	let dir = cx.fresh_dir("c01");
	let path = container_path(&dir, target);
	if target == "directory" {
		let _ = std::fs::create_dir_all(&path);
	}
	// the target may already exist: an older, larger version of the same tile set (same names, longer files) is
	// written first; nothing of it may shine through afterwards
	let refreshed = !big && !(13..=21).contains(&cx.case) && ts.tiles.len() <= 1500 && rng.chance(0.45);
	// 0: every tile longer; 1: every tile of the same length with other content (fixed-size raster tiles whose
	// values changed); 2: longer, and the older export was larger: it has tiles the new one does not have
	let refresh_kind = if refreshed { (cx.case / 5) % 3 } else { 0 };
	if refreshed {
		let mut old = ts.clone();
		for v in old.tiles.values_mut() {
			if refresh_kind == 1 {
				for b in v.iter_mut() {
					*b = b.wrapping_add(1);
				}
				continue;
			}
			v.extend_from_slice(b" -- stale bytes of an older, longer version of this tile -- ");
			v.extend(std::iter::repeat(b'#').take(200));
		}
		if refresh_kind == 2 {
			let extra: Vec<crate::gen::Key> = ts.bounds().iter().flat_map(|(z, b)| {
				let m = ((1u64 << z) - 1) as u32;
				let mut v = vec![];
				if b.2 < m {
					v.push((*z, b.2 + 1, b.1));
				}
				if b.3 < m {
					v.push((*z, b.0, b.3 + 1));
				}
				v
			}).take(6).collect();
			for k in extra {
				old.tiles.insert(k, b"tile of an older, larger export that the new one does not have".to_vec());
			}
			rep.count(&format!("targets_refreshed_over_a_larger_export_{target}"), 1);
		}
		if old.tilejson.ends_with('}') {
			old.tilejson = format!("{},\"description\":\"{}\"}}", &old.tilejson[..old.tilejson.len() - 1], "older and longer ".repeat(20));
		}
		let mut m = MemSource::new(&old);
		if guard::block_on(versatiles_container::write_to_filename(&mut m, path.to_str().unwrap())).is_err() {
			rep.inconclusive("could not write the older version of the target");
			return;
		}
		rep.count(&format!("targets_refreshed_in_place_{target}"), 1);
	}

	// source: exact or widened advertised coverage; map-walk or default stream implementation
	let widened = !big && rng.chance(0.3);
	let mut pyramid = ts.pyramid();
	if widened {
		let b = rng.range(1, 3) as u32;
		pyramid.add_border(b, b, b, b);
	}
	let mut src = MemSource::with_pyramid(&ts, pyramid);
	src.default_stream = !big && rng.chance(0.3);
	let via_blob = (target == "versatiles" || target == "pmtiles") && rng.chance(0.4);

	let class = if refreshed && refresh_kind == 2 { format!("{target}|over-a-larger-older-export") } else { format!("{target}") };
	let nontrivial = ts.tiles.len() >= 3 && (ts.crosses_block_grid() || ts.fill_ratio() < 0.5 || ts.has_duplicates() || ts.has_zoom_gap() || ts.tiles.len() > 16384 || ts.levels().iter().any(|z| *z >= 30));
	let witness = |extra: serde_json::Value| json!({"target": target, "tileset": ts.describe(), "widened_coverage": widened, "via_blob_writer": via_blob, "target_existed_before": refreshed, "existing_target_kind": refresh_kind, "detail": extra});

	// ---- write
	let mut blob_bytes: Option<Vec<u8>> = None;
	let wr = guard::catch(|| {
		guard::block_on(async {
			if via_blob {
				let mut w = DataWriterBlob::new()?;
				if target == "versatiles" {
					VersaTilesWriter::write_to_writer(&mut src, &mut w).await?;
				} else {
					PMTilesWriter::write_to_writer(&mut src, &mut w).await?;
				}
				Ok::<Option<Vec<u8>>, anyhow::Error>(Some(w.into_blob().into_vec()))
			} else {
				write_to_filename(&mut src, path.to_str().unwrap()).await?;
				Ok(None)
			}
		})
	});
	rep.eval();
	rep.count(&format!("roundtrips_{target}"), 1);
	match wr {
		Err(p) => {
			rep.violation(&p.signature(&format!("write-{target}")), "writing the container panicked", witness(json!({"panic": p.describe()})));
			return;
		}
		Ok(Err(e)) => {
			rep.violation(&format!("{class}|write-failed"), "writing the container failed", witness(json!({"error": format!("{e:#}")})));
			return;
		}
		Ok(Ok(b)) => {
			if let Some(b) = b {
				std::fs::write(&path, &b).unwrap();
				blob_bytes = Some(b);
			}
		}
	}
	if nontrivial {
		rep.nontrivial(ts.fingerprint() ^ crate::rng::fnv(target.as_bytes()));
	}
	rep.label("tile_formats", &format!("{:?}/{}", ts.format, ts.comp.name()));

	// ---- read back with the repo's reader
	let opened = guard::catch(|| {
		guard::block_on(async {
			if let Some(b) = &blob_bytes {
				let r = DataReaderBlob::from(b.clone());
				if target == "versatiles" {
					VersaTilesReader::open_reader(Box::new(r)).await.map(|r| r.boxed())
				} else {
					PMTilesReader::open_reader(Box::new(r)).await.map(|r| r.boxed())
				}
			} else {
				get_reader(path.to_str().unwrap()).await
			}
		})
	});
	match opened {
		Err(p) => rep.violation(&p.signature(&format!("open-{target}")), "opening the written container panicked", witness(json!({"panic": p.describe()}))),
		Ok(Err(e)) => {
			let sub = if ts.has_zoom_gap() { "zoom-gap" } else if ts.levels().iter().any(|z| *z >= 30) { "z>=30" } else { "other" };
			rep.violation(&format!("{class}|open-failed|{sub}"), "the written container cannot be opened", witness(json!({"error": format!("{e:#}")})));
		}
		Ok(Ok(reader)) => {
			let o = ReaderCheckOpts { exact_coverage: false, check_streams: true, multi_thread: rng.chance(0.3), extra_random: 30 };
			let (findings, st) = check::check_reader(reader.as_ref(), &ts.tiles, &mut rng, &o);
			rep.count("lookups", st.lookups);
			rep.count("streamed_tiles", st.streamed_tiles);
			for f in findings.iter().chain(check::declared_params(reader.as_ref(), ts.format, ts.comp).iter()) {
				let sig = if f.kind.ends_with("panic") { f.detail["sig"].as_str().unwrap_or(&f.kind).to_string() } else { format!("{class}|{}", f.kind) };
				rep.violation(&sig, "round trip through the repo's reader differs from the source", witness(f.detail.clone()));
			}
		}
	}

	// ---- independent decoder on the produced bytes
	let decoded: Result<codec::Decoded, String> = match target {
		"versatiles" => std::fs::read(&path).map_err(|e| e.to_string()).and_then(|b| {
			codec::ivt::decode_info(&b).map(|(d, i)| {
				rep.count("blocks_seen", i.blocks as u64);
				rep.count("dedup_shared_ranges", i.shared_ranges as u64);
				d
			})
		}),
		"pmtiles" => std::fs::read(&path).map_err(|e| e.to_string()).and_then(|b| {
			codec::ipm::decode_info(&b).map(|(d, i)| {
				rep.count("leaf_directories_seen", i.leaf_dirs as u64);
				if i.leaf_dirs > 0 {
					rep.count("leaf_directory_cases", 1);
				}
				if i.header.addressed != ts.tiles.len() as u64 {
					rep.violation("pmtiles|header-addressed-count", "header field 'addressed tiles' differs from the number of tiles", json!({"header": i.header.addressed, "tiles": ts.tiles.len()}));
				}
				d
			})
		}),
		"tar" => std::fs::read(&path).map_err(|e| e.to_string()).and_then(|b| codec::itar::decode(&b)),
		"directory" => codec::idir::decode(&path),
		_ => codec::imb::decode(&path).map(|x| x.0),
	};
	match decoded {
		Err(e) => rep.violation(&format!("{class}|decoder-cannot-parse"), "an independent decoder cannot parse the written container", witness(json!({"error": e}))),
		Ok(d) => {
			for f in check::compare_decoded(&d, &ts, true) {
				rep.violation(&format!("{class}|{}", f.kind), "an independent decoder recovers a different mapping / declaration", witness(f.detail));
			}
			for n in &d.notes {
				if n.contains("stored twice") {
					rep.violation(&format!("{class}|tile-stored-twice"), "the written container stores one tile name twice", witness(json!({"note": n})));
				}
				if n.contains("16 KiB") {
					rep.violation(&format!("{class}|layout-root-beyond-16k"), "PMTiles root directory is not inside the first 16 KiB", witness(json!({"note": n})));
				}
			}
			match &d.meta {
				None if target == "mbtiles" => {}
				None => rep.violation(&format!("{class}|no-metadata"), "written container holds no metadata", witness(json!({}))),
				Some(m) => {
					if target != "mbtiles" && serde_json::from_slice::<serde_json::Value>(m).is_err() {
						rep.violation(&format!("{class}|metadata-not-json"), "stored metadata is not JSON after decoding with the prescribed codec", witness(json!({"meta": String::from_utf8_lossy(m).chars().take(200).collect::<String>()})));
					}
				}
			}
		}
	}
	if rep.wants_sample() && nontrivial {
		rep.sample(json!({"target": target, "tileset": ts.describe(), "widened_coverage": widened, "via_blob_writer": via_blob}));
	}
	let _ = std::fs::remove_dir_all(&dir);
}

/// Conversions that overlap in time, into one folder, under one stem (`c.versatiles`, `c.pmtiles`, `c.mbtiles`,
/// `c.tar`): one tile set per target, one thread per target, sources that yield so that the writers really
/// interleave. Every file afterwards has to be the complete container of its own tile set.
fn siblings(cx: &CaseCtx, rep: &mut Report, rng: &mut Rng) {
	let dir = cx.fresh_dir("c01");
	let mut targets = vec!["versatiles", "pmtiles", "mbtiles", "tar"];
	rng.shuffle(&mut targets);
	targets.truncate(rng.range(2, 4) as usize);
	let sets: Vec<TileSet> = targets.iter().map(|t| gen::gen_tileset(rng, &GenOpts { max_tiles: cx.tier.pick(300, 800), max_level: 14, formats: pairs_for(t), unique_payloads: true, ..Default::default() })).collect();
	cx.progress(&format!("siblings {targets:?}"));
	let witness = |extra: serde_json::Value| json!({"scenario": "conversions into sibling targets at the same time", "targets": targets, "tilesets": sets.iter().map(|t| t.describe()).collect::<Vec<_>>(), "detail": extra});
	let barrier = std::sync::Barrier::new(targets.len());
	let results = guard::catch(|| {
		std::thread::scope(|sc| {
			let hs: Vec<_> = targets
				.iter()
				.zip(&sets)
				.map(|(t, ts)| {
					let path = container_path(&dir, t);
					let barrier = &barrier;
					sc.spawn(move || {
						let mut src = MemSource::new(ts);
						src.yields = 1;
						barrier.wait();
						guard::block_on(write_to_filename(&mut src, path.to_str().unwrap())).map_err(|e| format!("{e:#}"))
					})
				})
				.collect();
			hs.into_iter().map(|h| h.join().unwrap_or_else(|_| Err("writer thread panicked".into()))).collect::<Vec<Result<(), String>>>()
		})
	});
	rep.eval();
	rep.count("sibling_conversions", targets.len() as u64);
	let results = match results {
		Err(p) => {
			rep.violation(&p.signature("write-siblings"), "writing sibling containers at the same time panicked", witness(json!({"panic": p.describe()})));
			return;
		}
		Ok(r) => r,
	};
	for ((target, ts), r) in targets.iter().zip(&sets).zip(results) {
		rep.eval();
		rep.count(&format!("roundtrips_{target}"), 1);
		if let Err(e) = r {
			rep.violation(&format!("siblings|{target}|write-failed"), "a conversion failed because another one ran next to it", witness(json!({"target": target, "error": e})));
			continue;
		}
		let path = container_path(&dir, target);
		let decoded: Result<codec::Decoded, String> = match *target {
			"versatiles" => std::fs::read(&path).map_err(|e| e.to_string()).and_then(|b| codec::ivt::decode(&b)),
			"pmtiles" => std::fs::read(&path).map_err(|e| e.to_string()).and_then(|b| codec::ipm::decode_info(&b).map(|x| x.0)),
			"tar" => std::fs::read(&path).map_err(|e| e.to_string()).and_then(|b| codec::itar::decode(&b)),
			_ => codec::imb::decode(&path).map(|x| x.0),
		};
		match decoded {
			Err(e) => rep.violation(&format!("siblings|{target}|decoder-cannot-parse"), "an independent decoder cannot parse a container written next to a sibling conversion", witness(json!({"target": target, "error": e}))),
			Ok(d) => {
				for f in check::compare_decoded(&d, ts, true) {
					rep.violation(&format!("siblings|{target}|{}", f.kind), "a container written next to a sibling conversion does not hold its own tile set", witness(f.detail));
				}
			}
		}
		if ts.tiles.len() >= 3 {
			rep.nontrivial(ts.fingerprint() ^ crate::rng::fnv(format!("siblings{target}").as_bytes()));
		}
	}
	// nothing but the targets is left behind
	let mut left: Vec<String> = std::fs::read_dir(&dir).map(|it| it.flatten().map(|e| e.file_name().to_string_lossy().to_string()).collect()).unwrap_or_default();
	left.retain(|n| !targets.iter().any(|t| n == &format!("c.{t}")));
	rep.label("sibling_leftovers", &format!("{left:?}"));
	let _ = std::fs::remove_dir_all(&dir);
}

// ---- containers beyond 4 GiB (thorough tier) -------------------------------------------------

/// a source that makes its tiles when asked (nothing of the 4.4 GiB is kept in memory by the harness)
#[derive(Debug)]
struct GenSource {
	params: TilesReaderParameters,
	tilejson: versatiles_core::tilejson::TileJSON,
	keys: std::collections::BTreeMap<crate::gen::Key, usize>,
}

fn big_fill(k: &crate::gen::Key, size: usize) -> Vec<u8> {
	let mut v = format!("T:{}/{}/{};", k.0, k.1, k.2).into_bytes();
	let mut n: u64 = (k.1 as u64) << 40 | (k.2 as u64) << 20 | size as u64;
	v.reserve(size + 8);
	while v.len() < size {
		v.extend_from_slice(&n.to_le_bytes());
		n = n.wrapping_mul(6364136223846793005).wrapping_add(1442695040888963407);
	}
	v.truncate(size.max(12));
	v
}

#[async_trait::async_trait]
impl TilesReaderTrait for GenSource {
	fn get_source_name(&self) -> &str {
		"generated"
	}
	fn get_container_name(&self) -> &str {
		"mem"
	}
	fn get_parameters(&self) -> &TilesReaderParameters {
		&self.params
	}
	fn override_compression(&mut self, c: TileCompression) {
		self.params.tile_compression = c;
	}
	fn get_tilejson(&self) -> &versatiles_core::tilejson::TileJSON {
		&self.tilejson
	}
	async fn get_tile_data(&self, coord: &TileCoord3) -> anyhow::Result<Option<Blob>> {
		Ok(self.keys.get(&crate::gen::key_of(coord)).map(|size| Blob::from(big_fill(&crate::gen::key_of(coord), *size))))
	}
}

/// 70 tiles of 64 MiB with small tiles between them: the second half of the file lies beyond byte 2^32. Every
/// tile has to come back from the written file — positions and lengths are 64-bit quantities in all formats.
fn beyond_4gib(cx: &CaseCtx, rep: &mut Report, target: &str) {
	let dir = cx.fresh_dir("c01big");
	let path = container_path(&dir, target);
	let z = 12u8;
	let (x0, y0) = (600u32, 900u32);
	let mut keys = std::collections::BTreeMap::new();
	for i in 0..70u32 {
		keys.insert((z, x0 + i % 8, y0 + 2 * (i / 8)), 64usize << 20);
		keys.insert((z, x0 + i % 8, y0 + 2 * (i / 8) + 1), 100 + i as usize);
	}
	let mut pyramid = TileBBoxPyramid::new_empty();
	for k in keys.keys() {
		pyramid.include_coord(&crate::gen::coord_of(k));
	}
	let params = TilesReaderParameters::new(TileFormat::BIN, TileCompression::Uncompressed, pyramid);
	let mut src = GenSource { params, tilejson: Default::default(), keys: keys.clone() };
	cx.progress(&format!("{target}: 4.4 GiB container"));
	let witness = |extra: serde_json::Value| json!({"target": target, "scenario": "70 tiles of 64 MiB and 70 small ones: a container of 4.4 GiB", "detail": extra});
	rep.eval();
	match guard::catch(|| guard::block_on(write_to_filename(&mut src, path.to_str().unwrap()))) {
		Err(p) => {
			rep.violation(&p.signature(&format!("write-big-{target}")), "writing a container beyond 4 GiB panicked", witness(json!({"panic": p.describe()})));
			let _ = std::fs::remove_dir_all(&dir);
			return;
		}
		Ok(Err(e)) => {
			let msg = format!("{e:#}");
			let _ = std::fs::remove_dir_all(&dir);
			if msg.contains("No space left") {
				rep.inconclusive("no space for a 4.4 GiB container");
			} else {
				rep.violation(&format!("{target}|big|write-failed"), "writing a container beyond 4 GiB failed", witness(json!({"error": msg})));
			}
			return;
		}
		Ok(Ok(())) => {}
	}
	let len = std::fs::metadata(&path).map(|m| m.len()).unwrap_or(0);
	rep.count(&format!("containers_beyond_4gib_{target}"), (len > (1u64 << 32)) as u64);
	let checked = guard::catch(|| {
		guard::block_on(async {
			let reader = get_reader(path.to_str().unwrap()).await.map_err(|e| format!("open: {e:#}"))?;
			let mut bad: Vec<String> = vec![];
			let mut n = 0u64;
			for (k, size) in &keys {
				let got = reader.get_tile_data(&crate::gen::coord_of(k)).await;
				n += 1;
				match got {
					Ok(Some(b)) if b.as_slice() == big_fill(k, *size).as_slice() => {}
					Ok(Some(b)) => bad.push(format!("{}/{}/{}: {} bytes, other content (expected {} bytes)", k.0, k.1, k.2, b.len(), (*size).max(12))),
					Ok(None) => bad.push(format!("{}/{}/{}: missing", k.0, k.1, k.2)),
					Err(e) => bad.push(format!("{}/{}/{}: {e:#}", k.0, k.1, k.2)),
				}
				if bad.len() > 5 {
					break;
				}
			}
			// and the small tiles of the last rows through a stream
			let bbox = TileBBox::new(z, x0, y0 + 15, x0 + 7, y0 + 17).unwrap();
			let items = reader.get_bbox_tile_stream(bbox).await.collect().await;
			for (c, b) in items {
				let k = crate::gen::key_of(&c);
				n += 1;
				match keys.get(&k) {
					Some(size) if b.as_slice() == big_fill(&k, *size).as_slice() => {}
					_ => bad.push(format!("stream {}/{}/{}: {} bytes, other content", k.0, k.1, k.2, b.len())),
				}
			}
			Ok::<(u64, Vec<String>), String>((n, bad))
		})
	});
	match checked {
		Err(p) => rep.violation(&p.signature(&format!("read-big-{target}")), "reading a container beyond 4 GiB panicked", witness(json!({"panic": p.describe()}))),
		Ok(Err(e)) => rep.violation(&format!("{target}|big|open-failed"), "a container beyond 4 GiB cannot be opened", witness(json!({"error": e, "file_len": len}))),
		Ok(Ok((n, bad))) => {
			rep.evals(n);
			rep.count("tiles_checked_in_containers_beyond_4gib", n);
			if !bad.is_empty() {
				rep.violation(&format!("{target}|big|tile-differs"), "a tile of a container beyond 4 GiB does not come back as written", witness(json!({"file_len": len, "first_problems": bad})));
			} else if len > (1u64 << 32) {
				rep.nontrivial(crate::rng::fnv(format!("big{target}").as_bytes()));
			}
		}
	}
	let _ = std::fs::remove_dir_all(&dir);
}

/// The empty tile set (a selection that keeps nothing, a source without tiles) is a finite tile set too: every
/// target is written from it. A writer may refuse it with an error; it may not panic, and what it writes
/// successfully has to open and hold no tile.
fn empty_tile_set(cx: &CaseCtx, rep: &mut Report, rng: &mut Rng) {
	let dir = cx.fresh_dir("c01e");
	for target in TARGETS {
		let (format, comp) = *rng.pick(&pairs_for(target));
		let ts = TileSet { format, comp, tiles: Default::default(), tilejson: gen::gen_tilejson(rng, format), shape: "no tiles".into(), really_compressed: false };
		let sub = dir.join(target);
		let _ = std::fs::create_dir_all(&sub);
		let path = container_path(&sub, target);
		if target == "directory" {
			let _ = std::fs::create_dir_all(&path);
		}
		let mut src = MemSource::new(&ts);
		rep.eval();
		rep.count("empty_tile_sets_written", 1);
		let witness = |extra: serde_json::Value| json!({"target": target, "tileset": "no tiles", "tile_format": format!("{format:?}"), "compression": comp.name(), "detail": extra});
		match guard::catch(|| guard::block_on(write_to_filename(&mut src, path.to_str().unwrap()))) {
			Err(p) => {
				rep.violation(&p.signature(&format!("write-empty-{target}")), "writing the empty tile set panicked", witness(json!({"panic": p.describe()})));
				continue;
			}
			Ok(Err(_)) => {
				rep.count("empty_tile_sets_refused_with_an_error", 1);
				continue;
			}
			Ok(Ok(())) => {}
		}
		match guard::catch(|| guard::block_on(async {
			let r = get_reader(path.to_str().unwrap()).await?;
			let mut n = 0;
			for z in 0..4u8 {
				n += r.get_bbox_tile_stream(TileBBox::new_full(z)?).await.collect().await.len();
			}
			anyhow::Ok((n, r.get_parameters().bbox_pyramid.count_tiles()))
		})) {
			Err(p) => rep.violation(&p.signature(&format!("open-empty-{target}")), "opening a container written from the empty tile set panicked", witness(json!({"panic": p.describe()}))),
			Ok(Err(e)) => {
				// (tar / directory / mbtiles carry their tile format in the tiles themselves: without tiles there is nothing to open)
				rep.count("empty_containers_that_do_not_open", 1);
				rep.note(&format!("empty {target} container does not open: {e:#}"));
			}
			Ok(Ok((n, covered))) => {
				if n > 0 || covered > 0 {
					rep.violation(&format!("{target}|empty|tiles-from-nowhere"), "a container written from the empty tile set returns or advertises tiles", witness(json!({"streamed": n, "advertised": covered})));
				}
			}
		}
	}
	let _ = std::fs::remove_dir_all(&dir);
}

/// One level with 90 000 tiles (300 x 300, more than 2^16): whatever a reader or writer does in pages, chunks or
/// batches meets a boundary inside a row here. Every tile by lookup, the whole level by one stream.
fn many_tiles_on_one_level(cx: &CaseCtx, rep: &mut Report, rng: &mut Rng, target: &str) {
	let dir = cx.fresh_dir("c01m");
	let (format, comp) = *rng.pick(&pairs_for(target));
	let z = 9u8;
	let (x0, y0) = (rng.range(0, 200) as u32, rng.range(0, 200) as u32);
	let mut tiles = std::collections::BTreeMap::new();
	for y in 0..300u32 {
		for x in 0..300u32 {
			tiles.insert((z, x0 + x, y0 + y), format!("T:{z}/{}/{};", x0 + x, y0 + y).into_bytes());
		}
	}
	let ts = TileSet { format, comp, tiles, tilejson: gen::gen_tilejson(rng, format), shape: "300 x 300 tiles on z9".into(), really_compressed: false };
	let path = container_path(&dir, target);
	cx.progress(&format!("{target}: 90000 tiles on one level"));
	let mut src = MemSource::new(&ts);
	rep.eval();
	rep.count(&format!("roundtrips_{target}"), 1);
	let witness = |extra: serde_json::Value| json!({"target": target, "tileset": ts.describe(), "detail": extra});
	match guard::catch(|| guard::block_on(write_to_filename(&mut src, path.to_str().unwrap()))) {
		Err(p) => {
			rep.violation(&p.signature(&format!("write-{target}")), "writing the container panicked", witness(json!({"panic": p.describe()})));
			return;
		}
		Ok(Err(e)) => {
			rep.violation(&format!("{target}|write-failed"), "writing the container failed", witness(json!({"error": format!("{e:#}")})));
			return;
		}
		Ok(Ok(())) => {}
	}
	match guard::catch(|| guard::block_on(get_reader(path.to_str().unwrap()))) {
		Err(p) => rep.violation(&p.signature(&format!("open-{target}")), "opening the written container panicked", witness(json!({"panic": p.describe()}))),
		Ok(Err(e)) => rep.violation(&format!("{target}|open-failed|other"), "the written container cannot be opened", witness(json!({"error": format!("{e:#}")}))),
		Ok(Ok(reader)) => {
			let o = ReaderCheckOpts { exact_coverage: false, check_streams: true, multi_thread: false, extra_random: 10 };
			let (findings, st) = check::check_reader(reader.as_ref(), &ts.tiles, rng, &o);
			rep.count("lookups", st.lookups);
			rep.count("streamed_tiles", st.streamed_tiles);
			rep.count("levels_with_more_than_65536_tiles", 1);
			for f in findings.iter() {
				let sig = if f.kind.ends_with("panic") { f.detail["sig"].as_str().unwrap_or(&f.kind).to_string() } else { format!("{target}|{}", f.kind) };
				rep.violation(&sig, "round trip through the repo's reader differs from the source", witness(f.detail.clone()));
			}
			// the whole level in one stream
			let bbox = TileBBox::new(z, x0, y0, x0 + 299, y0 + 299).unwrap();
			match guard::catch(|| guard::block_on(async { reader.get_bbox_tile_stream(bbox).await.collect().await })) {
				Err(p) => rep.violation(&p.signature(&format!("stream-{target}")), "streaming a level of 90000 tiles panicked", witness(json!({"panic": p.describe()}))),
				Ok(items) => {
					let mut seen = std::collections::BTreeSet::new();
					let mut wrong = 0u64;
					for (c, b) in &items {
						let k = crate::gen::key_of(c);
						if !seen.insert(k) || ts.tiles.get(&k).map(|v| v.as_slice()) != Some(b.as_slice()) {
							wrong += 1;
						}
					}
					rep.evals(items.len() as u64);
					if wrong > 0 || seen.len() != ts.tiles.len() {
						let missing: Vec<String> = ts.tiles.keys().filter(|k| !seen.contains(k)).take(3).map(|k| format!("{}/{}/{}", k.0, k.1, k.2)).collect();
						rep.violation(&format!("{target}|level-stream-incomplete"), "the stream of a level with more than 65536 tiles does not deliver every tile once", witness(json!({"delivered": items.len(), "distinct": seen.len(), "stored": ts.tiles.len(), "wrong_or_repeated": wrong, "first_missing": missing})));
					} else {
						rep.nontrivial(ts.fingerprint() ^ crate::rng::fnv(target.as_bytes()));
					}
				}
			}
		}
	}
	let _ = std::fs::remove_dir_all(&dir);
}
