//! C19 — decoders report malformed input as an error and never bring the process down.
//!
//! Every decoding entry point with an error channel is fed random bytes, mutations of valid
//! encodings (bit flips, inserts, deletes, truncations, splices, length / offset field
//! corruption, multi-byte UTF-8 at arbitrary positions) and a few structured adversaries.
//! Oracle: the call returns Ok or Err. A panic, an abort of the (sharded) child process, or a
//! single allocation request / peak growth above 1 GiB for an input below 1 MiB is a violation.

use crate::alloc;
use crate::codec::{idir, imb, imvt, ipm, itar, ivt};
use crate::comp::Comp;
use crate::gen::{self, coord_of, GenOpts, Key, TileSet};
use crate::guard;
use crate::mvtsrc;
use crate::pipe::{self, Sources, Src};
use crate::report::{Plan, Report, Tier};
use crate::rng::{fnv, Rng};
use crate::shard::{CaseCtx, MonitorDef};
use serde_json::json;
use std::io::Cursor;
use versatiles_container::*;
use versatiles_core::io::DataReaderBlob;
use versatiles_core::json::parse_json_str;
use versatiles_core::tilejson::TileJSON;
use versatiles_core::types::*;
use versatiles_core::utils::read_csv_iter;
use versatiles_geometry::vector_tile::VectorTile;
use versatiles_pipeline::verif::parse_vpl;

pub fn def() -> MonitorDef {
	MonitorDef { id: "C19", plan, run_case, finalize }
}

pub const ENTRIES: [&str; 12] = ["json", "tilejson", "csv", "vpl", "factory", "csvfile", "mvt", "versatiles", "pmtiles", "mbtiles", "tar", "directory"];

fn batches(tier: Tier) -> u64 {
	tier.pick(10, 120)
}

fn plan(tier: Tier, _seed: u64) -> Plan {
	Plan {
		cases: ENTRIES.len() as u64 * batches(tier),
		shards: 14,
		case_timeout_s: 30,
		level: "exploration",
		rule: "one evaluation = one input fed to one entry point: parse_json_str, TileJSON::try_from, read_csv_iter, parse_vpl, PipelineFactory::operation_from_vpl (incl. the CSV data file of vectortiles_update_properties), VectorTile::from_blob (+ feature geometry decoding), VersaTilesReader / PMTilesReader::open_reader + get_tile_data, MBTilesReader / TarTilesReader / DirectoryTilesReader::open_path + get_tile_data. Inputs: random bytes; 1..4 stacked mutations (bit flip, byte replace with structural characters, insert, delete, truncate, splice, 8-byte length/offset overwrite with extreme values at header-field offsets and at random offsets, multi-byte UTF-8 insertion) of valid encodings from the other properties' generators and independent encoders; semantic corruptions (SQL rows, member names, directory entries); structured adversaries (self-referencing PMTiles leaf directory, announced lengths up to 2^63, nesting depth 256). Runs on a 2 MiB stack. Non-trivial: an input derived from a valid encoding that the entry point rejects, or accepts after mutation; distinct by (entry, input hash)".into(),
		assumptions: vec![
			"each batch runs in its own child process; an abort is attributed to the input announced last; a batch that exceeds its 30 s watchdog is killed, counted (timed_out_cases) and excluded — CPU time is not part of the statement".into(),
			"'out of proportion': a single allocation request or a peak growth above 1 GiB for an input below 1 MiB".into(),
		],
		min_evaluations: 20_000,
		exhaustive: false,
		timeouts_excluded: true,
	}
}

fn finalize(_t: Tier, _p: &Plan, rep: &mut Report) {
	for e in ENTRIES {
		if rep.counter(&format!("inputs_{e}")) == 0 {
			rep.inconclusive(&format!("no input reached entry point {e}"));
		}
	}
	if rep.counter("inputs_rejected") == 0 || rep.counter("inputs_accepted") == 0 {
		rep.inconclusive("the inputs were all accepted or all rejected");
	}
}

// ---- mutation --------------------------------------------------------------------------------

const EXTREMES: [u64; 10] = [0, 1, u64::MAX, 1 << 63, (1 << 63) - 1, u32::MAX as u64, (u32::MAX as u64) + 1, 1 << 40, 0x7fff_ffff, 10_000_000_001];

pub fn mutate(src: &[u8], rng: &mut Rng, text: bool, field_offsets: &[usize]) -> Vec<u8> {
	let mut v = src.to_vec();
	for _ in 0..rng.range(1, 4) {
		let n = v.len();
		match rng.below(10) {
			0 if n > 0 => {
				for _ in 0..rng.range(1, 4) {
					let i = rng.usize_below(n);
					v[i] ^= 1 << rng.below(8);
				}
			}
			1 if n > 0 => {
				let i = rng.usize_below(n);
				v[i] = *rng.pick(&[0u8, 0xff, 0x80, 0x7f, b'"', b'\\', b'[', b'{', b']', b'}', b',', b'\n', b'=', b'|', 0xc3, 0xe2, 0xf0]);
			}
			2 => {
				let i = rng.usize_below(n + 1);
				let ins = rng.bytes_between(1, 9);
				v.splice(i..i, ins);
			}
			3 if n > 1 => {
				let i = rng.usize_below(n);
				let j = (i + rng.range(1, 16) as usize).min(n);
				v.drain(i..j);
			}
			4 if n > 0 => {
				v.truncate(rng.usize_below(n));
			}
			5 if n > 4 => {
				let i = rng.usize_below(n - 2);
				let j = (i + rng.range(1, 64) as usize).min(n);
				let piece = v[i..j].to_vec();
				let k = rng.usize_below(n);
				v.splice(k..k, piece);
			}
			6 | 7 if n >= 8 => {
				// length / offset corruption
				let off = if !field_offsets.is_empty() && rng.chance(0.7) { *rng.pick(field_offsets) } else { rng.usize_below(n - 7) };
				if off + 8 <= v.len() {
					let val = *rng.pick(&EXTREMES);
					let bytes = if rng.bool() { val.to_le_bytes() } else { val.to_be_bytes() };
					let w = *rng.pick(&[1usize, 2, 4, 8]);
					v[off..off + w].copy_from_slice(&bytes[..w]);
				}
			}
			8 if text => {
				let s = *rng.pick(&["ä", "€", "𝄞", "\u{2028}", "\u{feff}"]);
				let i = rng.usize_below(n + 1);
				v.splice(i..i, s.bytes());
			}
			_ if n > 0 => {
				let i = rng.usize_below(n);
				v[i] = rng.next_u64() as u8;
			}
			_ => {}
		}
	}
	v
}

// ---- guarded call ----------------------------------------------------------------------------

struct Outcome {
	accepted: bool,
}

fn guarded(rep: &mut Report, cx: &CaseCtx, entry: &str, class: &str, input_len: usize, witness: impl Fn() -> serde_json::Value, f: impl FnOnce() -> bool) -> Option<Outcome> {
	cx.progress(&format!("{entry}|{class}"));
	rep.eval();
	rep.count(&format!("inputs_{entry}"), 1);
	let start = alloc::window_start();
	let r = guard::catch_strict_thread(f);
	let (peak, largest) = alloc::window_end(start);
	if input_len < (1 << 20) && (largest > (1 << 30) || peak > (1 << 30)) {
		let mut w = witness();
		w["largest_single_request"] = json!(largest);
		w["peak_growth"] = json!(peak);
		rep.violation(&format!("alloc|{entry}|{class}"), "memory requested out of proportion to the input size", w);
	}
	match r {
		Err(p) => {
			let mut w = witness();
			w["panic"] = json!(p.describe());
			rep.violation(&p.signature(entry), "a decoder panicked on malformed input", w);
			None
		}
		Ok(acc) => {
			rep.count(if acc { "inputs_accepted" } else { "inputs_rejected" }, 1);
			Some(Outcome { accepted: acc })
		}
	}
}

/// the same input through the shipped command line: `versatiles probe <file>` has to end with an exit status
/// (0 or an error status) — status 101 is a panic, no status a fatal signal
fn probe_with_binary(rep: &mut Report, cwd: &std::path::Path, file: &str, entry: &str, class: &str, witness: impl Fn() -> serde_json::Value) {
	let Some(bin) = crate::server::binary() else { return };
	let out = std::process::Command::new(&bin).arg("probe").arg(file).current_dir(cwd).stdin(std::process::Stdio::null()).output();
	let Ok(out) = out else { return };
	rep.eval();
	rep.count("inputs_through_the_command_line", 1);
	let code = out.status.code();
	if code == Some(101) || code.is_none() {
		let err = String::from_utf8_lossy(&out.stderr);
		let line = err.lines().find(|l| l.contains("panicked at")).unwrap_or("").to_string();
		let site = line.split("panicked at ").nth(1).map(|s| s.split(':').next().unwrap_or("").rsplit("versatiles").next().unwrap_or("").to_string()).unwrap_or_default();
		let mut w = witness();
		w["command"] = json!(format!("versatiles probe {file}"));
		w["exit_code"] = json!(code);
		w["stderr_tail"] = json!(err.chars().rev().take(600).collect::<String>().chars().rev().collect::<String>());
		rep.violation(&format!("cli|{entry}|{class}|{}", if code.is_none() { "killed-by-signal".to_string() } else { format!("panic{site}") }), "the command line tool was brought down by malformed input", w);
	}
}

fn hexs(b: &[u8]) -> String {
	b.iter().take(160).map(|x| format!("{x:02x}")).collect()
}
fn texts(b: &[u8]) -> String {
	String::from_utf8_lossy(&b[..b.len().min(300)]).to_string()
}

// ---- text entry points -----------------------------------------------------------------------

fn json_seed(rng: &mut Rng) -> String {
	let d = rng.below(4) as u32;
	let v = crate::mon::c17::gen_json(rng, d);
	let mut s = v.stringify();
	if rng.chance(0.3) {
		// escapes and whitespace a foreign encoder might use
		s = s.replace("\"", "\" ").replace("ä", "\\u00e4");
		s.push_str(*rng.pick(&["", " ", "\n", "\\ud834\\udd1e"]));
	}
	s
}

fn run_text(cx: &CaseCtx, rep: &mut Report, rng: &mut Rng, entry: &str, n: usize) {
	for i in 0..n {
		let (seed, class): (Vec<u8>, &str) = match (entry, rng.below(10)) {
			(_, 0) => (rng.bytes_between(0, 199), "random-bytes"),
			("json", 1) => {
				let depth = *rng.pick(&[64usize, 256]);
				let open = if rng.bool() { "[" } else { "{\"a\":" };
				let close = if open == "[" { "]" } else { "}" };
				(format!("{}1{}", open.repeat(depth), close.repeat(depth)).into_bytes(), "deep-nesting")
			}
			("json", _) => (json_seed(rng).into_bytes(), "json-mutation"),
			("tilejson", _) => {
				let opts = GenOpts { max_tiles: 3, max_level: 8, ..Default::default() };
				let ts = gen::gen_tileset(rng, &opts);
				(crate::mon::c17::gen_doc(rng, &ts).text.into_bytes(), "tilejson-mutation")
			}
			("csv", k) => {
				let mut t = mvtsrc::gen_csv(rng).text;
				if k < 4 {
					t = t.replace("with space", "\"quoted, \"\"text\"\"\"").replace("Größe", "\"multi\nline\"");
				}
				(t.into_bytes(), "csv-mutation")
			}
			(_, _) => (crate::mon::c18::random_vpl_text(rng).into_bytes(), "vpl-mutation"),
		};
		let input = if class == "random-bytes" || class == "deep-nesting" || i % 7 == 0 { seed.clone() } else { mutate(&seed, rng, true, &[]) };
		let lossy = String::from_utf8_lossy(&input).to_string();
		let wit = || json!({"entry": entry, "class": class, "input": texts(&input), "input_hex": hexs(&input)});
		let out = match entry {
			"json" => guarded(rep, cx, entry, class, input.len(), wit, || parse_json_str(&lossy).is_ok()),
			"tilejson" => guarded(rep, cx, entry, class, input.len(), wit, || {
				let a = TileJSON::try_from(lossy.as_str()).is_ok();
				let _ = TileJSON::try_from_blob_or_default(&Blob::from(lossy.as_str()));
				a
			}),
			"csv" => guarded(rep, cx, entry, class, input.len(), wit, || match read_csv_iter(Cursor::new(input.clone()), b',') {
				Err(_) => false,
				Ok(it) => it.take(10_000).all(|r| r.is_ok()),
			}),
			_ => guarded(rep, cx, entry, class, input.len(), wit, || parse_vpl(&lossy).is_ok()),
		};
		if let Some(o) = out {
			if class.ends_with("mutation") {
				rep.nontrivial(fnv(&input) ^ fnv(entry.as_bytes()));
			}
			let _ = o.accepted;
		}
	}
}

// ---- pipeline factory ------------------------------------------------------------------------

fn run_factory(cx: &CaseCtx, rep: &mut Report, rng: &mut Rng, n: usize, csv_mode: bool) {
	let dir = cx.fresh_dir("c19f");
	let go = imvt::GenOpts { id_field: Some("osm_id".into()), extreme_values: false, ..Default::default() };
	let vsets = mvtsrc::gen_vector_sets(rng, 2, &go, false, &imvt::EncOpts::default());
	let opts = GenOpts { max_tiles: 30, max_level: 10, formats: vec![(TileFormat::PNG, Comp::None)], ..Default::default() };
	let ts = gen::gen_tileset(rng, &opts);
	let mut sources = Sources::new();
	sources.add_mem("a.x", &ts);
	sources.add_mem("b.x", &ts);
	sources.add("v0.x", Src::Mem { ts: vsets[0].tileset("v0"), pyramid: None, default_stream: false, yields: 0, open_yields: 0 });
	sources.add("v1.x", Src::Mem { ts: vsets[1].tileset("v1"), pyramid: None, default_stream: false, yields: 0, open_yields: 0 });
	let valid = [
		"from_container filename=a.x | filter_zoom min=1 max=5",
		"from_container filename=a.x | filter_bbox bbox=[-10,-20,30,40]",
		"from_overlayed [ from_container filename=a.x, from_container filename=b.x | filter_zoom min=2 ]",
		"from_vectortiles_merged [ from_container filename=v0.x, from_container filename=v1.x ]",
		"from_container filename=v0.x | vectortiles_update_properties data_source_path=\"data.csv\" layer_name=roads id_field_tiles=osm_id id_field_data=id replace_properties=true",
		"from_debug format=pbf",
		"from_debug format=png fast=true | filter_zoom max=3",
	];
	for i in 0..n {
		let csv = mvtsrc::gen_csv(rng).text;
		let (vpl, csv_bytes, class): (String, Vec<u8>, &str) = if csv_mode {
			let c = match rng.below(7) {
				0 => vec![],
				1 => b"id\n".to_vec(),
				2 => format!("id,kind\n1,a,b,c\n2,x\n").into_bytes(),
				4 => {
					// numeric-looking cells beyond the integer / float types
					let cell = *rng.pick(&["99999999999999999999999999", "-99999999999999999999999", "18446744073709551616", "-9223372036854775809", "٣", "-٣٤", "1.٥", ".5", "-.", "1e400", "0.00000000000000000000000000000000000001", "００７"]);
					format!("id,kind,population\nid1,primary,{cell}\n{cell},secondary,5\n").into_bytes()
				}
				3 => rng.bytes_between(0, 119),
				5 => {
					// header cells without a name (trailing / doubled / leading separator, quoted empty cell)
					let t = *rng.pick(&["id,kind,\nid1,primary,\n2,secondary,\n", "id,,kind\nid1,,primary\n", ",id,kind\n,id1,primary\n", "id,\"\",kind\nid1,x,primary\n", ",,,\n,,,\n", "id,kind,,\nid1,a,b,c\n", ",\n,\n"]);
					t.as_bytes().to_vec()
				}
				_ => mutate(csv.as_bytes(), rng, true, &[]),
			};
			(valid[4].to_string(), c, "csv-data-file")
		} else {
			let seed = *rng.pick(&valid);
			let t = if i % 6 == 0 {
				// argument-level corruption: numbers, arity, names
				seed.replace("min=1", *rng.pick(&["min=-1", "min=999", "min=1e3", "min=", "min=[1,2]", "min=31", "min=32", "min=33", "min=64", "min=200", "min=255", "min=256"]))
					.replace("max=5", *rng.pick(&["max=5", "max=0", "max=30", "max=31", "max=32", "max=33", "max=100", "max=255", "max=256", "max=-0"]))
					.replace("min=2", *rng.pick(&["min=2", "min=31", "min=32", "min=40", "min=255"]))
					.replace("max=3", *rng.pick(&["max=3", "max=31", "max=32", "max=99", "max=255"]))
					.replace("bbox=[-10,-20,30,40]", *rng.pick(&["bbox=[1,2,3]", "bbox=[NaN,0,1,1]", "bbox=[10,0,5,1]", "bbox=[-200,-100,200,100]", "bbox=[0,0,0,0]", "bbox=[1e400,0,1,1]", "bbox=\"x\""]))
					.replace("format=pbf", *rng.pick(&["format=gif", "format=", "format=[pbf,png]", "format=\"\\q\""]))
					.replace("layer_name=roads", *rng.pick(&["layer_name=[a,b]", "", "layer_name=\"ünï\""]))
					.replace("data.csv", *rng.pick(&["missing.csv", "", "../data.csv", "data.csv"]))
			} else {
				String::from_utf8_lossy(&mutate(seed.as_bytes(), rng, true, &[])).to_string()
			};
			(t, csv.into_bytes(), "vpl-argument-mutation")
		};
		let _ = std::fs::write(dir.join("data.csv"), &csv_bytes);
		if !csv_mode && i == 0 {
			// pipeline files that name themselves / each other as their source: malformed input like any other
			let _ = std::fs::write(dir.join("self.vpl"), "from_container filename=\"self.vpl\"");
			let _ = std::fs::write(dir.join("ring_a.vpl"), "from_container filename=\"ring_b.vpl\" | filter_zoom max=5");
			let _ = std::fs::write(dir.join("ring_b.vpl"), "from_overlayed [ from_debug format=pbf, from_container filename=\"ring_a.vpl\" ]");
			for (file, class) in [("self.vpl", "vpl-file-naming-itself"), ("ring_a.vpl", "vpl-files-naming-each-other")] {
				let wit = || json!({"entry": "factory", "class": class, "file": file});
				probe_with_binary(rep, &dir, file, "factory", class, wit);
			}
		}
		if !csv_mode && i % 4 == 1 {
			// the pipeline text as a file on disk, opened the way the command line opens a *.vpl: the bytes need not be
			// UTF-8 (a Latin-1 save, a flipped bit, a cut multi-byte character)
			let seed = *rng.pick(&valid);
			let bytes: Vec<u8> = match rng.below(4) {
				0 => seed.replace("pbf", "p\u{e4}f").chars().map(|c| if (c as u32) < 256 { c as u32 as u8 } else { b'?' }).collect(),
				1 => {
					let mut b = format!("{seed} | filter_zoom min=0 # gr\u{fc}\u{df}e\n").into_bytes();
					let at = b.len() - 4;
					b.truncate(at);
					b
				}
				_ => mutate(seed.as_bytes(), rng, false, &[]),
			};
			let file = dir.join("p.vpl");
			let _ = std::fs::write(&file, &bytes);
			let wit = || json!({"entry": "factory", "class": "vpl-file-bytes", "text": texts(&bytes), "hex": hexs(&bytes)});
			let r = guarded(rep, cx, "factory", "vpl-file-bytes", bytes.len(), wit, || {
				guard::block_on(async {
					match versatiles_container::get_reader(file.to_str().unwrap()).await {
						Err(_) => false,
						Ok(reader) => {
							let _ = reader.get_tile_data(&TileCoord3::new(0, 0, 0).unwrap()).await;
							true
						}
					}
				})
			});
			if r.is_some() {
				rep.nontrivial(fnv(&bytes) ^ fnv(b"vplfile"));
				rep.count("vpl_files_opened_from_disk", 1);
			}
		}
		let entry = if csv_mode { "csvfile" } else { "factory" };
		let wit = || json!({"entry": entry, "class": class, "vpl": vpl, "csv": texts(&csv_bytes), "csv_hex": hexs(&csv_bytes)});
		if csv_mode && i % 10 == 0 {
			// the data file behind a pipeline file, through the binary
			let cont = dir.join("v0.versatiles");
			if !cont.exists() {
				let mut m = gen::MemSource::new(&vsets[0].tileset("v0"));
				let _ = guard::block_on(versatiles_container::write_to_filename(&mut m, cont.to_str().unwrap()));
			}
			let _ = std::fs::write(dir.join("q.vpl"), "from_container filename=\"v0.versatiles\" | vectortiles_update_properties data_source_path=\"data.csv\" layer_name=roads id_field_tiles=osm_id id_field_data=id");
			probe_with_binary(rep, &dir, "q.vpl", "csvfile", class, wit);
		}
		let r = guarded(rep, cx, entry, class, vpl.len() + csv_bytes.len(), wit, || {
			guard::block_on(async {
				match pipe::build(&vpl, &sources, Some(&dir)).await {
					Err(_) => false,
					Ok((reader, _)) => {
						// a built pipeline must also answer a lookup without taking the process down
						let k = ts.tiles.keys().next().unwrap();
						let _ = reader.get_tile_data(&coord_of(k)).await;
						if let Some(k) = vsets[0].blobs.keys().next() {
							let _ = reader.get_tile_data(&coord_of(k)).await;
						}
						true
					}
				}
			})
		});
		if r.is_some() {
			rep.nontrivial(fnv(vpl.as_bytes()) ^ fnv(&csv_bytes));
		}
	}
	let _ = std::fs::remove_dir_all(&dir);
}

// ---- vector tiles ----------------------------------------------------------------------------

fn run_mvt(cx: &CaseCtx, rep: &mut Report, rng: &mut Rng, n: usize) {
	for i in 0..n {
		let enc = imvt::EncOpts { dup_keys: rng.bool(), dup_vals: rng.bool(), unused_entries: rng.bool(), foreign_field_order: rng.bool(), split_packed: rng.chance(0.3) };
		let layers = imvt::gen_layers(rng, &imvt::GenOpts::default());
		let seed = imvt::encode_tile(&layers, &enc, rng);
		let (input, class) = match rng.below(8) {
			0 => (rng.bytes_between(0, 99), "random-bytes"),
			1 => {
				// a length prefix announcing far more than there is
				let mut v = vec![0x1a];
				crate::codec::put_varint(&mut v, *rng.pick(&[u64::MAX, 1 << 62, 1 << 40, 1 << 31, 5_000_000_000]));
				v.extend_from_slice(&seed[..seed.len().min(20)]);
				(v, "announced-length")
			}
			2 => {
				// a well-formed tile whose geometry uses extreme deltas / counts
				let mut g = vec![];
				let zz = |v: i64| ((v << 1) ^ (v >> 63)) as u64;
				for _ in 0..rng.range(1, 3) {
					crate::codec::put_varint(&mut g, (rng.range(1, 3) << 3) | *rng.pick(&[1u64, 2]));
					for _ in 0..6 {
						crate::codec::put_varint(&mut g, zz(*rng.pick(&[i64::MAX, i64::MIN, i64::MAX - 1, 1 << 62, -(1 << 62), 5, -5])));
					}
				}
				if rng.bool() {
					crate::codec::put_varint(&mut g, (*rng.pick(&[u64::MAX >> 3, 1 << 40, 1 << 29]) << 3) | 2);
				}
				let l = imvt::WLayer { name: "g".into(), version: 2, extent: *rng.pick(&[4096u32, 0, u32::MAX]), features: vec![imvt::WFeature { id: Some(u64::MAX), gtype: rng.range(1, 3), geom: g, props: vec![] }] };
				(imvt::encode_tile(&[l], &enc, rng), "geometry-extremes")
			}
			_ if i % 9 == 0 => (seed.clone(), "valid"),
			_ => (mutate(&seed, rng, false, &[]), "mvt-mutation"),
		};
		let wit = || json!({"entry": "mvt", "class": class, "input_hex": hexs(&input), "len": input.len()});
		let r = guarded(rep, cx, "mvt", class, input.len(), wit, || match VectorTile::from_blob(&Blob::from(input.clone())) {
			Err(_) => false,
			Ok(t) => {
				for l in &t.layers {
					let _ = l.to_features();
					for f in &l.features {
						let _ = l.decode_tag_ids(&f.tag_ids);
					}
				}
				let _ = t.to_blob();
				// the property-rewriting entry points of a layer (what vectortiles_update_properties runs per tile):
				// both return a Result
				if let Ok(mut t2) = VectorTile::from_blob(&Blob::from(input.clone())) {
					for l in t2.layers.iter_mut() {
						let _ = l.map_properties(|p| p);
					}
				}
				if let Ok(mut t3) = VectorTile::from_blob(&Blob::from(input.clone())) {
					for l in t3.layers.iter_mut() {
						let _ = l.filter_map_properties(Some);
					}
				}
				true
			}
		});
		if r.is_some() && class == "mvt-mutation" {
			rep.nontrivial(fnv(&input));
		}
	}
}

// ---- blob-backed containers ------------------------------------------------------------------

fn small_set(rng: &mut Rng, target: &str) -> TileSet {
	let opts = GenOpts { max_tiles: 40, max_level: 16, formats: crate::mon::c01::pairs_for(target), ..Default::default() };
	gen::gen_tileset(rng, &opts)
}

fn probe_coords(ts: &TileSet, rng: &mut Rng) -> Vec<Key> {
	let mut v: Vec<Key> = ts.tiles.keys().take(6).cloned().collect();
	// coordinates without a tile inside the coverage: neighbours of stored tiles, the corners of each level's box
	for k in ts.tiles.keys().take(4).cloned().collect::<Vec<_>>() {
		let m = ((1u64 << k.0) - 1) as u32;
		v.push((k.0, k.1.saturating_sub(1), k.2));
		v.push((k.0, (k.1 + 1).min(m), (k.2 + 1).min(m)));
	}
	for (z, b) in ts.bounds().into_iter().take(3) {
		v.extend([(z, b.0, b.3), (z, b.2, b.1), (z, b.0, b.1), (z, b.2, b.3)]);
	}
	v.push((0, 0, 0));
	let z = rng.below(32) as u8;
	v.push((z, rng.range(0, (1u64 << z) - 1) as u32, rng.range(0, (1u64 << z) - 1) as u32));
	v
}

fn self_referencing_pmtiles(rng: &mut Rng) -> Vec<u8> {
	// root directory with one leaf pointer; the "leaf" is a directory that points to itself
	let leaf = ipm::ser_dir(&[ipm::Entry { id: 0, offset: 0, length: 0, run: 0 }]);
	// patch the length so that the entry addresses its own bytes
	let mut l = leaf.clone();
	for _ in 0..4 {
		l = ipm::ser_dir(&[ipm::Entry { id: 0, offset: 0, length: l.len() as u64, run: 0 }]);
	}
	let root = ipm::ser_dir(&[ipm::Entry { id: 0, offset: 0, length: l.len() as u64, run: 0 }]);
	let meta = b"{}".to_vec();
	let mut h = vec![];
	h.extend_from_slice(b"PMTiles");
	h.push(3);
	let root_off = 127u64;
	let meta_off = root_off + root.len() as u64;
	let leaves_off = meta_off + meta.len() as u64;
	let data_off = leaves_off + l.len() as u64;
	for v in [root_off, root.len() as u64, meta_off, meta.len() as u64, leaves_off, l.len() as u64, data_off, 0, 1, 1, 1] {
		h.extend_from_slice(&v.to_le_bytes());
	}
	h.extend_from_slice(&[1, 1, 1, 2, 0, rng.below(5) as u8]);
	h.extend_from_slice(&[0u8; 16]);
	h.push(0);
	h.extend_from_slice(&[0u8; 8]);
	let mut out = h;
	out.extend_from_slice(&root);
	out.extend_from_slice(&meta);
	out.extend_from_slice(&l);
	out
}

fn run_blob_container(cx: &CaseCtx, rep: &mut Report, rng: &mut Rng, entry: &str, n: usize) {
	for i in 0..n {
		let ts = small_set(rng, entry);
		let own = rng.bool();
		let seed: Vec<u8> = if entry == "versatiles" {
			if own {
				write_own_blob(&ts, entry).unwrap_or_else(|| ivt::encode(&ts, &ivt::EncOpts::plain(), rng))
			} else {
				ivt::encode(&ts, &ivt::EncOpts::random(rng), rng)
			}
		} else if own {
			write_own_blob(&ts, entry).unwrap_or_else(|| ipm::encode(&ts, &ipm::EncOpts::random(rng, ts.tiles.len()), rng))
		} else {
			let mut o = ipm::EncOpts::random(rng, ts.tiles.len());
			// uncompressed directories let byte mutations reach the directory decoder
			if rng.bool() {
				o.internal = Comp::None;
			}
			ipm::encode(&ts, &o, rng)
		};
		// header field offsets
		let fields: Vec<usize> = if entry == "versatiles" { vec![14, 15, 16, 17, 18, 22, 26, 30, 34, 42, 50, 58] } else { (8..96).step_by(8).chain([96, 97, 98, 99, 100, 101, 102]).collect() };
		let (input, class): (Vec<u8>, &str) = match rng.below(12) {
			0 => (rng.bytes_between(0, 299), "random-bytes"),
			1 if entry == "pmtiles" => (self_referencing_pmtiles(rng), "self-referencing-leaf-directory"),
			2 => {
				// corrupt inside the (decompressed) index structures: re-encode with a tampered directory / index
				if entry == "pmtiles" {
					let mut o = ipm::EncOpts::random(rng, ts.tiles.len());
					o.internal = Comp::None;
					let mut b = ipm::encode(&ts, &o, rng);
					if let Ok(h) = ipm::parse_header(&b) {
						let (s, l) = (h.root.0 as usize, h.root.1 as usize);
						if l > 0 && s + l <= b.len() {
							let m = mutate(&b[s..s + l].to_vec(), rng, false, &[0]);
							let m: Vec<u8> = m.into_iter().chain(std::iter::repeat(0)).take(l).collect();
							b[s..s + l].copy_from_slice(&m);
						}
					}
					(b, "directory-mutation")
				} else {
					(tamper_versatiles_index(&seed, rng), "index-mutation")
				}
			}
			_ if i % 11 == 0 => (seed.clone(), "valid"),
			_ => (mutate(&seed, rng, false, &fields), "container-mutation"),
		};
		let coords = probe_coords(&ts, rng);
		let wit = || json!({"entry": entry, "class": class, "len": input.len(), "header_hex": hexs(&input), "tileset": ts.describe()});
		let via_file = i % 5 == 0;
		let file = cx.scratch.join(format!("c19.{entry}"));
		if via_file {
			let _ = std::fs::write(&file, &input);
		}
		let r = guarded(rep, cx, entry, class, input.len(), wit, || {
			guard::block_on(async {
				let opened: anyhow::Result<Box<dyn TilesReaderTrait>> = if via_file {
					get_reader(file.to_str().unwrap()).await
				} else {
					let rd = Box::new(DataReaderBlob::from(input.clone()));
					if entry == "versatiles" {
						VersaTilesReader::open_reader(rd).await.map(|r| r.boxed())
					} else {
						PMTilesReader::open_reader(rd).await.map(|r| r.boxed())
					}
				};
				match opened {
					Err(_) => false,
					Ok(r) => {
						for k in &coords {
							let _ = r.get_tile_data(&coord_of(k)).await;
						}
						let _ = r.get_tilejson().as_string();
						true
					}
				}
			})
		});
		if r.is_some() && class.ends_with("mutation") {
			rep.nontrivial(fnv(&input) ^ fnv(entry.as_bytes()));
		}
	}
}

fn write_own_blob(ts: &TileSet, target: &str) -> Option<Vec<u8>> {
	use versatiles_core::io::DataWriterBlob;
	let mut src = gen::MemSource::new(ts);
	let mut w = DataWriterBlob::new().ok()?;
	let r = guard::block_on(async {
		if target == "versatiles" {
			VersaTilesWriter::write_to_writer(&mut src, &mut w).await
		} else {
			PMTilesWriter::write_to_writer(&mut src, &mut w).await
		}
	});
	r.ok()?;
	Some(w.into_blob().into_vec())
}

/// re-write a versatiles file with a tampered (re-compressed) block index or tile index
fn tamper_versatiles_index(file: &[u8], rng: &mut Rng) -> Vec<u8> {
	let mut out = file.to_vec();
	let Ok(h) = ivt::parse_header(file) else { return out };
	let Ok(raw) = crate::comp::unbrotli(&file[(h.blocks.0 as usize).min(file.len())..((h.blocks.0 + h.blocks.1) as usize).min(file.len())]) else { return out };
	let mut raw = raw;
	if raw.is_empty() {
		return out;
	}
	match rng.below(7) {
		5 | 6 => {
			// one entry of a block's tile index carries an extreme offset / length: the index is re-compressed, stored
			// at the end of the file and the block record is pointed at it
			let rec = rng.usize_below(raw.len() / 33) * 33;
			if rec + 33 <= raw.len() {
				let u64_at = |b: &[u8], at: usize| u64::from_be_bytes(b[at..at + 8].try_into().unwrap());
				let (off, blobs, ilen) = (u64_at(&raw, rec + 13), u64_at(&raw, rec + 21), u32::from_be_bytes(raw[rec + 29..rec + 33].try_into().unwrap()) as u64);
				let (a, b) = (off.saturating_add(blobs) as usize, off.saturating_add(blobs).saturating_add(ilen) as usize);
				if b <= file.len() && a < b {
					if let Ok(mut idx) = crate::comp::unbrotli(&file[a..b]) {
						if idx.len() >= 12 {
							let e = rng.usize_below(idx.len() / 12) * 12;
							if rng.chance(0.7) {
								idx[e..e + 8].copy_from_slice(&rng.pick(&EXTREMES).to_be_bytes());
							} else {
								idx[e + 8..e + 12].copy_from_slice(&(*rng.pick(&[u32::MAX, 0x7fff_ffff, 0x8000_0000, 1 << 30])).to_be_bytes());
							}
							let c = crate::comp::brotli(&idx);
							let pos = out.len() as u64;
							if pos >= off {
								out.extend_from_slice(&c);
								raw[rec + 21..rec + 29].copy_from_slice(&(pos - off).to_be_bytes());
								raw[rec + 29..rec + 33].copy_from_slice(&(c.len() as u32).to_be_bytes());
							}
						}
					}
				}
			}
		}
		4 => {
			// a block that announces a larger (still legal) extent than its tile index has entries for
			let rec = rng.usize_below(raw.len() / 33) * 33;
			if rec + 13 <= raw.len() {
				match rng.below(3) {
					0 => raw[rec + 11] = 255,
					1 => raw[rec + 12] = 255,
					_ => {
						raw[rec + 9] = 0;
						raw[rec + 10] = 0;
						raw[rec + 11] = raw[rec + 11].saturating_add(rng.range(1, 40) as u8);
						raw[rec + 12] = raw[rec + 12].saturating_add(rng.range(1, 40) as u8);
					}
				}
			}
		}
		0 => {
			// field-level corruption inside one 33-byte record
			let rec = rng.usize_below(raw.len() / 33) * 33;
			let off = rec + *rng.pick(&[0usize, 1, 5, 9, 10, 11, 12, 13, 21, 29]);
			let val = rng.pick(&EXTREMES).to_be_bytes();
			let w = (*rng.pick(&[1usize, 4, 8])).min(raw.len() - off);
			raw[off..off + w].copy_from_slice(&val[8 - w..]);
		}
		1 => raw.truncate(rng.usize_below(raw.len())),
		2 => {
			let dup = raw[..33.min(raw.len())].to_vec();
			raw.extend_from_slice(&dup);
		}
		_ => raw = mutate(&raw, rng, false, &[]),
	}
	let comp = crate::comp::brotli(&raw);
	let pos = out.len() as u64;
	out.extend_from_slice(&comp);
	out[50..58].copy_from_slice(&pos.to_be_bytes());
	out[58..66].copy_from_slice(&(comp.len() as u64).to_be_bytes());
	out
}

// ---- file-backed containers ------------------------------------------------------------------

fn run_mbtiles(cx: &CaseCtx, rep: &mut Report, rng: &mut Rng, n: usize) {
	use r2d2_sqlite::rusqlite::Connection;
	let path = cx.scratch.join("c19.mbtiles");
	for i in 0..n {
		let ts = small_set(rng, "mbtiles");
		let _ = std::fs::remove_file(&path);
		if imb::encode(&ts, &path, &imb::EncOpts::random(rng), rng).is_err() {
			continue;
		}
		let class: &str;
		if i % 3 == 0 {
			// byte-level corruption of the SQLite file
			class = "sqlite-bytes-mutation";
			if let Ok(b) = std::fs::read(&path) {
				let m = if rng.chance(0.2) { rng.bytes_between(0, 4095) } else { mutate(&b, rng, false, &[16, 18, 28, 44, 56, 100, 105]) };
				let _ = std::fs::write(&path, m);
			}
		} else {
			// semantic corruption through SQL
			class = "sql-rows-mutation";
			if let Ok(c) = Connection::open(&path) {
				let stmts: Vec<&str> = vec![
					"UPDATE metadata SET value='gif' WHERE name='format'",
					"DELETE FROM metadata WHERE name='format'",
					"UPDATE metadata SET value=NULL WHERE name='format'",
					"INSERT INTO metadata VALUES ('format','png')",
					"INSERT INTO metadata VALUES ('bounds','a,b,c,d')",
					"INSERT INTO metadata VALUES ('bounds','1,2,3')",
					"INSERT INTO metadata VALUES ('minzoom','300')",
					"INSERT INTO metadata VALUES ('maxzoom','-1')",
					"INSERT INTO metadata VALUES ('json','{not json')",
					"INSERT INTO metadata VALUES ('json','[1,2]')",
					"INSERT INTO metadata VALUES ('json','{\"vector_layers\":5}')",
					"INSERT INTO metadata VALUES (NULL, NULL)",
					"INSERT INTO metadata VALUES ('name', x'ff00fe')",
					"UPDATE tiles SET zoom_level = 40",
					"UPDATE tiles SET zoom_level = -3",
					"UPDATE tiles SET zoom_level = 300 WHERE rowid = 1",
					"UPDATE tiles SET tile_column = -5 WHERE rowid = 1",
					"UPDATE tiles SET tile_column = 4294967296 WHERE rowid = 1",
					"UPDATE tiles SET tile_row = 9999999999 WHERE rowid = 1",
					"UPDATE tiles SET tile_data = NULL",
					"UPDATE tiles SET tile_data = 'text instead of blob'",
					"UPDATE tiles SET zoom_level = 'abc'",
					"UPDATE tiles SET zoom_level = NULL WHERE rowid = 1",
					"UPDATE tiles SET zoom_level = 31, tile_column = 2147483647, tile_row = 0 WHERE rowid = 1",
					// the ends of the 32-bit range next to ordinary rows
					"INSERT INTO tiles (zoom_level, tile_column, tile_row, tile_data) SELECT zoom_level, -2147483648, tile_row, tile_data FROM tiles LIMIT 1; INSERT INTO tiles (zoom_level, tile_column, tile_row, tile_data) SELECT zoom_level, 2147483647, tile_row, tile_data FROM tiles LIMIT 1",
					"INSERT INTO tiles (zoom_level, tile_column, tile_row, tile_data) SELECT zoom_level, tile_column, -2147483648, tile_data FROM tiles LIMIT 1; INSERT INTO tiles (zoom_level, tile_column, tile_row, tile_data) SELECT zoom_level, tile_column, 2147483647, tile_data FROM tiles LIMIT 1",
					"UPDATE tiles SET zoom_level = 2147483647",
					"UPDATE tiles SET zoom_level = -2147483648 WHERE rowid = 1; UPDATE tiles SET zoom_level = -2147483647 WHERE rowid = 2",
					"DELETE FROM tiles",
					"DROP TABLE tiles",
					"DROP TABLE metadata",
					"ALTER TABLE tiles RENAME COLUMN tile_data TO data",
				];
				for _ in 0..rng.range(1, 3) {
					let st: &str = *rng.pick(&stmts[..]);
					let _ = c.execute_batch(st);
				}
			}
		}
		let coords = probe_coords(&ts, rng);
		let wit = || json!({"entry": "mbtiles", "class": class, "tileset": ts.describe(), "file_len": std::fs::metadata(&path).map(|m| m.len()).unwrap_or(0), "metadata": dump_mbtiles(&path)});
		// now and then on a machine with a single CPU (a small VM, `docker --cpus=1`, `taskset -c 0`)
		let one_cpu = i % 7 == 3;
		let r = guarded(rep, cx, "mbtiles", class, 1000, wit, || match {
			let _pin = if one_cpu { Some(guard::OneCpu::new()) } else { None };
			MBTilesReader::open_path(&path)
		} {
			Err(_) => false,
			Ok(r) => {
				guard::block_on(async {
					for k in &coords {
						let _ = r.get_tile_data(&coord_of(k)).await;
					}
				});
				true
			}
		});
		if r.is_some() {
			rep.nontrivial(fnv(format!("mb{}{}", cx.case, i).as_bytes()));
		}
	}
	let _ = std::fs::remove_file(&path);
}

fn dump_mbtiles(path: &std::path::Path) -> String {
	use r2d2_sqlite::rusqlite::Connection;
	let mut s = String::new();
	if let Ok(c) = Connection::open(path) {
		if let Ok(mut st) = c.prepare("SELECT quote(name), quote(value) FROM metadata LIMIT 12") {
			if let Ok(rows) = st.query_map([], |r| Ok(format!("{}={}", r.get::<_, String>(0)?, r.get::<_, String>(1)?))) {
				for r in rows.flatten() {
					s.push_str(&r);
					s.push(';');
				}
			}
		}
		if let Ok(mut st) = c.prepare("SELECT quote(zoom_level), quote(tile_column), quote(tile_row), typeof(tile_data) FROM tiles LIMIT 3") {
			if let Ok(rows) = st.query_map([], |r| Ok(format!("{}/{}/{}:{}", r.get::<_, String>(0)?, r.get::<_, String>(1)?, r.get::<_, String>(2)?, r.get::<_, String>(3)?))) {
				for r in rows.flatten() {
					s.push_str(&r);
					s.push(' ');
				}
			}
		}
	}
	s.chars().take(500).collect()
}

fn run_tar(cx: &CaseCtx, rep: &mut Report, rng: &mut Rng, n: usize) {
	let path = cx.scratch.join("c19.tar");
	for i in 0..n {
		let ts = small_set(rng, "tar");
		let seed = itar::encode(&ts, &itar::EncOpts::random(rng), rng);
		let (input, class): (Vec<u8>, &str) = match rng.below(8) {
			0 => (rng.bytes_between(0, 2047), "random-bytes"),
			1 => {
				// member names that are not UTF-8 / not z/x/y, with a correct checksum
				let mut b = seed.clone();
				let name: &[u8] = *rng.pick(&["1/2/Köln".as_bytes(), "1/2/€1".as_bytes(), "1/2/€12".as_bytes(), "3/4/7.🗺z".as_bytes(), "ä/1/1.png".as_bytes(), "1/ö/1.png".as_bytes(), "1/2/名.png".as_bytes(), "1/2/x.pnä".as_bytes(), "tiles.jsön".as_bytes(), &b"\xff\xfe/1/2.png"[..], b"1/\xc3\x28/3.png", b"a/b/c.png", b"1/2/\xff.png", b"99999/1/1.png", b"1/99999999999/1.png", b"3/4294967295/1.png", b"3/1/4294967295.png", b"31/4294967295/4294967295.png", b"0/5/5.png", b"2/4/0.png", b"30/1073741824/0.png", b"255/0/0.png", b"tiles.json.gz", b"./", b"1//2.png", b"1/2/3.png/"]);
				if b.len() >= 512 {
					for x in b[..100].iter_mut() {
						*x = 0;
					}
					b[..name.len()].copy_from_slice(name);
					for x in b[148..156].iter_mut() {
						*x = b' ';
					}
					let sum: u32 = b[..512].iter().map(|x| *x as u32).sum();
					b[148..156].copy_from_slice(format!("{:06o}\0 ", sum).as_bytes());
				}
				(b, "member-name-mutation")
			}
			_ if i % 9 == 0 => (seed.clone(), "valid"),
			_ if i % 9 == 4 => {
				// archives without a single tile: empty file, end-of-archive marker only, metadata only, stray members only
				let b = match rng.below(4) {
					0 => vec![],
					1 => vec![0u8; 1024],
					2 => {
						let mut o = itar::EncOpts::random(rng);
						o.no_meta = false;
						let mut empty = ts.clone();
						empty.tiles.clear();
						itar::encode(&empty, &o, rng)
					}
					_ => {
						let mut t = ts.clone();
						t.tiles.clear();
						t.tilejson = "not even json".into();
						let mut o = itar::EncOpts::random(rng);
						o.no_meta = false;
						o.meta_name = "tiles.json";
						itar::encode(&t, &o, rng)
					}
				};
				(b, "tar-without-tiles")
			}
			_ => (mutate(&seed, rng, false, &[124, 136, 148, 156, 257]), "tar-mutation"),
		};
		let _ = std::fs::write(&path, &input);
		let coords = probe_coords(&ts, rng);
		let wit = || json!({"entry": "tar", "class": class, "len": input.len(), "first_header_hex": hexs(&input), "first_name": texts(&input[..input.len().min(100)])});
		let r = guarded(rep, cx, "tar", class, input.len(), wit, || match TarTilesReader::open_path(&path) {
			Err(_) => false,
			Ok(r) => {
				guard::block_on(async {
					for k in &coords {
						let _ = r.get_tile_data(&coord_of(k)).await;
					}
				});
				true
			}
		});
		if r.is_some() && class.ends_with("mutation") {
			rep.nontrivial(fnv(&input));
		}
		if i % 25 == 3 {
			probe_with_binary(rep, &cx.scratch, "c19.tar", "tar", class, wit);
		}
	}
	let _ = std::fs::remove_file(&path);
}

fn run_directory(cx: &CaseCtx, rep: &mut Report, rng: &mut Rng, n: usize) {
	use std::os::unix::ffi::OsStrExt;
	for i in 0..n {
		let root = cx.fresh_dir("c19dir");
		let ts = small_set(rng, "directory");
		let _ = idir::encode(&ts, &root, &idir::EncOpts::random(rng));
		let class = "directory-entries-mutation";
		let k = ts.tiles.keys().next().cloned().unwrap_or((0, 0, 0));
		let zdir = root.join(k.0.to_string());
		let xdir = zdir.join(k.1.to_string());
		let what = rng.below(18);
		match what {
			0 => {
				let _ = std::fs::write(root.join(std::ffi::OsStr::from_bytes(b"\xff\xfe.txt")), b"x");
			}
			1 => {
				let _ = std::fs::create_dir_all(zdir.join(std::ffi::OsStr::from_bytes(b"\xff")));
			}
			2 => {
				let _ = std::fs::write(xdir.join(std::ffi::OsStr::from_bytes(b"\xff.png")), b"x");
			}
			3 => {
				let _ = std::fs::write(zdir.join("7"), b"a file where a directory is expected");
			}
			4 => {
				let _ = std::fs::write(root.join("9"), b"a file where a level directory is expected");
			}
			5 => {
				let _ = std::fs::write(root.join("tiles.json"), rng.bytes(40));
			}
			6 => {
				let _ = std::fs::write(root.join("meta.json.gz"), b"not gzip");
				let _ = std::fs::write(root.join("metadata.json.br"), b"not brotli");
			}
			7 => {
				let _ = std::fs::write(xdir.join("5.gif.gz"), b"x");
				let _ = std::fs::write(xdir.join("x.png"), b"x");
				let _ = std::fs::write(xdir.join(".png"), b"x");
			}
			8 => {
				let _ = std::fs::create_dir_all(root.join("300").join("1"));
				let _ = std::fs::write(root.join("300").join("1").join("1.png"), b"x");
			}
			9 => {
				let _ = std::fs::create_dir_all(root.join("40").join("1"));
				let _ = std::fs::write(root.join("40").join("1").join("1.png"), b"x");
			}
			10 => {
				let _ = std::fs::create_dir_all(root.join("1").join("99999999999"));
				let _ = std::fs::write(root.join("1").join("77").join("88.png"), b"x");
				let _ = std::fs::create_dir_all(root.join("1").join("77"));
				let _ = std::fs::write(root.join("1").join("77").join("88.png"), b"x");
			}
			11 => {
				let _ = std::fs::write(root.join("tiles.json"), "{\"bounds\":[1,2],\"vector_layers\":3,\"maxzoom\":\"x\"}");
			}
			13 | 14 => {
				// stray entries with valid multi-byte UTF-8 names on every level
				for name in ["Köln", "€1", "€12", "7.🗺z", "ä", "名.png", "x.pnä", "1.pbf.€", "ö.gz", "🗺", "é.br"] {
					let _ = std::fs::write(xdir.join(name), b"x");
					if rng.chance(0.3) {
						let _ = std::fs::write(root.join(name), b"x");
						let _ = std::fs::create_dir_all(zdir.join(name));
					}
				}
			}
			12 => {
				let _ = std::fs::write(root.join("tiles.json"), b"\"\\u\xff\xff\xff\xff\"".to_vec());
			}
			15 | 16 => {
				// numeric names that are not coordinates of their level (beyond 2^z - 1, up to the largest u32)
				let (z, x, y) = *rng.pick(&[("3", "4294967295", "1"), ("3", "1", "4294967295"), ("31", "4294967295", "4294967295"), ("0", "5", "5"), ("2", "4", "0"), ("30", "1073741824", "0"), ("255", "0", "0")]);
				let ext = xdir.read_dir().ok().and_then(|mut d| d.next()).and_then(|e| e.ok()).map(|e| e.file_name().to_string_lossy().split_once('.').map(|p| p.1.to_string()).unwrap_or_default()).unwrap_or("png".into());
				let _ = std::fs::create_dir_all(root.join(z).join(x));
				let _ = std::fs::write(root.join(z).join(x).join(format!("{y}.{ext}")), b"x");
			}
			_ => {
				// remove everything: empty directory
				let _ = std::fs::remove_dir_all(&root);
				let _ = std::fs::create_dir_all(&root);
			}
		}
		let coords = probe_coords(&ts, rng);
		let wit = || json!({"entry": "directory", "class": class, "mutation": what, "tileset": ts.describe()});
		let r = guarded(rep, cx, "directory", class, 1000, wit, || match DirectoryTilesReader::open_path(&root) {
			Err(_) => false,
			Ok(r) => {
				guard::block_on(async {
					for k in &coords {
						let _ = r.get_tile_data(&coord_of(k)).await;
					}
				});
				true
			}
		});
		if r.is_some() {
			rep.nontrivial(fnv(format!("dir{}{}{}", cx.case, i, what).as_bytes()));
		}
	}
}

fn run_case(cx: &CaseCtx, rep: &mut Report) {
	let seed = cx.seed;
	let case = cx.case;
	let entry = ENTRIES[(case % ENTRIES.len() as u64) as usize];
	let tier = cx.tier;
	// every other round over the entries runs as a process that logs at trace level (`-vvvv`, RUST_LOG=trace)
	guard::trace_logging((case / ENTRIES.len() as u64) % 2 == 1);
	// run on a 2 MiB stack (tokio's worker stack size): "moderate nesting" must fit
	let mut local = Report::new();
	local.current_case = case;
	let res = std::thread::scope(|s| {
		let h = std::thread::Builder::new().stack_size(2 << 20).spawn_scoped(s, || {
			let mut rng = Rng::for_case(seed, "C19", case);
			let r = &mut local;
			let k = tier.pick(1, 1);
			match entry {
				"json" | "tilejson" | "csv" | "vpl" => run_text(cx, r, &mut rng, entry, 1500 * k),
				"factory" => run_factory(cx, r, &mut rng, 250 * k, false),
				"csvfile" => run_factory(cx, r, &mut rng, 250 * k, true),
				"mvt" => run_mvt(cx, r, &mut rng, 1500 * k),
				"versatiles" | "pmtiles" => run_blob_container(cx, r, &mut rng, entry, 600 * k),
				"mbtiles" => run_mbtiles(cx, r, &mut rng, 60 * k),
				"tar" => run_tar(cx, r, &mut rng, 300 * k),
				_ => run_directory(cx, r, &mut rng, 120 * k),
			}
		});
		match h {
			Ok(h) => h.join().is_ok(),
			Err(_) => false,
		}
	});
	if !res {
		local.inconclusive(&format!("batch thread for {entry} died"));
	}
	rep.merge(local);
	if rep.wants_sample() {
		rep.sample(json!({"entry": entry, "case": case, "note": "batch of mutated inputs; see rule"}));
	}
}
