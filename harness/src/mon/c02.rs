//! C02 — bounding-box tile stream equals the single-tile lookups inside the box.
//!
//! For every kind of tile source and many boxes B: collect(stream(B)) must finish without
//! failure and equal {c in B : lookup(c) = Some}, each once, byte-identical, nothing outside B.

use crate::check::{kstr, short};
use crate::gen::{coord_of, key_of, Key};
use crate::guard;
use crate::report::{Plan, Report, Tier};
use crate::rng::{fnv, Rng};
use crate::shard::{CaseCtx, MonitorDef};
use crate::sources::{self, Built, KINDS};
use serde_json::json;
use std::collections::{BTreeMap, BTreeSet};
use versatiles_core::types::*;

pub fn def() -> MonitorDef {
	MonitorDef { id: "C02", plan, run_case, finalize }
}

/// extra cases at the end of the plan: many callers stream (and look up) on one big file-backed reader at once
const CONCURRENT_CASES: u64 = 4;

fn plan(tier: Tier, _seed: u64) -> Plan {
	Plan {
		cases: KINDS as u64 * tier.pick(8, 100) + CONCURRENT_CASES,
		shards: 14,
		case_timeout_s: 900,
		level: "exploration",
		rule: "one evaluation = one (source, box) pair. Sources: the five container readers over files written by the repo's writers and by the independent encoders, the converting reader (all flag combinations, restricted coverage, recompression) over in-memory and file sources, and the pipeline operations from_container, filter_zoom, filter_bbox, from_overlayed, nestings of them, from_debug, from_vectortiles_merged, vectortiles_update_properties. Boxes: every box of zoom 0..3 when the source has tiles there (exhaustive), both empty encodings and the one-dimensional empties on every level touched, and sampled boxes at larger zooms: single tiles, whole levels, boxes straddling block (256) and coverage borders, boxes partly / completely outside the coverage, levels the source does not have. Runs alternate between a current-thread and an 8-worker runtime; every source is also streamed by 8 tasks at once (plus concurrent lookups) and 4 extra cases hammer one big versatiles / PMTiles file (several blocks, leaf directories) with 8 streaming and 2 looking-up callers on OS threads / a 16-worker runtime — each concurrent stream must equal the stream taken alone. Non-trivial: the box holds at least one tile and is not the whole coverage, or is empty / outside; distinct by (source fingerprint, box)".into(),
		assumptions: vec![
			"single-tile lookups are the reference; for boxes with more than 4096 coordinates the lookup side is evaluated on stored tiles, their neighbours and a random sample of the box".into(),
			"boxes are capped at 70 000 coordinates".into(),
		],
		min_evaluations: 5_000,
		exhaustive: false,
		timeouts_excluded: false,
	}
}

fn finalize(t: Tier, _p: &Plan, rep: &mut Report) {
	if matches!(t, Tier::Thorough) && rep.counter("sources_with_more_than_64MiB_in_one_block") == 0 {
		rep.inconclusive("no versatiles source with more than 64 MiB in one block was exercised");
	}
	for k in 0..KINDS {
		if rep.counter(&format!("pairs_{}", sources::kind_name(k))) == 0 {
			rep.inconclusive(&format!("no (source, box) pair evaluated for {}", sources::kind_name(k)));
		}
	}
	if rep.counter("concurrent_streams_on_big_file_readers") == 0 {
		rep.inconclusive("no concurrent streams on a big file-backed reader were taken");
	}
	if rep.counter("empty_boxes") == 0 || rep.counter("boxes_outside_coverage") == 0 || rep.counter("exhaustive_small_boxes") == 0 {
		rep.inconclusive("empty / outside / exhaustive small boxes were not exercised");
	}
}

static SCARCE_RUNS: std::sync::atomic::AtomicU64 = std::sync::atomic::AtomicU64::new(0);

fn raw(level: u8, x_min: u32, y_min: u32, x_max: u32, y_max: u32) -> TileBBox {
	TileBBox { level, x_min, y_min, x_max, y_max, max: ((1u64 << level) - 1) as u32 }
}

fn empties(level: u8) -> Vec<TileBBox> {
	let mut v = vec![TileBBox::new_empty(level).unwrap()];
	let mut e = TileBBox::new_full(level).unwrap();
	e.set_empty();
	v.push(e);
	let max = ((1u64 << level) - 1) as u32;
	if max >= 1 {
		v.push(raw(level, max, 0, max - 1, max));
		v.push(raw(level, 0, max, max, max - 1));
	}
	v
}

fn bstr(b: &TileBBox) -> String {
	format!("{}:[{},{},{},{}]", b.level, b.x_min, b.y_min, b.x_max, b.y_max)
}

/// boxes to try against a source
fn boxes_for(b: &Built, rng: &mut Rng, exhaustive_small: bool, sampled: usize, max_box: u64) -> Vec<(TileBBox, &'static str)> {
	let mut out: Vec<(TileBBox, &'static str)> = vec![];
	let pyramid = b.reader.get_parameters().bbox_pyramid.clone();
	let mut levels: BTreeSet<u8> = b.known.iter().map(|k| k.0).collect();
	for lb in pyramid.iter_levels() {
		levels.insert(lb.level);
	}
	let mut bounds: BTreeMap<u8, (u32, u32, u32, u32)> = BTreeMap::new();
	for k in &b.known {
		let e = bounds.entry(k.0).or_insert((k.1, k.2, k.1, k.2));
		*e = (e.0.min(k.1), e.1.min(k.2), e.2.max(k.1), e.3.max(k.2));
	}
	// exhaustive at small zoom
	if exhaustive_small {
		for z in 0..=3u8 {
			if !levels.contains(&z) && z != 1 {
				continue;
			}
			let n = 1u32 << z;
			for x0 in 0..n {
				for x1 in x0..n {
					for y0 in 0..n {
						for y1 in y0..n {
							out.push((TileBBox::new(z, x0, y0, x1, y1).unwrap(), "exhaustive-small"));
						}
					}
				}
			}
		}
	}
	// empties on every level touched and on a level the source does not have
	let mut lv: Vec<u8> = levels.iter().cloned().collect();
	if let Some(absent) = (0..32u8).find(|z| !levels.contains(z)) {
		lv.push(absent);
		if max_box >= 4096 {
			out.push((TileBBox::new_full(absent.min(6)).unwrap(), "level-without-tiles"));
		}
		let m = ((1u64 << absent) - 1) as u32;
		out.push((TileBBox::new(absent, m / 2, m / 2, (m / 2 + 3).min(m), (m / 2 + 2).min(m)).unwrap(), "level-without-tiles"));
	}
	for z in &lv {
		for e in empties(*z) {
			out.push((e, "empty"));
		}
	}
	// sampled
	let level_list: Vec<u8> = levels.iter().cloned().collect();
	if level_list.is_empty() {
		// no known tiles (from_debug): small boxes anywhere
		for _ in 0..sampled.min(12) {
			let z = *rng.pick(&[0u8, 1, 2, 5, 9, 14, 20, 31]);
			let m = ((1u64 << z) - 1) as u64;
			let x = rng.range(0, m) as u32;
			let y = rng.range(0, m) as u32;
			out.push((TileBBox::new(z, x, y, (x as u64 + rng.below(3)).min(m) as u32, (y as u64 + rng.below(3)).min(m) as u32).unwrap(), "anywhere"));
		}
		return out;
	}
	for _ in 0..sampled {
		let z = *rng.pick(&level_list);
		let m = ((1u64 << z) - 1) as i64;
		let cl = |v: i64| v.clamp(0, m) as u32;
		let lb = pyramid.get_level_bbox(z);
		let bb = bounds.get(&z).cloned().unwrap_or(if lb.is_empty() { (0, 0, 0, 0) } else { (lb.x_min, lb.y_min, lb.x_max, lb.y_max) });
		let (bx0, by0, bx1, by1) = (bb.0 as i64, bb.1 as i64, bb.2 as i64, bb.3 as i64);
		let (bbx, class): (TileBBox, &'static str) = match rng.below(9) {
			0 => {
				// a stored tile
				let ks: Vec<&Key> = b.known.iter().filter(|k| k.0 == z).collect();
				if ks.is_empty() {
					continue;
				}
				let k = **rng.pick(&ks);
				(TileBBox::new(z, k.1, k.2, k.1, k.2).unwrap(), "single-tile")
			}
			1 => (TileBBox::new(z, cl(bx0), cl(by0), cl(bx1), cl(by1)).unwrap(), "whole-coverage"),
			2 => (TileBBox::new(z, cl(bx0 - 2), cl(by0 - 2), cl(bx1 + 2), cl(by1 + 2)).unwrap(), "beyond-coverage"),
			3 => {
				// completely outside
				let w = rng.range(0, 5) as i64;
				if bx1 + 2 + w <= m {
					(TileBBox::new(z, cl(bx1 + 2), cl(by0), cl(bx1 + 2 + w), cl(by1)).unwrap(), "outside")
				} else if bx0 - 2 - w >= 0 {
					(TileBBox::new(z, cl(bx0 - 2 - w), cl(by0), cl(bx0 - 2), cl(by1)).unwrap(), "outside")
				} else {
					continue;
				}
			}
			4 => {
				// straddling a 256-block border near the coverage
				let gx = ((bx0 + bx1) / 2 / 256) * 256;
				let gy = ((by0 + by1) / 2 / 256) * 256;
				(TileBBox::new(z, cl(gx - 2), cl(gy - 2), cl(gx + 1), cl(gy + 1)).unwrap(), "block-border")
			}
			5 => {
				let x0 = rng.range_i(bx0 - 1, bx1 + 1);
				let y0 = rng.range_i(by0 - 1, by1 + 1);
				(TileBBox::new(z, cl(x0), cl(y0), cl(x0 + rng.range_i(0, 40)), cl(y0 + rng.range_i(0, 40))).unwrap(), "partial")
			}
			6 => {
				// a single column / row through the coverage (forces gaps between selected tiles)
				if rng.bool() {
					let x = rng.range_i(bx0, bx1);
					(TileBBox::new(z, cl(x), cl(by0 - 1), cl(x), cl(by1 + 1)).unwrap(), "column")
				} else {
					let y = rng.range_i(by0, by1);
					(TileBBox::new(z, cl(bx0 - 1), cl(y), cl(bx1 + 1), cl(y)).unwrap(), "row")
				}
			}
			7 => {
				if z <= 8 {
					(TileBBox::new_full(z).unwrap(), "whole-level")
				} else {
					continue;
				}
			}
			_ => {
				let x0 = rng.range_i(0, m);
				let y0 = rng.range_i(0, m);
				(TileBBox::new(z, cl(x0), cl(y0), cl(x0 + rng.range_i(0, 20)), cl(y0 + rng.range_i(0, 20))).unwrap(), "random")
			}
		};
		if bbx.count_tiles() <= max_box {
			out.push((bbx, class));
		}
	}
	if max_box < 100 {
		// sources that synthesise tiles (from_debug): most sampled boxes above are too big for them, so add
		// small boxes on fixed levels, the deepest ones included
		for z in [0u8, 1, 7, 16, 30, 31] {
			let m = ((1u64 << z) - 1) as u64;
			let (x, y) = (rng.range(0, m), rng.range(0, m));
			out.push((TileBBox::new(z, x as u32, y as u32, (x + rng.below(2)).min(m) as u32, (y + rng.below(2)).min(m) as u32).unwrap(), "anywhere"));
		}
		out.push((TileBBox::new(31, u32::MAX >> 1, u32::MAX >> 1, u32::MAX >> 1, u32::MAX >> 1).unwrap(), "anywhere"));
	}
	out
}

fn candidates(b: &Built, bbox: &TileBBox, streamed: &[(TileCoord3, Blob)], rng: &mut Rng) -> Vec<Key> {
	if bbox.is_empty() {
		return vec![];
	}
	if bbox.count_tiles() <= 4096 {
		return bbox.iter_coords().map(|c| key_of(&c)).collect();
	}
	let mut s: BTreeSet<Key> = BTreeSet::new();
	let z = bbox.level;
	for k in b.known.range((z, bbox.x_min, 0)..=(z, bbox.x_max, u32::MAX)) {
		if k.2 >= bbox.y_min && k.2 <= bbox.y_max {
			s.insert(*k);
			if k.1 < bbox.x_max {
				s.insert((z, k.1 + 1, k.2));
			}
			if k.2 < bbox.y_max {
				s.insert((z, k.1, k.2 + 1));
			}
		}
	}
	for (c, _) in streamed {
		if bbox.contains3(c) {
			s.insert(key_of(c));
		}
	}
	for _ in 0..300 {
		s.insert((z, rng.range(bbox.x_min as u64, bbox.x_max as u64) as u32, rng.range(bbox.y_min as u64, bbox.y_max as u64) as u32));
	}
	s.into_iter().collect()
}

/// Streams of multi-block / multi-leaf boxes taken by 8 callers at once (OS threads with their own runtimes, or
/// tasks on a 16-worker runtime) while two more callers do lookups: every stream must equal the stream of the
/// same box taken alone. The stream paths gather per-block indexes and tiles through shared caches; anything
/// that pairs results by arrival order only shows under this kind of load.
fn concurrent_case(cx: &CaseCtx, rep: &mut Report, idx: u64) {
	use std::sync::atomic::{AtomicU64, Ordering};
	use std::sync::Arc;
	let mut rng = cx.rng();
	let kind = ["versatiles", "pmtiles"][(idx % 2) as usize];
	let tasks_mode = (idx / 2) % 2 == 1;
	let kname = format!("concurrent:{kind}:{}", if tasks_mode { "tasks" } else { "threads" });
	cx.progress(&kname);
	let dir = cx.fresh_dir("c02c");
	let ts = crate::mon::c01::big_tileset(&mut rng, kind);
	let path = dir.join(format!("c.{kind}"));
	let mut src = crate::gen::MemSource::new(&ts);
	let reader = match guard::catch(|| {
		guard::block_on(versatiles_container::write_to_filename(&mut src, path.to_str().unwrap())).map_err(|e| format!("{e:#}"))?;
		guard::block_on(versatiles_container::get_reader(path.to_str().unwrap())).map_err(|e| format!("{e:#}"))
	}) {
		Ok(Ok(r)) => Arc::new(r),
		_ => {
			rep.inconclusive("could not build the big fixture");
			return;
		}
	};
	// boxes across the 256-tile block borders (x = 256, y = 256 at z9) of the 130 x 131 tile set at (190, 200)
	let boxes: Vec<TileBBox> = (0..10)
		.map(|_| {
			let (x0, y0) = (rng.range(200, 255) as u32, rng.range(210, 255) as u32);
			TileBBox::new(9, x0, y0, x0 + rng.range(10, 60) as u32, y0 + rng.range(10, 60) as u32).unwrap()
		})
		.collect();
	let norm = |v: &Vec<(TileCoord3, Blob)>| {
		let mut x: Vec<(Key, u64)> = v.iter().map(|(c, b)| (key_of(c), fnv(b.as_slice()))).collect();
		x.sort();
		x
	};
	let solo: Vec<Vec<(Key, u64)>> = guard::block_on(async {
		let mut v = vec![];
		for b in &boxes {
			v.push(norm(&reader.get_bbox_tile_stream(b.clone()).await.collect().await));
		}
		v
	});
	if solo.iter().all(|v| v.is_empty()) {
		rep.inconclusive("the big fixture streams nothing");
		return;
	}
	let solo = Arc::new(solo);
	let boxes = Arc::new(boxes);
	// cold starts: a freshly opened reader whose very first streams arrive at the same moment (whatever a reader
	// sets up lazily on its first stream is set up under contention), then one more stream on it alone
	// (a PMTiles stream is a lookup per coordinate: far slower per box, above all under a sanitizer)
	let rounds = if kind == "pmtiles" { cx.tier.pick(6, 24) } else { cx.tier.pick(60, 200) };
	let mut cold_bad: Option<String> = None;
	let cold = guard::catch(|| {
		for round in 0..rounds {
			let Ok(fresh) = guard::block_on(versatiles_container::get_reader(path.to_str().unwrap())) else { break };
			let fresh = Arc::new(fresh);
			// (a spinning gate: the callers leave it within nanoseconds of each other)
			let gate = Arc::new(AtomicU64::new(0));
			let hs: Vec<_> = (0..8usize)
				.map(|t| {
					let (fresh, gate, boxes) = (fresh.clone(), gate.clone(), boxes.clone());
					std::thread::spawn(move || {
						let rt = tokio::runtime::Builder::new_current_thread().enable_all().build().unwrap();
						let w = (t + round) % boxes.len();
						let bbox = boxes[w].clone();
						gate.fetch_add(1, Ordering::SeqCst);
						while gate.load(Ordering::SeqCst) < 8 {
							std::hint::spin_loop();
						}
						let got: Vec<(TileCoord3, Blob)> = rt.block_on(async { fresh.get_bbox_tile_stream(bbox).await.collect().await });
						let mut x: Vec<(Key, u64)> = got.iter().map(|(c, b)| (key_of(c), fnv(b.as_slice()))).collect();
						x.sort();
						(w, x)
					})
				})
				.collect();
			let mut results: Vec<(usize, Vec<(Key, u64)>)> = hs.into_iter().filter_map(|h| h.join().ok()).collect();
			let w = round % boxes.len();
			let after: Vec<(TileCoord3, Blob)> = guard::block_on(async { fresh.get_bbox_tile_stream(boxes[w].clone()).await.collect().await });
			let mut x: Vec<(Key, u64)> = after.iter().map(|(c, b)| (key_of(c), fnv(b.as_slice()))).collect();
			x.sort();
			results.push((w, x));
			for (w, x) in results {
				if x != solo[w] && cold_bad.is_none() {
					cold_bad = Some(format!("round {round}, box {}: {} tiles instead of {}", bstr(&boxes[w]), x.len(), solo[w].len()));
				}
			}
			if cold_bad.is_some() {
				break;
			}
		}
	});
	rep.evals(rounds as u64 * 9);
	rep.count("cold_start_rounds_with_simultaneous_first_streams", rounds as u64);
	match cold {
		Err(p) => rep.violation(&p.signature(&format!("cold-stream-{kname}")), "the first streams on a freshly opened reader, taken at the same moment, panicked", json!({"source": kname, "panic": p.describe()})),
		Ok(()) => {
			if let Some(first) = cold_bad {
				rep.violation(&format!("{kname}|cold-start-streams-differ"), "a stream on a freshly opened reader whose first streams arrived at the same moment differs from the stream taken alone", json!({"source": kname, "first": first, "tileset": ts.describe()}));
			}
		}
	}
	let keys: Arc<Vec<Key>> = Arc::new(ts.tiles.keys().cloned().collect());
	// the PMTiles stream is a lookup per coordinate: far slower per box than the chunked versatiles stream
	let iterations: usize = if kind == "pmtiles" { cx.tier.pick(10, 40) } else { cx.tier.pick(60, 240) };
	let wrong = Arc::new(AtomicU64::new(0));
	let done = Arc::new(AtomicU64::new(0));
	let first_bad: Arc<std::sync::Mutex<Option<String>>> = Arc::new(std::sync::Mutex::new(None));
	let streamer = move |t: usize, reader: Arc<Box<dyn TilesReaderTrait>>, boxes: Arc<Vec<TileBBox>>, solo: Arc<Vec<Vec<(Key, u64)>>>, wrong: Arc<AtomicU64>, done: Arc<AtomicU64>, first_bad: Arc<std::sync::Mutex<Option<String>>>| async move {
		for i in 0..iterations {
			let w = (t * 7 + i) % boxes.len();
			let got = reader.get_bbox_tile_stream(boxes[w].clone()).await.collect().await;
			let mut x: Vec<(Key, u64)> = got.iter().map(|(c, b)| (key_of(c), fnv(b.as_slice()))).collect();
			x.sort();
			done.fetch_add(1, Ordering::SeqCst);
			if x != solo[w] {
				wrong.fetch_add(1, Ordering::SeqCst);
				first_bad.lock().unwrap().get_or_insert_with(|| format!("caller {t}, iteration {i}, box {}: {} tiles instead of {}", bstr(&boxes[w]), x.len(), solo[w].len()));
			}
		}
	};
	let looker = move |t: usize, reader: Arc<Box<dyn TilesReaderTrait>>, keys: Arc<Vec<Key>>| async move {
		for i in 0..iterations * 40 {
			let k = keys[(i * 131 + t * 977) % keys.len()];
			let _ = reader.get_tile_data(&coord_of(&k)).await;
		}
	};
	let r = guard::catch(|| {
		if tasks_mode {
			guard::block_on_mt(16, async {
				let mut hs = vec![];
				for t in 0..8 {
					hs.push(tokio::spawn(streamer(t, reader.clone(), boxes.clone(), solo.clone(), wrong.clone(), done.clone(), first_bad.clone())));
				}
				for t in 0..2 {
					hs.push(tokio::spawn(looker(t, reader.clone(), keys.clone())));
				}
				let mut ok = true;
				for h in hs {
					ok &= h.await.is_ok();
				}
				ok
			})
		} else {
			let mut hs = vec![];
			for t in 0..10usize {
				let (reader, boxes, solo, wrong, done, first_bad, keys) = (reader.clone(), boxes.clone(), solo.clone(), wrong.clone(), done.clone(), first_bad.clone(), keys.clone());
				hs.push(std::thread::spawn(move || {
					let rt = tokio::runtime::Builder::new_current_thread().enable_all().build().unwrap();
					if t < 8 {
						rt.block_on(streamer(t, reader, boxes, solo, wrong, done, first_bad));
					} else {
						rt.block_on(looker(t, reader, keys));
					}
				}));
			}
			hs.into_iter().map(|h| h.join().is_ok()).fold(true, |a, b| a & b)
		}
	});
	rep.evals(done.load(Ordering::SeqCst));
	rep.count("concurrent_streams_on_big_file_readers", done.load(Ordering::SeqCst));
	rep.count(&format!("pairs_{kname}"), done.load(Ordering::SeqCst));
	rep.nontrivial(fnv(kname.as_bytes()) ^ cx.seed);
	match r {
		Err(p) => rep.violation(&p.signature(&format!("stream-{kname}")), "a stream taken while other callers use the same reader panicked", json!({"source": kname, "panic": p.describe()})),
		Ok(false) => rep.violation(&format!("{kname}|caller-died"), "a concurrent caller died (panic inside a stream)", json!({"source": kname, "first": *first_bad.lock().unwrap()})),
		Ok(true) => {
			let w = wrong.load(Ordering::SeqCst);
			if w > 0 {
				rep.violation(&format!("{kname}|concurrent-streams-differ"), "a stream taken while other streams / lookups run on the same reader differs from the stream taken alone", json!({"source": kname, "wrong_streams": w, "of": done.load(Ordering::SeqCst), "first": *first_bad.lock().unwrap(), "tileset": ts.describe()}));
			}
		}
	}
	let _ = std::fs::remove_dir_all(&dir);
}

fn run_case(cx: &CaseCtx, rep: &mut Report) {
	// every fourth case runs as a process that logs at trace level
	guard::trace_logging(cx.case % 4 == 3);
	let plain = KINDS as u64 * cx.tier.pick(8, 100);
	if cx.case >= plain {
		concurrent_case(cx, rep, cx.case - plain);
		return;
	}
	let mut rng = cx.rng();
	let kind = (cx.case % KINDS as u64) as usize;
	let kname = sources::kind_name(kind);
	cx.progress(&format!("build {kname}"));
	let dir = cx.fresh_dir("c02");
	// thorough: a few versatiles sources whose single block exceeds the reader's 64 MiB chunk limit
	let huge = matches!(cx.tier, Tier::Thorough) && kind % 5 == 0 && kind < 10 && (cx.case / KINDS as u64) % 20 == 7;
	sources::FORCE_HUGE.store(huge, std::sync::atomic::Ordering::SeqCst);
	let built = guard::catch(|| sources::build_source(&mut rng, kind, &dir, cx.tier.pick(500, 1500)));
	sources::FORCE_HUGE.store(false, std::sync::atomic::Ordering::SeqCst);
	if huge {
		rep.count("sources_with_more_than_64MiB_in_one_block", 1);
	}
	let b = match built {
		Err(p) => {
			rep.violation(&p.signature(&format!("build-{kname}")), "building / opening the source panicked", json!({"source": kname, "panic": p.describe()}));
			return;
		}
		Ok(Err(e)) => {
			rep.violation(&format!("{kname}|build-failed"), "a valid source could not be built / opened", json!({"source": kname, "error": e}));
			return;
		}
		Ok(Ok(b)) => b,
	};
	let heavy = kname.contains("from_debug");
	let mt = cx.case / KINDS as u64 % 2 == 1;
	let boxes = boxes_for(&b, &mut rng, !heavy, if heavy { 30 } else { cx.tier.pick(60, 120) }, if heavy { 9 } else { 70_000 });
	let src_fp = fnv(b.describe.to_string().as_bytes());
	let mut lookup_cache: BTreeMap<Key, Result<Option<Vec<u8>>, String>> = BTreeMap::new();
	let mut bad = 0;
	for (bbox, class) in boxes {
		if bad > 12 {
			break;
		}
		cx.progress(&format!("{kname} box {}", bstr(&bbox)));
		let reader = &b.reader;
		// now and then a stream over a file-backed container runs while the process has almost no descriptors left
		// (a long-running server, many open sources): it may still open what it opens one at a time
		let scarce = kind < 10 && !kname.ends_with("mbtiles") && rng.chance(if kname.ends_with("directory") { 0.3 } else { 0.05 });
		let fut = async {
			let _few = if scarce { Some(guard::ScarceFds::new(1)) } else { None };
			if _few.as_ref().is_some_and(|f| f.active()) {
				SCARCE_RUNS.fetch_add(1, std::sync::atomic::Ordering::Relaxed);
			}
			reader.get_bbox_tile_stream(bbox.clone()).await.collect().await
		};
		let streamed = guard::catch(|| if mt { guard::block_on_mt(8, fut) } else { guard::block_on(fut) });
		rep.eval();
		rep.count(&format!("pairs_{kname}"), 1);
		rep.count("streams_run_with_scarce_file_descriptors", SCARCE_RUNS.swap(0, std::sync::atomic::Ordering::Relaxed));
		match class {
			"empty" => rep.count("empty_boxes", 1),
			"outside" | "level-without-tiles" => rep.count("boxes_outside_coverage", 1),
			"exhaustive-small" => rep.count("exhaustive_small_boxes", 1),
			"block-border" => rep.count("block_border_boxes", 1),
			"column" | "row" => rep.count("gap_forcing_boxes", 1),
			_ => {}
		}
		let witness = |extra: serde_json::Value| json!({"source": kname, "source_detail": b.describe, "bbox": bstr(&bbox), "box_class": class, "multi_thread_runtime": mt, "scarce_file_descriptors": scarce, "detail": extra});
		let items = match streamed {
			Err(p) => {
				bad += 1;
				let bc = if class == "empty" { "empty-box" } else if class == "outside" || class == "level-without-tiles" || class == "beyond-coverage" { "beyond-coverage" } else { "inside" };
				rep.violation(&format!("{}|{bc}", p.signature(&format!("stream-{kname}"))), "requesting a box as a stream panicked", witness(json!({"panic": p.describe()})));
				continue;
			}
			Ok(v) => v,
		};
		// lookups
		let cands = candidates(&b, &bbox, &items, &mut rng);
		let missing: Vec<Key> = cands.iter().filter(|k| !lookup_cache.contains_key(k)).cloned().collect();
		if !missing.is_empty() {
			let fut = async {
				let mut v = vec![];
				for k in &missing {
					v.push((*k, reader.get_tile_data(&coord_of(k)).await.map(|o| o.map(|b| b.into_vec())).map_err(|e| e.to_string())));
				}
				v
			};
			match guard::catch(|| guard::block_on(fut)) {
				Err(p) => {
					bad += 1;
					rep.violation(&p.signature(&format!("lookup-{kname}")), "a single-tile lookup panicked", witness(json!({"panic": p.describe()})));
					continue;
				}
				Ok(v) => {
					for (k, r) in v {
						lookup_cache.insert(k, r);
					}
				}
			}
		}
		let nonempty_in_box = cands.iter().filter(|k| matches!(lookup_cache.get(k), Some(Ok(Some(_))))).count();
		if (nonempty_in_box > 0 && class != "whole-coverage") || class == "empty" || class == "outside" {
			rep.nontrivial(src_fp ^ fnv(bstr(&bbox).as_bytes()));
		}
		rep.count("tiles_streamed", items.len() as u64);
		// compare
		let mut seen: BTreeSet<Key> = BTreeSet::new();
		let mut first: Option<(String, serde_json::Value)> = None;
		for (c, blob) in &items {
			let k = key_of(c);
			if !bbox.contains3(c) {
				first.get_or_insert(("outside-box".into(), json!({"tile": kstr(&k)})));
				continue;
			}
			if !seen.insert(k) {
				first.get_or_insert(("duplicate".into(), json!({"tile": kstr(&k)})));
				continue;
			}
			let lk = match lookup_cache.get(&k) {
				Some(r) => r.clone(),
				None => guard::block_on(async { reader.get_tile_data(c).await.map(|o| o.map(|b| b.into_vec())).map_err(|e| e.to_string()) }),
			};
			match lk {
				Ok(Some(l)) => {
					if l.as_slice() != blob.as_slice() {
						first.get_or_insert(("bytes-differ".into(), json!({"tile": kstr(&k), "lookup": short(&l), "stream": short(blob.as_slice())})));
					}
				}
				Ok(None) => {
					first.get_or_insert(("stream-has-tile-lookup-has-not".into(), json!({"tile": kstr(&k), "stream": short(blob.as_slice())})));
				}
				Err(e) => {
					first.get_or_insert(("lookup-error".into(), json!({"tile": kstr(&k), "error": e})));
				}
			}
		}
		for k in &cands {
			if let Some(Ok(Some(l))) = lookup_cache.get(k) {
				if !seen.contains(k) {
					first.get_or_insert(("lookup-has-tile-stream-has-not".into(), json!({"tile": kstr(k), "lookup": short(l)})));
					break;
				}
			}
		}
		if let Some((kind_of, detail)) = first {
			bad += 1;
			rep.violation(&format!("{kname}|{kind_of}"), "stream of a box differs from the single-tile lookups inside the box", witness(detail));
		}
		if rep.wants_sample() && nonempty_in_box > 1 && class != "exhaustive-small" {
			rep.sample(json!({"source": kname, "bbox": bstr(&bbox), "box_class": class, "tiles_in_box": nonempty_in_box, "streamed": items.len()}));
		}
	}
	// a generating source: two small streams alive at the same time (the second requested before the first is
	// drained, then drained side by side) deliver what each delivers alone
	if heavy {
		let reader = &b.reader;
		let boxes = [TileBBox::new(3, 0, 0, 3, 3).unwrap(), TileBBox::new(4, 2, 2, 5, 5).unwrap()];
		let norm = |v: &Vec<(TileCoord3, Blob)>| {
			let mut x: Vec<(Key, u64)> = v.iter().map(|(c, b)| (key_of(c), fnv(b.as_slice()))).collect();
			x.sort();
			x
		};
		let r = guard::catch(|| {
			guard::block_on_mt(4, async {
				let solo_a = reader.get_bbox_tile_stream(boxes[0].clone()).await.collect().await;
				let solo_b = reader.get_bbox_tile_stream(boxes[1].clone()).await.collect().await;
				// obtained first, drained later
				let a = reader.get_bbox_tile_stream(boxes[0].clone()).await;
				let bb = reader.get_bbox_tile_stream(boxes[1].clone()).await;
				let late_a = a.collect().await;
				let late_b = bb.collect().await;
				// drained side by side
				let a = reader.get_bbox_tile_stream(boxes[0].clone()).await;
				let bb = reader.get_bbox_tile_stream(boxes[1].clone()).await;
				let (side_a, side_b) = futures::join!(a.collect(), bb.collect());
				(solo_a, solo_b, late_a, late_b, side_a, side_b)
			})
		});
		rep.evals(4);
		rep.count("pairs_of_streams_alive_at_once_on_a_generating_source", 2);
		match r {
			Err(p) => rep.violation(&p.signature(&format!("stream-pair-{kname}")), "two streams of one source alive at the same time panicked", json!({"source": kname, "panic": p.describe()})),
			Ok((sa, sb, la, lb, xa, xb)) => {
				for (what, got, want) in [("obtained first, drained later", &la, &sa), ("obtained first, drained later", &lb, &sb), ("drained side by side", &xa, &sa), ("drained side by side", &xb, &sb)] {
					if norm(got) != norm(want) {
						rep.violation(&format!("{kname}|streams-alive-at-once-differ"), "a stream that is alive together with another stream of the same source differs from the stream taken alone", json!({"source": kname, "source_detail": b.describe, "how": what, "tiles": got.len(), "alone": want.len()}));
						break;
					}
				}
			}
		}
	}
	// stress: many streams (and lookups) of the same reader at once — tokio tasks on 8 workers; every concurrent
	// stream must equal the stream of the same box taken alone
	if !heavy {
		let mut lb: Vec<TileBBox> = b.reader.get_parameters().bbox_pyramid.iter_levels().filter(|l| !l.is_empty() && l.count_tiles() <= 70_000).cloned().collect();
		// prefer boxes that span several 256-tile blocks
		lb.sort_by_key(|l| ((l.x_max / 256 - l.x_min / 256 + 1) as u64 * (l.y_max / 256 - l.y_min / 256 + 1) as u64, l.count_tiles()));
		let picks: Vec<TileBBox> = lb.iter().rev().take(2).cloned().collect();
		if !picks.is_empty() {
			cx.progress(&format!("{kname} concurrent streams"));
			let reader = &b.reader;
			let norm = |v: &Vec<(TileCoord3, Blob)>| {
				let mut x: Vec<(Key, u64)> = v.iter().map(|(c, b)| (key_of(c), fnv(b.as_slice()))).collect();
				x.sort();
				x
			};
			let solo = guard::catch(|| guard::block_on(async {
				let mut v = vec![];
				for p in &picks {
					v.push(reader.get_bbox_tile_stream(p.clone()).await.collect().await);
				}
				v
			}));
			if let Ok(solo) = solo {
				let reference: Vec<Vec<(Key, u64)>> = solo.iter().map(norm).collect();
				let probes: Vec<TileCoord3> = solo.iter().flat_map(|v| v.iter().take(40).map(|(c, _)| *c)).collect();
				for round in 0..cx.tier.pick(2, 4) {
					let fut = async {
						let streams: Vec<_> = (0..8).map(|i| {
							let which = i % picks.len();
							let p = picks[which].clone();
							async move { (which, reader.get_bbox_tile_stream(p).await.collect().await) }
						}).collect();
						let lookups = async {
							for c in &probes {
								let _ = reader.get_tile_data(c).await;
							}
						};
						let (r, _, _) = futures::join!(futures::future::join_all(streams), lookups, async {
							for c in probes.iter().rev() {
								let _ = reader.get_tile_data(c).await;
							}
						});
						r
					};
					match guard::catch(|| guard::block_on_mt(8, fut)) {
						Err(p) => {
							rep.violation(&p.signature(&format!("stream-concurrent-{kname}")), "concurrent streams panicked", json!({"source": kname, "panic": p.describe()}));
							break;
						}
						Ok(all) => {
							rep.count("concurrent_stream_runs", 1);
							if let Some((which, _)) = all.iter().find(|(which, v)| norm(v) != reference[*which]) {
								rep.violation(&format!("{kname}|concurrent-streams-differ"), "a stream taken while other streams / lookups run on the same reader differs from the stream taken alone", json!({"source": kname, "source_detail": b.describe, "bbox": bstr(&picks[*which]), "round": round}));
								break;
							}
						}
					}
				}
			}
		}
	}
	let _ = std::fs::remove_dir_all(&dir);
}
