use crate::shard::MonitorDef;

pub mod c01;
pub mod c02;
pub mod c03;
pub mod c04;
pub mod c05;
pub mod c06;
pub mod c07;
pub mod c08;
pub mod c09;
pub mod c10;
pub mod c11;
pub mod c12;
pub mod c12sys;
pub mod c13;
pub mod c14;
pub mod c15;
pub mod c16;
pub mod c17;
pub mod c18;
pub mod c19;
pub mod c20;

pub fn all() -> Vec<MonitorDef> {
	vec![c01::def(), c02::def(), c03::def(), c04::def(), c05::def(), c06::def(), c07::def(), c08::def(), c09::def(), c10::def(), c11::def(), c12::def(), c13::def(), c14::def(), c15::def(), c16::def(), c17::def(), c18::def(), c19::def(), c20::def()]
}

/// non-property sub-commands (helpers used by the driver)
pub fn special(id: &str, args: &[String]) -> Option<i32> {
	match id {
		"c12-write" => Some(c12sys::child_write(args)),
		"c19-corpus" => Some(crate::fuzzlib::dump_corpus(args)),
		_ => None,
	}
}
