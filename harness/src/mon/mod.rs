use crate::shard::MonitorDef;

pub mod c15;

pub fn all() -> Vec<MonitorDef> {
	vec![c15::def()]
}

/// non-property sub-commands (helpers used by the driver); none yet
pub fn special(_id: &str, _args: &[String]) -> Option<i32> {
	None
}
