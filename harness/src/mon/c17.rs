//! C17 — JSON round trips and containers hand back the TileJSON they were given.
//!
//! (a) generated JSON values: parse(stringify(v)) == v and serde_json reads the text as the same value;
//! (b) generated TileJSON documents written through the versatiles / pmtiles / tar / directory
//!     writers come back unchanged (bounds / zoom range only narrowed);
//! (c) the tiles.json served by the real binary is valid JSON carrying the metadata, a tiles URL
//!     template and bounds / zooms consistent with the coverage.

use crate::comp::Comp;
use crate::gen::{self, GenOpts, MemSource, TileSet};
use crate::guard;
use crate::http;
use crate::mon::c01::container_path;
use crate::report::{Plan, Report, Tier};
use crate::rng::{fnv, Rng};
use crate::server::Server;
use crate::shard::{CaseCtx, MonitorDef};
use serde_json::{json, Value};
use std::collections::BTreeMap;
use versatiles_core::json::{parse_json_str, JsonArray, JsonObject, JsonValue};
use versatiles_core::tilejson::TileJSON;
use versatiles_core::types::*;

pub fn def() -> MonitorDef {
	MonitorDef { id: "C17", plan, run_case, finalize }
}

fn plan(tier: Tier, _seed: u64) -> Plan {
	Plan {
		cases: tier.pick(60, 600),
		shards: 12,
		case_timeout_s: 600,
		level: "exploration",
		rule: "case kinds (round robin): json = 400 generated JSON values each (strings and object keys over all of Unicode incl. control characters, quotes, backslashes, U+2028/9, C1 controls, non-BMP; finite numbers incl. +-0, subnormals, 1e+-308, integers beyond 2^53; nesting to depth 64); container = one generated TileJSON document (string / list / byte values, bounds, center, vector_layers with fields and Unicode text, declared min/max zoom narrower or wider than the tiles) written into versatiles, pmtiles, tar and directory containers and read back; served = the same through `versatiles serve` and GET /tiles/<id>/tiles.json. Non-trivial: a JSON value with a string needing an escape or a non-integer number, a TileJSON document with vector_layers or a zoom declaration that differs from the coverage; distinct by text".into(),
		assumptions: vec![
			"serde_json (built without float_roundtrip) is the 'standard parser': structure and strings are compared exactly, numbers within 1 ULP".into(),
			"keys the server owns in tiles.json: tiles, type, name, format, bounds, minzoom, maxzoom, tilejson".into(),
		],
		min_evaluations: 5_000,
		exhaustive: false,
		timeouts_excluded: false,
	}
}

fn finalize(_t: Tier, _p: &Plan, rep: &mut Report) {
	for k in ["json_values", "json_values_with_escapes_in_keys", "tilejson_roundtrips_versatiles", "tilejson_roundtrips_pmtiles", "tilejson_roundtrips_tar", "tilejson_roundtrips_directory", "served_tiles_json", "documents_with_zoom_declared_beyond_coverage", "documents_with_zoom_declared_inside_coverage"] {
		if rep.counter(k) == 0 {
			rep.inconclusive(&format!("nothing observed for {k}"));
		}
	}
}

// ---- (a) JSON ---------------------------------------------------------------------------------

pub fn gen_string(rng: &mut Rng) -> String {
	let pool: Vec<char> = vec![
		'"', '\\', '/', '\n', '\r', '\t', '\u{8}', '\u{c}', '\u{0}', '\u{1}', '\u{1f}', '\u{7f}', '\u{80}', '\u{9f}', '\u{a0}', '\u{2028}', '\u{2029}', '\u{feff}', '\u{fffd}', '\u{ffff}', '\u{10000}', '\u{1d11e}', '\u{10ffff}', 'ä', '€', '名', 'a', 'b', 'z', '0', ' ', ':', ',', '{', '}', '[', ']', 'u', 'n',
	];
	// invisible / format characters, tag characters (flag emoji), variation selectors, private use, non-characters
	let special: [(u32, u32); 12] = [(0x200B, 0x200F), (0x202A, 0x202E), (0x2060, 0x2069), (0xFE00, 0xFE0F), (0xE000, 0xE010), (0xFFF0, 0xFFFF), (0xE0001, 0xE0001), (0xE0020, 0xE007F), (0xE0100, 0xE01EF), (0x1F3F4, 0x1F3F4), (0xF0000, 0xF0010), (0x10FFF0, 0x10FFFF)];
	let n = rng.below(12) as usize;
	(0..n)
		.map(|_| match rng.below(10) {
			0..=5 => *rng.pick(&pool),
			6 => {
				let (a, b) = *rng.pick(&special);
				char::from_u32(rng.range(a as u64, b as u64) as u32).unwrap_or('x')
			}
			7 => char::from_u32(rng.range(0x10000, 0x10FFFF) as u32).unwrap_or('x'),
			8 => char::from_u32(rng.range(0xE000, 0xFFFF) as u32).unwrap_or('x'),
			_ => char::from_u32(rng.below(0xD7FF) as u32).unwrap_or('x'),
		})
		.collect()
}

fn gen_number(rng: &mut Rng) -> f64 {
	match rng.below(15) {
		// whole numbers around the limits of the integer types and the switch to exponent notation
		12 => *rng.pick(&[9007199254740992.0, 9223372036854775808.0, 18446744073709551616.0, 18446744073709555712.0, 1e19, 2e19, 5e19, 9.9e19, 1e20, 1e21, 1e22, 123456789012345680000.0, 4294967296.0, 4294967295.0]) * if rng.bool() { 1.0 } else { -1.0 },
		13 => (rng.next_u64() as f64) * if rng.chance(0.3) { 4.0 } else { 1.0 },
		14 => (rng.next_u64() >> rng.below(40)) as f64 * if rng.bool() { 1.0 } else { -1.0 },
		0 => 0.0,
		1 => -0.0,
		2 => f64::MIN_POSITIVE,
		3 => 5e-324,
		4 => 1.7976931348623157e308,
		5 => -1e308,
		6 => 9007199254740993.0,
		7 => 1e-308,
		8 => rng.range_i(-1_000_000, 1_000_000) as f64,
		9 => rng.f64_range(-1e6, 1e6),
		10 => f64::from_bits(rng.next_u64() & 0x7FEF_FFFF_FFFF_FFFF) * if rng.bool() { 1.0 } else { -1.0 },
		_ => rng.f64(),
	}
}

pub fn gen_json(rng: &mut Rng, depth: u32) -> JsonValue {
	let leaf = depth == 0 || rng.chance(0.45);
	if leaf {
		return match rng.below(6) {
			0 => JsonValue::Null,
			1 => JsonValue::Boolean(rng.bool()),
			2 | 3 => JsonValue::Number(gen_number(rng)),
			_ => JsonValue::String(gen_string(rng)),
		};
	}
	if rng.bool() {
		JsonValue::Array(JsonArray((0..rng.below(5)).map(|_| gen_json(rng, depth - 1)).collect()))
	} else {
		let mut m = BTreeMap::new();
		for _ in 0..rng.below(5) {
			m.insert(gen_string(rng), gen_json(rng, depth - 1));
		}
		JsonValue::Object(JsonObject(m))
	}
}

fn nest(v: JsonValue, depth: u32, rng: &mut Rng) -> JsonValue {
	let mut v = v;
	for _ in 0..depth {
		v = if rng.bool() {
			JsonValue::Array(JsonArray(vec![v]))
		} else {
			let mut m = BTreeMap::new();
			m.insert("k".to_string(), v);
			JsonValue::Object(JsonObject(m))
		};
	}
	v
}

/// reference conversion (harness side) of a JsonValue to serde's Value
fn to_serde(v: &JsonValue) -> Value {
	match v {
		JsonValue::Null => Value::Null,
		JsonValue::Boolean(b) => Value::Bool(*b),
		JsonValue::Number(n) => serde_json::Number::from_f64(*n).map(Value::Number).unwrap_or(Value::Null),
		JsonValue::String(s) => Value::String(s.clone()),
		JsonValue::Array(a) => Value::Array(a.0.iter().map(to_serde).collect()),
		JsonValue::Object(o) => Value::Object(o.0.iter().map(|(k, v)| (k.clone(), to_serde(v))).collect()),
	}
}

fn same_serde(a: &Value, b: &Value) -> bool {
	match (a, b) {
		(Value::Number(x), Value::Number(y)) => {
			let (x, y) = (x.as_f64().unwrap_or(f64::NAN), y.as_f64().unwrap_or(f64::NAN));
			if x == y {
				return true;
			}
			// serde_json without `float_roundtrip` scales the mantissa by powers of ten in several rounded
			// steps: a few ulps off for long mantissas with extreme exponents. Exact numeric agreement is
			// the strict parser's job (above); here numbers only have to agree to 13 digits.
			(x - y).abs() <= 1e-13 * x.abs().max(y.abs())
		}
		(Value::Array(x), Value::Array(y)) => x.len() == y.len() && x.iter().zip(y).all(|(p, q)| same_serde(p, q)),
		(Value::Object(x), Value::Object(y)) => x.len() == y.len() && x.iter().all(|(k, v)| y.get(k).map(|w| same_serde(v, w)).unwrap_or(false)),
		_ => a == b,
	}
}

fn has_escape_key(v: &JsonValue) -> bool {
	match v {
		JsonValue::Object(o) => o.0.iter().any(|(k, v)| k.chars().any(|c| c == '"' || c == '\\' || (c as u32) < 0x20) || has_escape_key(v)),
		JsonValue::Array(a) => a.0.iter().any(has_escape_key),
		_ => false,
	}
}
fn interesting(v: &JsonValue) -> bool {
	match v {
		JsonValue::String(s) => s.chars().any(|c| c == '"' || c == '\\' || (c as u32) < 0x20 || (c as u32) > 0xFFFF),
		JsonValue::Number(n) => n.fract() != 0.0 || n.abs() > 9e15,
		JsonValue::Array(a) => a.0.iter().any(interesting),
		JsonValue::Object(o) => o.0.iter().any(|(k, v)| interesting(&JsonValue::String(k.clone())) || interesting(v)),
		_ => false,
	}
}

fn huge_number(v: &JsonValue) -> bool {
	match v {
		JsonValue::Number(n) => n.abs() > 1e290 || (*n != 0.0 && n.abs() < 1e-290),
		JsonValue::Array(a) => a.0.iter().any(huge_number),
		JsonValue::Object(o) => o.0.values().any(huge_number),
		_ => false,
	}
}

fn json_case(cx: &CaseCtx, rep: &mut Report, rng: &mut Rng) {
	cx.progress("json values");
	let count = if cx.tier.is_tiny() { 12 } else { 400 };
	for i in 0..count {
		let d = rng.below(5) as u32;
		let mut v = gen_json(rng, d);
		if i % 50 == 0 {
			v = nest(v, 64, rng);
		}
		if i % 50 == 25 {
			// wide instead of deep: hundreds of empty arrays / objects / strings side by side (a sparse table)
			let n = rng.range(100, 400) as usize;
			let cell = |k: usize| match k % 4 {
				0 => JsonValue::Array(JsonArray(vec![])),
				1 => JsonValue::Object(JsonObject(BTreeMap::new())),
				2 => JsonValue::String(String::new()),
				_ => JsonValue::Array(JsonArray(vec![JsonValue::Array(JsonArray(vec![]))])),
			};
			let only_arrays = rng.bool();
			v = JsonValue::Array(JsonArray((0..n).map(|k| if only_arrays { cell(0) } else { cell(k) }).collect()));
			rep.count("json_values_with_hundreds_of_empty_members", 1);
		}
		rep.eval();
		rep.count("json_values", 1);
		if has_escape_key(&v) {
			rep.count("json_values_with_escapes_in_keys", 1);
		}
		let r = guard::catch(|| {
			let text = v.stringify();
			let back = parse_json_str(&text).map_err(|e| format!("{e:#}"));
			(text, back)
		});
		match r {
			Err(p) => rep.violation(&p.signature("json-roundtrip"), "stringify / parse panicked on a JSON value", json!({"value": format!("{v:?}").chars().take(300).collect::<String>(), "panic": p.describe()})),
			Ok((text, back)) => {
				if interesting(&v) {
					rep.nontrivial(fnv(text.as_bytes()));
				}
				let shown: String = text.chars().take(400).collect();
				match back {
					Err(e) => rep.violation("json|own-text-rejected", "the serialised text is rejected by the project's own parser", json!({"text": shown, "error": e.chars().take(200).collect::<String>()})),
					Ok(b) => {
						if b != v {
							let class = if has_escape_key(&v) { "keys" } else { "values" };
							rep.violation(&format!("json|roundtrip-differs|{class}"), "parse(stringify(v)) differs from v", json!({"text": shown, "value": format!("{v:?}").chars().take(300).collect::<String>(), "back": format!("{b:?}").chars().take(300).collect::<String>()}));
						}
					}
				}
				// the harness's strict RFC 8259 parser (correctly rounding numbers) ...
				match crate::jsonref::parse(&text) {
					Err(e) => {
						let class = if has_escape_key(&v) { "keys" } else { "values" };
						rep.violation(&format!("json|standard-parser-rejects|{class}"), "a strict RFC 8259 parser rejects the serialised text", json!({"text": shown, "error": e}));
					}
					Ok(sv) => {
						if sv != to_serde(&v) {
							rep.violation("json|standard-parser-reads-another-value", "a strict RFC 8259 parser reads the text with another meaning", json!({"text": shown, "parsed": sv.to_string().chars().take(300).collect::<String>()}));
						}
					}
				}
				// ... and serde_json, whose fast number path gives up beyond ~1e300
				if !huge_number(&v) {
					rep.count("json_values_also_read_by_serde", 1);
					match serde_json::from_str::<Value>(&text) {
						Err(e) => {
							let class = if has_escape_key(&v) { "keys" } else { "values" };
							rep.violation(&format!("json|serde-rejects|{class}"), "serde_json rejects the serialised text", json!({"text": shown, "error": e.to_string()}));
						}
						Ok(sv) => {
							if !same_serde(&sv, &to_serde(&v)) {
								rep.violation("json|serde-reads-another-value", "serde_json reads the text with another meaning", json!({"text": shown, "serde": sv.to_string().chars().take(300).collect::<String>()}));
							}
						}
					}
				}
				if rep.wants_sample() && has_escape_key(&v) && text.len() < 300 {
					rep.sample(json!({"kind": "json", "text": text}));
				}
			}
		}
	}
}

// ---- (b), (c) TileJSON -----------------------------------------------------------------------

pub struct Doc {
	pub text: String,
	pub value: Value,
	minzoom: Option<u8>,
	maxzoom: Option<u8>,
	bounds: Option<[f64; 4]>,
}

fn esc(s: &str) -> String {
	serde_json::to_string(s).unwrap()
}

pub fn gen_doc(rng: &mut Rng, ts: &TileSet) -> Doc {
	let mut m = serde_json::Map::new();
	m.insert("tilejson".into(), json!("3.0.0"));
	for key in ["name", "description", "attribution", "version", "legend", "scheme", "custom key \"q\""] {
		if rng.chance(0.6) {
			m.insert(key.into(), json!(gen_string(rng)));
		}
	}
	if rng.chance(0.5) {
		m.insert("data".into(), json!((0..rng.below(4)).map(|_| gen_string(rng)).collect::<Vec<_>>()));
	}
	if rng.chance(0.15) {
		// a document of some size (a long licence text, a legend): 9 .. 120 KB, not compressible to nothing
		let n = *rng.pick(&[9_000usize, 20_000, 120_000]);
		let text: String = (0..n / 8).map(|i| format!("{:07x} ", rng.next_u64() as u32 as u64 ^ i as u64)).collect();
		m.insert("legend".into(), json!(text));
	}
	if rng.chance(0.4) {
		// byte values: the borders of the range as often as the inside
		let v = if rng.bool() { *rng.pick(&[0u64, 255, 255, 1, 31, 32, 127, 128, 254]) } else { rng.below(256) };
		m.insert("fillzoom".into(), json!(v));
	}
	let levels: Vec<u8> = ts.levels().into_iter().collect();
	let (zmin, zmax) = (levels[0], *levels.last().unwrap());
	let mut minzoom = None;
	let mut maxzoom = None;
	if rng.chance(0.7) {
		// sometimes wider than the coverage, sometimes inside it
		let v = match rng.below(3) {
			0 => zmin.saturating_sub(rng.below(3) as u8),
			1 => zmin,
			_ => (zmin as u64 + rng.below((zmax - zmin) as u64 + 1)) as u8,
		};
		minzoom = Some(v);
		m.insert("minzoom".into(), json!(v));
	}
	if rng.chance(0.7) {
		let v = match rng.below(3) {
			0 => (zmax as u64 + rng.below(4)).min(30) as u8,
			1 => zmax,
			_ => (zmin as u64 + rng.below((zmax - zmin) as u64 + 1)) as u8,
		};
		let v = v.max(minzoom.unwrap_or(0));
		maxzoom = Some(v);
		m.insert("maxzoom".into(), json!(v));
	}
	let mut bounds = None;
	if rng.chance(0.5) {
		let b = if rng.bool() { [-180.0, -85.0, 180.0, 85.0] } else { [rng.f64_range(-180.0, -1.0), rng.f64_range(-85.0, -1.0), rng.f64_range(1.0, 180.0), rng.f64_range(1.0, 85.0)] };
		bounds = Some(b);
		m.insert("bounds".into(), json!(b));
	}
	if rng.chance(0.4) {
		// (now and then on the edge of the valid range: the antimeridian from either side, a pole, level 0 / 30)
		let c = match rng.below(6) {
			0 => json!([180.0, rng.f64_range(-85.0, 85.0).round(), rng.below(20)]),
			1 => json!([-180.0, rng.f64_range(-85.0, 85.0).round(), rng.below(20)]),
			2 => json!([rng.f64_range(-180.0, 180.0).round(), *rng.pick(&[90.0, -90.0, 85.0, -85.0]), *rng.pick(&[0u64, 30])]),
			_ => json!([rng.f64_range(-180.0, 180.0), rng.f64_range(-85.0, 85.0), rng.below(20)]),
		};
		m.insert("center".into(), c);
	}
	if rng.chance(0.6) {
		let mut layers = vec![];
		for i in 0..rng.range(1, 3) {
			let mut fields = serde_json::Map::new();
			for _ in 0..rng.below(4) {
				let k = match rng.below(4) {
					0 => "name:\"local\"".to_string(),
					1 => format!("f{}", rng.below(20)),
					2 => "back\\slash".to_string(),
					_ => gen_string(rng),
				};
				fields.insert(k, json!(*rng.pick(&["String", "Number", "Boolean", "text with \"quotes\""])));
			}
			let mut l = serde_json::Map::new();
			l.insert("id".into(), json!(format!("layer{i}")));
			l.insert("fields".into(), Value::Object(fields));
			if rng.bool() {
				// (tippecanoe-style metadata writes an empty description for every layer)
				l.insert("description".into(), if rng.chance(0.35) { json!("") } else { json!(gen_string(rng)) });
			}
			if rng.bool() {
				l.insert("minzoom".into(), json!(rng.below(10)));
				l.insert("maxzoom".into(), json!(10 + rng.below(10)));
			}
			layers.push(Value::Object(l));
		}
		m.insert("vector_layers".into(), Value::Array(layers));
	}
	let value = Value::Object(m);
	Doc { text: value.to_string(), value, minzoom, maxzoom, bounds }
}

fn normalise(v: &Value) -> Value {
	// vector_layers is a set keyed by id; numbers compared through f64
	let mut v = v.clone();
	if let Some(Value::Array(a)) = v.get_mut("vector_layers") {
		a.sort_by_key(|l| l["id"].as_str().unwrap_or("").to_string());
		for l in a.iter_mut() {
			if let Value::Object(o) = l {
				o.entry("fields").or_insert(json!({}));
			}
		}
	}
	v
}

fn compare_doc(rep: &mut Report, what: &str, doc: &Doc, got: &Value, ts: &TileSet, server_owned: &[&str], witness: &dyn Fn(Value) -> Value) {
	let want = normalise(&doc.value);
	let got = normalise(got);
	let (Some(w), Some(g)) = (want.as_object(), got.as_object()) else {
		rep.violation(&format!("{what}|not-an-object"), "metadata is not a JSON object", witness(json!({"got": got})));
		return;
	};
	let special = ["bounds", "minzoom", "maxzoom"];
	for (k, v) in w {
		if special.contains(&k.as_str()) || server_owned.contains(&k.as_str()) {
			continue;
		}
		match g.get(k) {
			None => rep.violation(&format!("{what}|key-lost"), "a key of the stored TileJSON is missing", witness(json!({"key": k, "stored": v}))),
			Some(x) if !same_serde(x, v) => rep.violation(&format!("{what}|value-changed"), "a value of the stored TileJSON came back changed", witness(json!({"key": k, "stored": v, "got": x}))),
			_ => {}
		}
	}
	for k in g.keys() {
		if !w.contains_key(k) && !special.contains(&k.as_str()) && !server_owned.contains(&k.as_str()) && k != "tilejson" {
			rep.violation(&format!("{what}|key-invented"), "metadata carries a key that was never stored", witness(json!({"key": k, "got": g[k]})));
		}
	}
	// zoom range: only ever narrowed
	let levels: Vec<u8> = ts.levels().into_iter().collect();
	let (zmin, zmax) = (levels[0] as u64, *levels.last().unwrap() as u64);
	if let Some(gmin) = g.get("minzoom").and_then(|v| v.as_u64()) {
		if doc.minzoom.map(|d| gmin < d as u64).unwrap_or(false) {
			rep.violation(&format!("{what}|minzoom-widened"), "minzoom is lower than the stored document declares", witness(json!({"stored": doc.minzoom, "got": gmin})));
		}
		if server_owned.contains(&"minzoom") && gmin < zmin {
			rep.violation(&format!("{what}|minzoom-below-coverage"), "minzoom advertises levels that are not stored", witness(json!({"coverage_min": zmin, "got": gmin})));
		}
		if gmin > zmax.max(doc.minzoom.unwrap_or(0) as u64) {
			rep.violation(&format!("{what}|minzoom-beyond"), "minzoom lies above both the declared value and the coverage", witness(json!({"got": gmin})));
		}
	} else if doc.minzoom.is_some() {
		rep.violation(&format!("{what}|key-lost"), "minzoom is missing", witness(json!({"key": "minzoom"})));
	}
	if let Some(gmax) = g.get("maxzoom").and_then(|v| v.as_u64()) {
		if doc.maxzoom.map(|d| gmax > d as u64).unwrap_or(false) {
			rep.violation(&format!("{what}|maxzoom-widened"), "maxzoom is higher than the stored document declares", witness(json!({"stored": doc.maxzoom, "got": gmax})));
		}
		if server_owned.contains(&"maxzoom") && gmax > zmax {
			rep.violation(&format!("{what}|maxzoom-above-coverage"), "maxzoom advertises levels that are not stored", witness(json!({"coverage_max": zmax, "got": gmax})));
		}
	} else if doc.maxzoom.is_some() {
		rep.violation(&format!("{what}|key-lost"), "maxzoom is missing", witness(json!({"key": "maxzoom"})));
	}
	// bounds: only ever narrowed
	if let (Some(b), Some(gb)) = (doc.bounds, g.get("bounds").and_then(|v| v.as_array())) {
		let gbv: Vec<f64> = gb.iter().filter_map(|x| x.as_f64()).collect();
		if gbv.len() != 4 || gbv[0] < b[0] - 1e-9 || gbv[1] < b[1] - 1e-9 || gbv[2] > b[2] + 1e-9 || gbv[3] > b[3] + 1e-9 {
			rep.violation(&format!("{what}|bounds-widened"), "bounds reach beyond the stored document's bounds", witness(json!({"stored": b, "got": gbv})));
		}
	} else if doc.bounds.is_some() {
		rep.violation(&format!("{what}|key-lost"), "bounds are missing", witness(json!({"key": "bounds"})));
	}
}

fn tilejson_case(cx: &CaseCtx, rep: &mut Report, rng: &mut Rng, served: bool) {
	let dir = cx.fresh_dir("c17");
	let formats = vec![(TileFormat::PBF, Comp::Gzip), (TileFormat::PNG, Comp::None), (TileFormat::PBF, Comp::Brotli), (TileFormat::WEBP, Comp::None)];
	let opts = GenOpts { max_tiles: 40, max_level: 20, formats, really_compress: true, ..Default::default() };
	let ts = gen::gen_tileset(rng, &opts);
	let doc = gen_doc(rng, &ts);
	let levels: Vec<u8> = ts.levels().into_iter().collect();
	if doc.maxzoom.map(|z| z > *levels.last().unwrap()).unwrap_or(false) || doc.minzoom.map(|z| z < levels[0]).unwrap_or(false) {
		rep.count("documents_with_zoom_declared_beyond_coverage", 1);
	}
	if doc.maxzoom.map(|z| z < *levels.last().unwrap()).unwrap_or(false) || doc.minzoom.map(|z| z > levels[0]).unwrap_or(false) {
		rep.count("documents_with_zoom_declared_inside_coverage", 1);
	}
	let tj = match guard::catch(|| TileJSON::try_from(doc.text.as_str())) {
		Err(p) => {
			rep.violation(&p.signature("tilejson-parse"), "parsing a valid TileJSON document panicked", json!({"document": doc.text, "panic": p.describe()}));
			return;
		}
		Ok(Err(e)) => {
			rep.violation("tilejson|valid-document-rejected", "a TileJSON document expressible by the model is rejected", json!({"document": doc.text, "error": format!("{e:#}")}));
			return;
		}
		Ok(Ok(t)) => t,
	};
	if doc.value.get("vector_layers").is_some() || doc.minzoom.is_some() {
		rep.nontrivial(fnv(doc.text.as_bytes()));
	}
	let mut paths = vec![];
	for target in ["versatiles", "pmtiles", "tar", "directory"] {
		cx.progress(&format!("tilejson {target}"));
		let sub = dir.join(target);
		let _ = std::fs::create_dir_all(&sub);
		let path = container_path(&sub, target);
		if target == "directory" {
			let _ = std::fs::create_dir_all(&path);
		}
		let mut src = MemSource::new(&ts);
		src.tilejson = tj.clone();
		let witness = |extra: Value| json!({"container": target, "document": doc.text, "tile_levels": levels, "detail": extra});
		let r = guard::catch(|| {
			guard::block_on(async {
				versatiles_container::write_to_filename(&mut src, path.to_str().unwrap()).await?;
				let r = versatiles_container::get_reader(path.to_str().unwrap()).await?;
				Ok::<String, anyhow::Error>(r.get_tilejson().as_string())
			})
		});
		rep.eval();
		rep.count(&format!("tilejson_roundtrips_{target}"), 1);
		match r {
			Err(p) => rep.violation(&p.signature(&format!("tilejson-container-{target}")), "writing / reading the container panicked", witness(json!({"panic": p.describe()}))),
			Ok(Err(e)) => rep.violation(&format!("container|{target}|failed"), "writing / reading the container failed", witness(json!({"error": format!("{e:#}")}))),
			Ok(Ok(text)) => match serde_json::from_str::<Value>(&text) {
				Err(e) => rep.violation(&format!("container|{target}|returned-text-not-json"), "the TileJSON handed back is not valid JSON", witness(json!({"text": text, "error": e.to_string()}))),
				Ok(got) => compare_doc(rep, &format!("container|{target}"), &doc, &got, &ts, &[], &witness),
			},
		}
		paths.push((target, path));
	}
	// metadata as another tool would write it: pretty-printed, several KiB long (a long list value), and shifted byte
	// by byte so that its white space falls on every position relative to a reader's buffer size
	if !cx.tier.is_tiny() && cx.case % 6 == 1 {
		cx.progress("foreign pretty-printed metadata");
		let mut big = doc.value.clone();
		if let Some(o) = big.as_object_mut() {
			o.insert("data".into(), json!((0..rng.range(60, 120)).map(|i| format!("item-{i}")).collect::<Vec<_>>()));
			// many layers with many fields: objects inside objects, white space in front of every key and bracket
			let layers: Vec<Value> = (0..rng.range(30, 60))
				.map(|i| {
					let fields: serde_json::Map<String, Value> = (0..rng.range(2, 9)).map(|k| (format!("field_{i}_{k}"), json!(*rng.pick(&["String", "Number", "Boolean"])))).collect();
					json!({"id": format!("layer{i}"), "fields": fields, "description": format!("layer number {i}"), "minzoom": 0, "maxzoom": 14})
				})
				.collect();
			o.insert("vector_layers".into(), Value::Array(layers));
		}
		let pretty = serde_json::to_string_pretty(&big).unwrap_or_default();
		let doc2 = Doc { text: pretty.clone(), value: big, minzoom: doc.minzoom, maxzoom: doc.maxzoom, bounds: doc.bounds };
		for shift in 0..cx.tier.pick(24, 64) {
			let text = format!("{}{}", " ".repeat(shift as usize * 3 % 67), pretty).replacen("\n", &"\n".repeat(1 + shift as usize % 3), 1);
			let mut ts2 = ts.clone();
			ts2.tilejson = text.clone();
			let sub = dir.join(format!("pretty{shift}"));
			let witness = |extra: Value| json!({"container": "directory (independent encoder, pretty-printed metadata)", "metadata_bytes": text.len(), "leading_blanks": shift * 3 % 67, "detail": extra});
			let o = crate::codec::idir::EncOpts { meta_name: "tiles.json", no_meta: false, stray_files: shift % 2 == 1, alt_spellings: false, symlinks: false };
			if crate::codec::idir::encode(&ts2, &sub, &o).is_err() {
				continue;
			}
			rep.eval();
			rep.count("tilejson_roundtrips_foreign_pretty_printed", 1);
			let r = guard::catch(|| guard::block_on(async { versatiles_container::get_reader(sub.to_str().unwrap()).await.map(|r| r.get_tilejson().as_string()) }));
			match r {
				Err(p) => rep.violation(&p.signature("tilejson-container-directory"), "reading the container panicked", witness(json!({"panic": p.describe()}))),
				Ok(Err(e)) => rep.violation("container|directory|failed", "reading the container failed", witness(json!({"error": format!("{e:#}")}))),
				Ok(Ok(text)) => match serde_json::from_str::<Value>(&text) {
					Err(e) => rep.violation("container|directory|returned-text-not-json", "the TileJSON handed back is not valid JSON", witness(json!({"error": e.to_string()}))),
					Ok(got) => compare_doc(rep, "container|directory(pretty)", &doc2, &got, &ts, &[], &witness),
				},
			}
			let _ = std::fs::remove_dir_all(&sub);
		}
	}
	// metadata as Python's json.dumps writes it by default (ensure_ascii): every character beyond ASCII as a \uXXXX
	// escape, characters beyond the BMP as a pair of surrogate escapes
	if !cx.tier.is_tiny() && cx.case % 6 == 2 {
		cx.progress("foreign ASCII-only metadata");
		for variant in ["ascii", "ascii+surrogate-pairs"] {
		let mut v = doc.value.clone();
		if let Some(o) = v.as_object_mut() {
			// (string values of the generated document may hold characters beyond the BMP: dropped in the BMP-only variant)
			if variant == "ascii" {
				fn bmp(v: &Value) -> Value {
					let t = |s: &str| s.chars().filter(|c| *c as u32 <= 0xFFFF).collect::<String>();
					match v {
						Value::String(s) => Value::String(t(s)),
						Value::Array(a) => Value::Array(a.iter().map(bmp).collect()),
						Value::Object(o) => Value::Object(o.iter().map(|(k, v)| (t(k), bmp(v))).collect()),
						other => other.clone(),
					}
				}
				let keys: Vec<String> = o.keys().cloned().collect();
				for k in keys {
					if let Some(val) = o.remove(&k) {
						let k2: String = k.chars().filter(|c| *c as u32 <= 0xFFFF).collect();
						o.insert(if k2.is_empty() { k.clone() } else { k2 }, bmp(&val));
					}
				}
			}
			o.remove("vector_layers");
			if variant == "ascii" {
				o.insert("attribution".into(), json!("OSM \u{540D}\u{524D} Stra\u{DF}e \u{20AC}"));
				o.insert("description".into(), json!(format!("BMP edges \u{FFFD}\u{E000}\u{D7FF} #{}", rng.below(1000))));
			} else {
				o.insert("attribution".into(), json!("\u{1F600} OSM \u{1D11E} \u{540D}\u{524D} Stra\u{DF}e"));
				o.insert("description".into(), json!(format!("non-BMP: \u{1F5FA} and \u{10FFFF} #{}", rng.below(1000))));
			}
		}
		let compact = serde_json::to_string(&v).unwrap_or_default();
		let mut ascii = String::new();
		for c in compact.chars() {
			if (c as u32) < 0x7f {
				ascii.push(c);
			} else {
				let mut buf = [0u16; 2];
				for u in c.encode_utf16(&mut buf) {
					ascii.push_str(&format!("\\u{:04x}", u));
				}
			}
		}
		let doc3 = Doc { text: ascii.clone(), value: v, minzoom: doc.minzoom, maxzoom: doc.maxzoom, bounds: doc.bounds };
		let mut ts3 = ts.clone();
		ts3.tilejson = ascii.clone();
		for container in ["directory", "tar"] {
			let sub = dir.join(format!("{variant}-{container}"));
			let _ = std::fs::create_dir_all(&sub);
			let path = if container == "directory" {
				let o = crate::codec::idir::EncOpts { meta_name: "tiles.json", no_meta: false, stray_files: false, alt_spellings: false, symlinks: false };
				if crate::codec::idir::encode(&ts3, &sub.join("d"), &o).is_err() {
					continue;
				}
				sub.join("d")
			} else {
				let mut o = crate::codec::itar::EncOpts::random(rng);
				o.no_meta = false;
				let p = sub.join("c.tar");
				if std::fs::write(&p, crate::codec::itar::encode(&ts3, &o, rng)).is_err() {
					continue;
				}
				p
			};
			let witness = |extra: Value| json!({"container": format!("{container} (independent encoder, ASCII-only metadata)"), "metadata": ascii.chars().take(400).collect::<String>(), "detail": extra});
			rep.eval();
			rep.count("tilejson_roundtrips_foreign_ascii_only", 1);
			let r = guard::catch(|| guard::block_on(async { versatiles_container::get_reader(path.to_str().unwrap()).await.map(|r| r.get_tilejson().as_string()) }));
			match r {
				Err(p) => rep.violation(&p.signature(&format!("tilejson-container-{container}")), "reading the container panicked", witness(json!({"panic": p.describe()}))),
				Ok(Err(e)) => rep.violation(&format!("container|{container}|failed"), "reading the container failed", witness(json!({"error": format!("{e:#}")}))),
				Ok(Ok(text)) => match serde_json::from_str::<Value>(&text) {
					Err(e) => rep.violation(&format!("container|{container}|returned-text-not-json"), "the TileJSON handed back is not valid JSON", witness(json!({"error": e.to_string()}))),
					Ok(got) => compare_doc(rep, &format!("container|{container}({variant})"), &doc3, &got, &ts, &[], &witness),
				},
			}
			let _ = std::fs::remove_dir_all(&sub);
		}
		}
	}
	if served {
		cx.progress("served tiles.json");
		let args: Vec<String> = paths.iter().map(|(t, p)| format!("[{t}]{}", p.display())).collect();
		match Server::start(&args, &dir) {
			Err(e) => rep.inconclusive(&format!("server start failed: {e}")),
			Ok(srv) => {
				for (t, _) in &paths {
					for name in ["tiles.json", "meta.json"] {
						let r = http::get(srv.port, &format!("/tiles/{t}/{name}"), &[("Accept-Encoding", *rng.pick(&["gzip", "br", "identity"]))]);
						rep.eval();
						rep.count("served_tiles_json", 1);
						let witness = |extra: Value| json!({"source": t, "document": doc.text, "tile_levels": levels, "status": r.status, "detail": extra});
						if !r.complete || r.status != 200 {
							rep.violation("served|no-tiles-json", "tiles.json is not served (complete 200 expected)", witness(json!({"problem": r.problem})));
							continue;
						}
						let body = r.decoded_body().unwrap_or_default();
						match serde_json::from_slice::<Value>(&body) {
							Err(e) => rep.violation("served|not-json", "served tiles.json is not valid JSON", witness(json!({"error": e.to_string(), "body": String::from_utf8_lossy(&body).chars().take(300).collect::<String>()}))),
							Ok(got) => {
								compare_doc(rep, "served", &doc, &got, &ts, &["tiles", "type", "name", "format", "bounds", "minzoom", "maxzoom", "tilejson"], &witness);
								let tiles = got.get("tiles").and_then(|v| v.as_array()).cloned().unwrap_or_default();
								let ok = tiles.len() == 1 && tiles[0].as_str().map(|s| s.ends_with(&format!("/tiles/{t}/{{z}}/{{x}}/{{y}}"))).unwrap_or(false);
								if !ok {
									rep.violation("served|tiles-template", "tiles.json lacks the tiles URL template of the source", witness(json!({"tiles": tiles})));
								}
								for k in ["minzoom", "maxzoom", "bounds"] {
									if got.get(k).is_none() {
										rep.violation("served|coverage-key-missing", "served tiles.json lacks bounds / zoom range", witness(json!({"key": k})));
									}
								}
								// bounds never wider than the coverage of the highest level
								if let Some(gb) = got.get("bounds").and_then(|v| v.as_array()) {
									let cb = crate::codec::ivt::geo_bounds(&ts);
									let g: Vec<f64> = gb.iter().filter_map(|x| x.as_f64()).collect();
									if g.len() == 4 && (g[0] < cb[0] - 1e-6 || g[1] < cb[1] - 1e-6 || g[2] > cb[2] + 1e-6 || g[3] > cb[3] + 1e-6) {
										rep.violation("served|bounds-beyond-coverage", "served bounds reach beyond the stored coverage", witness(json!({"coverage": cb, "got": g})));
									}
								}
								if rep.wants_sample() {
									rep.sample(json!({"kind": "served", "source": t, "stored_document": doc.text.chars().take(300).collect::<String>(), "served": got.to_string().chars().take(300).collect::<String>()}));
								}
							}
						}
					}
				}
			}
		}
	}
	let _ = std::fs::remove_dir_all(&dir);
	let _ = esc("");
}

/// The PMTiles layout puts the metadata right behind the 16 KiB reserved for header + root directory:
/// a document stored in containers whose root directory just fits (or just does not) must come back too.
fn tilejson_pmtiles_boundary(cx: &CaseCtx, rep: &mut Report, rng: &mut Rng) {
	use versatiles_container::{PMTilesReader, PMTilesWriter, TilesWriterTrait};
	use versatiles_core::io::{DataReaderBlob, DataWriterBlob};
	cx.progress("tilejson pmtiles root-directory boundary");
	let z = 12u8;
	let (x0, y0) = (rng.range(0, 3000) as u32, rng.range(0, 3000) as u32);
	let mut all: Vec<(u32, u32)> = (0..240u32).flat_map(|dx| (0..240u32).map(move |dy| (x0 + dx, y0 + dy))).collect();
	rng.shuffle(&mut all);
	let payloads: Vec<Vec<u8>> = all.iter().take(9000).map(|(x, y)| {
		let mut v = format!("T:{z}/{x}/{y};").into_bytes();
		let n = rng.range(1, 400) as usize;
		v.extend(rng.bytes(n));
		v
	}).collect();
	let make = |n: usize| -> TileSet {
		let tiles: BTreeMap<gen::Key, Vec<u8>> = (0..n).map(|i| ((z, all[i].0, all[i].1), payloads[i].clone())).collect();
		TileSet { format: TileFormat::PNG, comp: Comp::None, tiles, tilejson: "{\"tilejson\":\"3.0.0\"}".into(), shape: format!("{n} scattered tiles at z12"), really_compressed: false }
	};
	let write = |ts: &TileSet, tj: Option<&TileJSON>| -> Result<Vec<u8>, String> {
		let mut src = MemSource::new(ts);
		if let Some(t) = tj {
			src.tilejson = t.clone();
		}
		let mut w = DataWriterBlob::new().map_err(|e| e.to_string())?;
		guard::block_on(PMTilesWriter::write_to_writer(&mut src, &mut w)).map_err(|e| format!("{e:#}"))?;
		Ok(w.into_blob().into_vec())
	};
	let (mut lo, mut hi) = (500usize, 8000usize);
	let mut steps = 0;
	while hi - lo > 4 && steps < 20 {
		steps += 1;
		let mid = (lo + hi) / 2;
		let leaf = write(&make(mid), None).ok().and_then(|b| crate::codec::ipm::parse_header(&b).ok()).map(|h| h.leaves.1 > 0).unwrap_or(true);
		if leaf {
			hi = mid;
		} else {
			lo = mid;
		}
	}
	for n in (lo.saturating_sub(48)..=lo + 6).step_by(3) {
		let ts = make(n);
		let doc = gen_doc(rng, &ts);
		let Ok(tj) = TileJSON::try_from(doc.text.as_str()) else { continue };
		let witness = |extra: Value| json!({"container": "pmtiles", "tiles": n, "document": doc.text, "detail": extra});
		let r = guard::catch(|| {
			let bytes = write(&ts, Some(&tj))?;
			let root = crate::codec::ipm::parse_header(&bytes).map(|h| h.root.1).unwrap_or(0);
			let text = guard::block_on(async { PMTilesReader::open_reader(Box::new(DataReaderBlob::from(bytes))).await.map(|r| r.get_tilejson().as_string()) }).map_err(|e| format!("{e:#}"))?;
			Ok::<(String, u64), String>((text, root))
		});
		rep.eval();
		rep.count("tilejson_roundtrips_pmtiles_near_root_boundary", 1);
		match r {
			Err(p) => rep.violation(&p.signature("tilejson-container-pmtiles"), "writing / reading the container panicked", witness(json!({"panic": p.describe()}))),
			Ok(Err(e)) => rep.violation("container|pmtiles|failed", "writing / reading the container failed", witness(json!({"error": e}))),
			Ok(Ok((text, root))) => {
				rep.max("pmtiles_root_directory_bytes", root);
				match serde_json::from_str::<Value>(&text) {
					Err(e) => rep.violation("container|pmtiles|returned-text-not-json", "the TileJSON handed back is not valid JSON", witness(json!({"text": text, "error": e.to_string()}))),
					Ok(got) => compare_doc(rep, "container|pmtiles", &doc, &got, &ts, &[], &witness),
				}
			}
		}
	}
}

/// every byte value of the model's byte keys: the document parses, keeps the value and survives the
/// blob route the container readers use (`try_from_blob_or_default` must not fall back to the default)
fn tilejson_byte_sweep(cx: &CaseCtx, rep: &mut Report) {
	cx.progress("tilejson byte values");
	for key in ["fillzoom", "minzoom", "maxzoom"] {
		for v in 0..=255u64 {
			let text = format!("{{\"name\":\"n\",\"{key}\":{v},\"tilejson\":\"3.0.0\"}}");
			rep.eval();
			rep.count("tilejson_byte_values_checked", 1);
			let r = guard::catch(|| {
				let t = TileJSON::try_from(text.as_str()).map_err(|e| format!("rejected: {e:#}"))?;
				let direct = t.as_string();
				let via_blob = TileJSON::try_from_blob_or_default(&Blob::from(text.as_str())).as_string();
				Ok::<(String, String), String>((direct, via_blob))
			});
			let w = json!({"document": text});
			match r {
				Err(p) => rep.violation(&p.signature("tilejson-parse"), "parsing a valid TileJSON document panicked", json!({"document": text, "panic": p.describe()})),
				Ok(Err(e)) => rep.violation("tilejson|valid-document-rejected|byte-value", "a TileJSON document expressible by the model is rejected", json!({"document": text, "error": e})),
				Ok(Ok((direct, via_blob))) => {
					for (route, out) in [("parse", direct), ("blob", via_blob)] {
						let got: Value = serde_json::from_str(&out).unwrap_or(Value::Null);
						if got.get(key).and_then(|x| x.as_u64()) != Some(v) || got.get("name").and_then(|x| x.as_str()) != Some("n") {
							rep.violation(&format!("tilejson|byte-value-lost|{route}"), "a byte value (or the document around it) does not survive parsing", json!({"document": w["document"], "returned": out}));
						}
					}
				}
			}
		}
	}
}

fn run_case(cx: &CaseCtx, rep: &mut Report) {
	let mut rng = cx.rng();
	if cx.case == 1 && !cx.tier.is_tiny() {
		tilejson_pmtiles_boundary(cx, rep, &mut rng);
	}
	if cx.case == 4 || (cx.tier.is_tiny() && cx.case == 1) {
		tilejson_byte_sweep(cx, rep);
	}
	match cx.case % 3 {
		0 => json_case(cx, rep, &mut rng),
		1 => tilejson_case(cx, rep, &mut rng, false),
		_ => tilejson_case(cx, rep, &mut rng, true),
	}
}
