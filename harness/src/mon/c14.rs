//! C14 — parallel stream transformations keep every tile paired with its own result.
//!
//! Harness callbacks control the completion order of the per-tile tasks: a turnstile forces every
//! one of the n! orders for n <= 5 (all tasks are in flight at once), adversarial delays stress
//! longer streams.  Payloads embed the coordinate they belong to, so any loss, duplication or
//! re-pairing is visible in the output.

use crate::guard;
use crate::report::{Plan, Report, Tier};
use crate::rng::{fnv, Rng};
use crate::shard::{CaseCtx, MonitorDef};
use serde_json::json;
use std::collections::{BTreeMap, HashMap, HashSet};
use std::sync::atomic::{AtomicU64, AtomicUsize, Ordering};
use std::sync::{Arc, Condvar, Mutex};
use std::time::Duration;
use versatiles_core::types::{Blob, TileCoord3, TileStream};

pub fn def() -> MonitorDef {
	MonitorDef { id: "C14", plan, run_case, finalize }
}

// case layout: 0..18 exhaustive (op 0..3 x n 0..=5), then adversarial, then consumer cases
const EXH: u64 = 18;

fn adversarial_cases(tier: Tier) -> u64 {
	tier.pick(36, 360)
}

fn plan(tier: Tier, _seed: u64) -> Plan {
	Plan {
		cases: EXH + adversarial_cases(tier) + 12,
		shards: 8,
		case_timeout_s: 240,
		level: "exploration",
		rule: "exhaustive part: for n = 0..5 items every one of the n! completion orders is forced with a turnstile for map_blob_parallel, filter_map_blob_parallel (every retain mask, n <= 4) and from_coord_iter_parallel (every Some/None mask, n <= 4); adversarial part: streams of 0,1,2,15,16,17,100,1000,10^4 items with reversed / straggler / alternating / random delays on 2..16 workers; consumer part: for_each_buffered with buffer sizes {0,1,2,7,n-1,n,n+1,10^5} over plain sources and sources that must not be polled after their end; coordinates on levels 7..31 and the other consumers. One execution = one stream driven to completion; non-trivial if >= 2 items were in flight together; distinct by (operator, n, forced order or delay seed, mask)".into(),
		assumptions: vec![
			"the order in which the callbacks returned (atomic sequence number) is taken as the completion order".into(),
			"forced orders need n runnable tokio workers (8 are configured); on machines with fewer than 6 CPUs the exhaustive part reports inconclusive".into(),
		],
		min_evaluations: 500,
		exhaustive: false,
		timeouts_excluded: false,
	}
}

fn finalize(_t: Tier, _p: &Plan, rep: &mut Report) {
	if rep.counter("forced_orders_run") < 300 {
		rep.inconclusive("fewer than 300 forced completion orders were executed");
	}
	if rep.counter("executions_with_reordered_completion") < 50 {
		rep.inconclusive("fewer than 50 executions completed out of submission order");
	}
	if rep.maximum("inflight") < 2 {
		rep.inconclusive("no two tasks were ever in flight together");
	}
}

fn coord(i: usize) -> TileCoord3 {
	// distinct coordinates on several levels
	let z = 5 + (i % 7) as u8;
	TileCoord3::new((i * 7 % 32) as u32 + (i / 32) as u32 * 32 % (1 << z), (i / 7) as u32 % (1 << z), z).unwrap()
}

fn coords(n: usize) -> Vec<TileCoord3> {
	// unique by construction: enumerate a 128-wide grid, spread over levels up to the deepest one (31)
	(0..n).map(|i| TileCoord3::new((i % 128) as u32, (i / 128) as u32, [14u8, 31, 30, 7, 22][i % 5]).unwrap()).collect()
}

/// a source that, like `futures::stream::unfold`, must not be polled again once it has returned `None`
fn strict_source(items: Vec<(TileCoord3, Blob)>) -> TileStream<'static> {
	use futures::StreamExt;
	let it = items.into_iter();
	TileStream::from_stream(futures::stream::unfold(it, |mut it| async move { it.next().map(|x| (x, it)) }).boxed())
}

fn input_blob(c: &TileCoord3) -> Blob {
	Blob::from(format!("in:{}/{}/{}", c.z, c.x, c.y))
}
fn expected_out(c: &TileCoord3, empty_out: bool) -> Vec<u8> {
	if empty_out {
		vec![]
	} else {
		format!("out:in:{}/{}/{}", c.z, c.x, c.y).into_bytes()
	}
}

/// blocks callers until it is their turn (rank order); a timeout means the schedule could not be forced
struct Turnstile {
	turn: Mutex<usize>,
	cv: Condvar,
	timed_out: AtomicUsize,
}
impl Turnstile {
	fn new() -> Arc<Turnstile> {
		Arc::new(Turnstile { turn: Mutex::new(0), cv: Condvar::new(), timed_out: AtomicUsize::new(0) })
	}
	fn pass(&self, rank: usize, after: impl FnOnce()) {
		let mut t = self.turn.lock().unwrap();
		let deadline = std::time::Instant::now() + Duration::from_secs(20);
		while *t != rank {
			let left = deadline.saturating_duration_since(std::time::Instant::now());
			if left.is_zero() {
				self.timed_out.fetch_add(1, Ordering::SeqCst);
				break;
			}
			t = self.cv.wait_timeout(t, left).unwrap().0;
		}
		if *t == rank {
			// give the previous item time to leave its task before this one finishes
			drop(t);
			if rank > 0 {
				std::thread::sleep(Duration::from_micros(250));
			}
			after();
			t = self.turn.lock().unwrap();
			*t += 1;
		}
		drop(t);
		self.cv.notify_all();
	}
}

struct Probe {
	inflight: AtomicUsize,
	max_inflight: AtomicUsize,
	seq: AtomicU64,
	finished: Mutex<Vec<(u64, String)>>, // (sequence, input tag)
}
impl Probe {
	fn new() -> Arc<Probe> {
		Arc::new(Probe { inflight: AtomicUsize::new(0), max_inflight: AtomicUsize::new(0), seq: AtomicU64::new(0), finished: Mutex::new(vec![]) })
	}
	fn enter(&self) {
		let n = self.inflight.fetch_add(1, Ordering::SeqCst) + 1;
		self.max_inflight.fetch_max(n, Ordering::SeqCst);
	}
	fn leave(&self, tag: &str) {
		let s = self.seq.fetch_add(1, Ordering::SeqCst);
		self.finished.lock().unwrap().push((s, tag.to_string()));
		self.inflight.fetch_sub(1, Ordering::SeqCst);
	}
}

#[derive(Clone, Copy, PartialEq, Debug)]
enum OpKind {
	Map,
	FilterMap,
	FromCoords,
}

/// what the callback does for item i
#[derive(Clone)]
struct Script {
	/// rank in the forced order (None: no turnstile)
	rank: Vec<Option<usize>>,
	/// sleep before returning (micro seconds)
	delay_us: Vec<u64>,
	retain: Vec<bool>,
	empty_out: Vec<bool>,
	/// where the operator's input comes from. 0: a ready vector / an exactly sized coordinate iterator;
	/// 1: a source that is Pending before every item and before its end (a reader doing I/O) / a filtered
	/// coordinate iterator (size hint 0..n); 2: the output of another parallel operator (stacked stages) /
	/// a flat-mapped coordinate iterator (lazily chained boxes)
	feed: u8,
}

/// a source that yields to the scheduler before every item and before its end
fn slow_source(items: Vec<(TileCoord3, Blob)>) -> TileStream<'static> {
	use futures::StreamExt;
	let mut it = items.into_iter();
	let mut ready = false;
	TileStream::from_stream(
		futures::stream::poll_fn(move |cx| {
			if !ready {
				ready = true;
				cx.waker().wake_by_ref();
				return std::task::Poll::Pending;
			}
			ready = false;
			std::task::Poll::Ready(it.next())
		})
		.boxed(),
	)
}

fn feed_stream(feed: u8, items: Vec<(TileCoord3, Blob)>) -> TileStream<'static> {
	match feed {
		1 => slow_source(items),
		2 => {
			let cs: Vec<TileCoord3> = items.iter().map(|(c, _)| *c).collect();
			TileStream::from_coord_iter_parallel(cs.into_iter(), |c| Some(input_blob(&c)))
		}
		_ => TileStream::from_vec(items),
	}
}

struct Outcome {
	output: Vec<(TileCoord3, Blob)>,
	completion_order: Vec<String>,
	max_inflight: usize,
	forced_failed: bool,
}

fn execute(op: OpKind, cs: &[TileCoord3], script: &Script, workers: usize) -> Outcome {
	let probe = Probe::new();
	let ts = Turnstile::new();
	let index: HashMap<Vec<u8>, usize> = cs.iter().enumerate().map(|(i, c)| (input_blob(c).into_vec(), i)).collect();
	let cindex: HashMap<TileCoord3, usize> = cs.iter().enumerate().map(|(i, c)| (*c, i)).collect();
	let index = Arc::new(index);
	let cindex = Arc::new(cindex);
	let script = Arc::new(script.clone());
	let body = {
		let probe = probe.clone();
		let ts = ts.clone();
		let script = script.clone();
		move |i: usize, tag: String| -> Option<Blob> {
			probe.enter();
			if script.delay_us[i] > 0 {
				std::thread::sleep(Duration::from_micros(script.delay_us[i]));
			}
			let out = if !script.retain[i] {
				None
			} else if script.empty_out[i] {
				Some(Blob::new_empty())
			} else {
				Some(Blob::from(format!("out:{tag}")))
			};
			if let Some(r) = script.rank[i] {
				// the completion record is taken while holding the turn, so the recorded order is the forced one
				ts.pass(r, || probe.leave(&tag));
			} else {
				probe.leave(&tag);
			}
			out
		}
	};
	let items: Vec<(TileCoord3, Blob)> = cs.iter().map(|c| (*c, input_blob(c))).collect();
	let fut = async {
		match op {
			OpKind::Map => {
				let index = index.clone();
				let body = body.clone();
				feed_stream(script.feed, items)
					.map_blob_parallel(move |b| {
						let i = index[b.as_slice()];
						body(i, b.as_str().to_string()).unwrap_or_else(Blob::new_empty)
					})
					.collect()
					.await
			}
			OpKind::FilterMap => {
				let index = index.clone();
				let body = body.clone();
				feed_stream(script.feed, items)
					.filter_map_blob_parallel(move |b| {
						let i = index[b.as_slice()];
						body(i, b.as_str().to_string())
					})
					.collect()
					.await
			}
			OpKind::FromCoords => {
				let cindex = cindex.clone();
				let body = body.clone();
				let f = move |c: TileCoord3| {
					let i = cindex[&c];
					body(i, format!("in:{}/{}/{}", c.z, c.x, c.y))
				};
				let all = cs.to_vec();
				match script.feed {
					1 => TileStream::from_coord_iter_parallel(all.into_iter().filter(|c| c.z < 99), f).collect().await,
					2 => {
						let chunks: Vec<Vec<TileCoord3>> = all.chunks(3).map(|c| c.to_vec()).collect();
						TileStream::from_coord_iter_parallel(chunks.into_iter().flat_map(|v| v.into_iter()), f).collect().await
					}
					_ => TileStream::from_coord_iter_parallel(all.into_iter(), f).collect().await,
				}
			}
		}
	};
	let output = if workers == 0 { guard::block_on(fut) } else { guard::block_on_mt(workers, fut) };
	let mut fin = probe.finished.lock().unwrap().clone();
	fin.sort();
	Outcome {
		output,
		completion_order: fin.into_iter().map(|(_, t)| t).collect(),
		max_inflight: probe.max_inflight.load(Ordering::SeqCst),
		forced_failed: ts.timed_out.load(Ordering::SeqCst) > 0,
	}
}

fn check_outcome(rep: &mut Report, op: OpKind, cs: &[TileCoord3], script: &Script, out: &Outcome, what: &str) {
	// expected multiset
	let mut expect: BTreeMap<(u8, u32, u32), Vec<u8>> = BTreeMap::new();
	for (i, c) in cs.iter().enumerate() {
		let retained = match op {
			OpKind::Map => true,
			_ => script.retain[i],
		};
		if retained {
			let empty = script.empty_out[i] || (op == OpKind::Map && !script.retain[i]);
			expect.insert((c.z, c.x, c.y), expected_out(c, empty));
		}
	}
	let opn = format!("{op:?}");
	let witness = |out: &Outcome| {
		json!({
			"operator": opn, "schedule": what, "n": cs.len(), "feed": script.feed,
			"completion_order": out.completion_order.iter().take(12).collect::<Vec<_>>(),
			"output": out.output.iter().take(12).map(|(c, b)| format!("{}/{}/{} -> {}", c.z, c.x, c.y, String::from_utf8_lossy(b.as_slice()))).collect::<Vec<_>>(),
			"retain": script.retain.iter().take(12).collect::<Vec<_>>(),
			"empty_out": script.empty_out.iter().take(12).collect::<Vec<_>>(),
		})
	};
	let mut seen: HashSet<(u8, u32, u32)> = HashSet::new();
	for (c, b) in &out.output {
		let key = (c.z, c.x, c.y);
		if !seen.insert(key) {
			rep.violation(&format!("{opn}|duplicate"), "a coordinate was delivered twice", witness(out));
			return;
		}
		match expect.get(&key) {
			None => {
				rep.violation(&format!("{opn}|unexpected"), "an item that should have been dropped (or never existed) was delivered", witness(out));
				return;
			}
			Some(e) => {
				if e.as_slice() != b.as_slice() {
					rep.violation(&format!("{opn}|re-paired"), "an output is attached to a coordinate it was not computed from", witness(out));
					return;
				}
			}
		}
	}
	if seen.len() != expect.len() {
		rep.violation(&format!("{opn}|lost"), "a retained item is missing from the output", witness(out));
	}
}

fn permutations(n: usize) -> Vec<Vec<usize>> {
	fn rec(cur: &mut Vec<usize>, used: &mut Vec<bool>, n: usize, out: &mut Vec<Vec<usize>>) {
		if cur.len() == n {
			out.push(cur.clone());
			return;
		}
		for i in 0..n {
			if !used[i] {
				used[i] = true;
				cur.push(i);
				rec(cur, used, n, out);
				cur.pop();
				used[i] = false;
			}
		}
	}
	let mut out = vec![];
	rec(&mut vec![], &mut vec![false; n], n, &mut out);
	out
}

fn exhaustive(cx: &CaseCtx, rep: &mut Report) {
	let op = [OpKind::Map, OpKind::FilterMap, OpKind::FromCoords][(cx.case / 6) as usize];
	let n = (cx.case % 6) as usize;
	cx.progress(&format!("exhaustive {op:?} n={n}"));
	if num_cpus::get() < 6 {
		rep.inconclusive("fewer than 6 CPUs: completion orders cannot be forced");
		return;
	}
	let cs = coords(n);
	let masks: Vec<u32> = if op == OpKind::Map || n > 4 { vec![(1u32 << n) - 1] } else { (0..(1u32 << n)).collect() };
	let mut orders_seen: HashSet<Vec<String>> = HashSet::new();
	let mut out_orders: HashSet<Vec<(u32, u32)>> = HashSet::new();
	for perm in permutations(n) {
		// perm[r] = item that finishes r-th  =>  rank[item] = r
		let mut rank = vec![None; n];
		for (r, item) in perm.iter().enumerate() {
			rank[*item] = Some(r);
		}
		for mask in &masks {
			for empties in [0u32, 0b10101] {
				let script = Script {
					rank: rank.clone(),
					delay_us: vec![0; n],
					retain: (0..n).map(|i| mask & (1 << i) != 0).collect(),
					empty_out: (0..n).map(|i| empties & (1 << i) != 0).collect(),
					feed: 0,
				};
				let r = guard::catch(|| execute(op, &cs, &script, 8));
				rep.eval();
				match r {
					Err(p) => rep.violation(&p.signature("tile_stream"), "stream operator panicked", json!({"operator": format!("{op:?}"), "n": n, "perm": perm, "panic": p.describe()})),
					Ok(out) => {
						if out.forced_failed {
							rep.inconclusive(&format!("forced order {perm:?} for n={n} could not be established (tasks not all in flight)"));
							continue;
						}
						rep.count("forced_orders_run", 1);
						rep.max("inflight", out.max_inflight as u64);
						let expect_order: Vec<String> = perm.iter().map(|i| format!("in:{}/{}/{}", cs[*i].z, cs[*i].x, cs[*i].y)).collect();
						if out.completion_order == expect_order {
							rep.count("forced_orders_confirmed", 1);
						} else {
							rep.inconclusive(&format!("completion order observed differs from the forced one for n={n}"));
						}
						if perm.iter().enumerate().any(|(r, i)| r != *i) {
							rep.count("executions_with_reordered_completion", 1);
						}
						orders_seen.insert(out.completion_order.clone());
						out_orders.insert(out.output.iter().map(|(c, _)| (c.x, c.y)).collect());
						if n >= 2 {
							rep.nontrivial(fnv(format!("{op:?}{perm:?}{mask}{empties}").as_bytes()));
						}
						check_outcome(rep, op, &cs, &script, &out, &format!("forced {perm:?}"));
						if rep.wants_sample() && n == 3 && *mask == 0b101 {
							rep.sample(json!({"operator": format!("{op:?}"), "n": n, "forced_completion_order": perm, "retain_mask": mask,
								"observed_completion": out.completion_order, "output": out.output.iter().map(|(c, b)| format!("{}/{}/{} -> {}", c.z, c.x, c.y, String::from_utf8_lossy(b.as_slice()))).collect::<Vec<_>>()}));
						}
					}
				}
			}
		}
	}
	rep.count("distinct_completion_permutations_observed", orders_seen.len() as u64);
	rep.count("distinct_output_orders_observed", out_orders.len() as u64);
}

fn adversarial(cx: &CaseCtx, rep: &mut Report) {
	let mut rng = cx.rng();
	let k = cx.case - EXH;
	let sizes = [0usize, 1, 2, 15, 16, 17, 100, 1000, 10_000];
	let n = sizes[(k % sizes.len() as u64) as usize];
	let op = [OpKind::Map, OpKind::FilterMap, OpKind::FromCoords][((k / sizes.len() as u64) % 3) as usize];
	let pattern = (k / (sizes.len() as u64 * 3)) % 4;
	let workers = *rng.pick(&[2usize, 4, 8, 16]);
	cx.progress(&format!("adversarial {op:?} n={n} pattern={pattern} workers={workers}"));
	let cs = coords(n);
	let unit: u64 = if n <= 100 { 400 } else if n <= 1000 { 60 } else { 8 };
	let delay_us: Vec<u64> = (0..n)
		.map(|i| match pattern {
			0 => (n - i) as u64 % 16 * unit,                   // earlier tiles finish later
			1 => if i == 0 { unit * 40 } else { 0 },           // one straggler at the front
			2 => if i % 2 == 0 { unit * 3 } else { 0 },        // alternating
			_ => rng.below(8) * unit,                           // random
		})
		.collect();
	let retain: Vec<bool> = (0..n).map(|_| op == OpKind::Map || rng.chance(0.7)).collect();
	let empty_out: Vec<bool> = (0..n).map(|_| rng.chance(0.1)).collect();
	let feed = rng.below(3) as u8;
	rep.count(&format!("adversarial_runs_feed_{feed}"), 1);
	let script = Script { rank: vec![None; n], delay_us, retain, empty_out, feed };
	let r = guard::catch(|| execute(op, &cs, &script, workers));
	rep.eval();
	match r {
		Err(p) => rep.violation(&p.signature("tile_stream"), "stream operator panicked", json!({"operator": format!("{op:?}"), "n": n, "panic": p.describe()})),
		Ok(out) => {
			rep.max("inflight", out.max_inflight as u64);
			rep.label("stream_lengths", &n.to_string());
			let submitted: Vec<String> = cs.iter().map(|c| format!("in:{}/{}/{}", c.z, c.x, c.y)).collect();
			if out.completion_order != submitted {
				rep.count("executions_with_reordered_completion", 1);
			}
			if out.max_inflight >= 2 {
				rep.nontrivial(fnv(format!("adv{op:?}{n}{pattern}{workers}{}", cx.case).as_bytes()));
			}
			check_outcome(rep, op, &cs, &script, &out, &format!("pattern {pattern} on {workers} workers"));
		}
	}
	// the same operators on a current-thread runtime (tasks run one after the other)
	if n <= 1000 {
		for feed in 0..3u8 {
			let script2 = Script { rank: vec![None; n], delay_us: vec![0; n], retain: script.retain.clone(), empty_out: script.empty_out.clone(), feed };
			match guard::catch(|| execute(op, &cs, &script2, 0)) {
				Err(p) => rep.violation(&p.signature("tile_stream"), "stream operator panicked", json!({"operator": format!("{op:?}"), "n": n, "feed": feed, "panic": p.describe()})),
				Ok(out) => {
					rep.eval();
					check_outcome(rep, op, &cs, &script2, &out, &format!("current-thread runtime, feed {feed}"));
				}
			}
		}
	}
}

fn consumers(cx: &CaseCtx, rep: &mut Report) {
	let k = (cx.case - EXH - adversarial_cases(cx.tier)) as usize;
	let ns = [0usize, 1, 2, 7, 16, 17, 100, 1000, 4096, 10_000, 33, 255];
	let n = ns[k % ns.len()];
	cx.progress(&format!("consumers n={n}"));
	let cs = coords(n);
	let items: Vec<(TileCoord3, Blob)> = cs.iter().map(|c| (*c, input_blob(c))).collect();
	let same = |a: &[(TileCoord3, Blob)], b: &[(TileCoord3, Blob)]| a.len() == b.len() && a.iter().zip(b).all(|(x, y)| x.0 == y.0 && x.1.as_slice() == y.1.as_slice());
	// size 0 behaves like 1 (a chunk is handed over as soon as it holds at least `size` items)
	let mut sizes = vec![0usize, 1, 2, 7, 100_000];
	for s in [n.saturating_sub(1), n, n + 1] {
		if s > 0 {
			sizes.push(s);
		}
	}
	for size in sizes {
		// through a parallel map first, so that the buffered consumer sits behind the unordered stage
		for parallel in [false, true] {
			let r = guard::catch(|| {
				guard::block_on_mt(4, async {
					let mut chunks: Vec<Vec<(TileCoord3, Blob)>> = vec![];
					let s = if (size + n) % 2 == 0 { strict_source(items.clone()) } else { TileStream::from_vec(items.clone()) };
					let s = if parallel { s.map_blob_parallel(|b| b) } else { s };
					s.for_each_buffered(size, |v| chunks.push(v)).await;
					chunks
				})
			});
			rep.eval();
			match r {
				Err(p) => rep.violation(&p.signature("for_each_buffered"), "buffered consumer panicked", json!({"n": n, "buffer": size, "panic": p.describe()})),
				Ok(chunks) => {
					rep.count("buffered_runs", 1);
					rep.nontrivial(fnv(format!("buf{n}/{size}/{parallel}").as_bytes()));
					let w = json!({"n": n, "buffer": size, "parallel_stage": parallel, "chunk_sizes": chunks.iter().take(20).map(|c| c.len()).collect::<Vec<_>>()});
					let last = chunks.len().saturating_sub(1);
					let size = size.max(1);
					for (i, c) in chunks.iter().enumerate() {
						if c.is_empty() || c.len() > size || (i != last && c.len() != size) {
							rep.violation("for_each_buffered|chunk-size", "chunk sizes are not `size, size, …, rest`", w.clone());
							break;
						}
					}
					let mut flat: Vec<(TileCoord3, Blob)> = chunks.into_iter().flatten().collect();
					if parallel {
						flat.sort_by_key(|(c, _)| (c.y, c.x));
					}
					if !same(&flat, &items) {
						rep.violation("for_each_buffered|items", "buffered consumer did not see every item exactly once (in order behind a sequential stage)", w);
					}
				}
			}
		}
	}
	// a stream is lazy: it may be put together under one runtime (a blocking helper with a short-lived runtime of
	// its own) and drained later under another one, after the first is gone
	if n <= 1000 {
		let built_elsewhere = guard::catch(|| {
			let (a, b) = {
				let rt = tokio::runtime::Builder::new_multi_thread().worker_threads(2).enable_all().build().unwrap();
				let cs2 = cs.clone();
				let items2 = items.clone();
				let pair = rt.block_on(async move {
					let a = TileStream::from_coord_iter_parallel(cs2.into_iter(), |c| Some(input_blob(&c)));
					let b = TileStream::from_vec(items2).map_blob_parallel(|b| b);
					(a, b)
				});
				drop(rt);
				pair
			};
			guard::block_on_mt(4, async move { (a.collect().await, b.collect().await) })
		});
		rep.eval();
		match built_elsewhere {
			Err(p) => rep.violation(&p.signature("tile_stream_two_runtimes"), "a stream built under one runtime and drained under another panicked", json!({"n": n, "panic": p.describe()})),
			Ok((mut a, mut b)) => {
				rep.count("streams_built_and_drained_under_different_runtimes", 2);
				a.sort_by_key(|(c, _)| (c.y, c.x));
				b.sort_by_key(|(c, _)| (c.y, c.x));
				if !same(&a, &items) {
					rep.violation("FromCoords|two-runtimes|items", "a generate-from-coordinates stream built under one runtime and drained under another lost or changed items", json!({"n": n, "delivered": a.len()}));
				}
				if !same(&b, &items) {
					rep.violation("Map|two-runtimes|items", "a parallel map built under one runtime and drained under another lost or changed items", json!({"n": n, "delivered": b.len()}));
				}
			}
		}
	}
	// the same coordinate may occur more than once in a stream (overlapping sources): those are separate items
	if n >= 2 {
		let mut dup: Vec<(TileCoord3, Blob)> = vec![];
		for (i, (c, b)) in items.iter().enumerate().take(200) {
			dup.push((*c, b.clone()));
			if i % 3 == 1 {
				dup.push((*c, Blob::from(format!("second item at the same coordinate #{i}"))));
			}
		}
		for size in [1usize, 2, 3, 5, 1000] {
			let r = guard::catch(|| {
				guard::block_on(async {
					let mut seen: Vec<(TileCoord3, Blob)> = vec![];
					TileStream::from_vec(dup.clone()).for_each_buffered(size, |v| seen.extend(v)).await;
					seen
				})
			});
			rep.eval();
			match r {
				Err(p) => rep.violation(&p.signature("for_each_buffered"), "buffered consumer panicked", json!({"n": dup.len(), "buffer": size, "panic": p.describe()})),
				Ok(seen) => {
					rep.count("buffered_runs_with_repeated_coordinates", 1);
					if !same(&seen, &dup) {
						rep.violation("for_each_buffered|items|repeated-coordinates", "buffered consumer did not see every item exactly once (items sharing a coordinate)", json!({"items": dup.len(), "seen": seen.len(), "buffer": size}));
					}
				}
			}
		}
	}
	// the remaining consumers and sequential stages
	let r = guard::catch(|| {
		guard::block_on(async {
			let a = TileStream::from_vec(items.clone()).collect().await;
			let mut b = vec![];
			TileStream::from_vec(items.clone()).for_each_sync(|it| b.push(it)).await;
			let c = std::sync::Mutex::new(vec![]);
			TileStream::from_vec(items.clone())
				.for_each_async(|it| {
					c.lock().unwrap().push(it);
					async {}
				})
				.await;
			let d = TileStream::from_vec(items.clone()).drain_and_count().await;
			let mut e = vec![];
			let mut s = TileStream::from_vec(items.clone());
			while let Some(it) = s.next().await {
				e.push(it);
			}
			let f = TileStream::from_vec(items.clone()).map_coord(|mut c| {
				std::mem::swap(&mut c.x, &mut c.y);
				c
			});
			let f = f.collect().await;
			let g = TileStream::from_coord_vec_async(cs.clone(), |c| async move { if c.x % 3 == 0 { None } else { Some((c, input_blob(&c))) } }).collect().await;
			let parts: Vec<Vec<(TileCoord3, Blob)>> = items.chunks(7).map(|c| c.to_vec()).collect();
			let h = TileStream::from_stream_iter(parts.into_iter().map(|p| async move { TileStream::from_vec(p) })).await.collect().await;
			let z = TileStream::new_empty().collect().await;
			(a, b, c.into_inner().unwrap(), d, e, f, g, h, z)
		})
	});
	rep.eval();
	match r {
		Err(p) => rep.violation(&p.signature("tile_stream_consumers"), "stream consumer panicked", json!({"n": n, "panic": p.describe()})),
		Ok((a, b, c, d, e, f, g, h, z)) => {
			rep.count("consumer_runs", 1);
			let w = json!({"n": n});
			if !same(&a, &items) {
				rep.violation("collect|items", "collect differs from the input", w.clone());
			}
			if !same(&b, &items) {
				rep.violation("for_each_sync|items", "for_each_sync differs from the input", w.clone());
			}
			if !same(&c, &items) {
				rep.violation("for_each_async|items", "for_each_async differs from the input", w.clone());
			}
			if d != n as u64 {
				rep.violation("drain_and_count|count", "drain_and_count differs from the number of items", w.clone());
			}
			if !same(&e, &items) {
				rep.violation("next|items", "next() iteration differs from the input", w.clone());
			}
			let swapped: Vec<(TileCoord3, Blob)> = items.iter().map(|(c, b)| (TileCoord3::new(c.y, c.x, c.z).unwrap(), b.clone())).collect();
			if !same(&f, &swapped) {
				rep.violation("map_coord|items", "map_coord did not keep blobs with their mapped coordinates", w.clone());
			}
			let filtered: Vec<(TileCoord3, Blob)> = items.iter().filter(|(c, _)| c.x % 3 != 0).cloned().collect();
			if !same(&g, &filtered) {
				rep.violation("from_coord_vec_async|items", "from_coord_vec_async differs from the model", w.clone());
			}
			if !same(&h, &items) {
				rep.violation("from_stream_iter|items", "flattened streams differ from the concatenation", w.clone());
			}
			if !z.is_empty() {
				rep.violation("new_empty|items", "empty stream delivered items", w);
			}
		}
	}
}

fn run_case(cx: &CaseCtx, rep: &mut Report) {
	let _ = coord(0);
	let _ = Rng::new(0);
	if cx.case < EXH {
		exhaustive(cx, rep);
	} else if cx.case < EXH + adversarial_cases(cx.tier) {
		adversarial(cx, rep);
	} else {
		consumers(cx, rep);
	}
}
