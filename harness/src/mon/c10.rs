//! C10 — merging vector tiles concatenates the features of equally named layers.
//!
//! Sources hold tiles produced by the independent MVT encoder; the output of
//! `from_vectortiles_merged` is decoded with the independent decoder and compared, on the
//! canonical form, with the concatenation model (lookups and streams).

use crate::check::kstr;
use crate::codec::imvt::{self, CFeature, CTile};
use crate::comp::{self, Comp};
use crate::gen::{coord_of, key_of, Key};
use crate::guard;
use crate::mvtsrc::{gen_vector_sets, VecSet};
use crate::pipe::{self, Sources, Src};
use crate::report::{Plan, Report, Tier};
use crate::rng::fnv;
use crate::shard::{CaseCtx, MonitorDef};
use serde_json::json;
use std::collections::{BTreeMap, BTreeSet};
use versatiles_core::types::*;

pub fn def() -> MonitorDef {
	MonitorDef { id: "C10", plan, run_case, finalize }
}

fn plan(tier: Tier, _seed: u64) -> Plan {
	Plan {
		cases: tier.pick(200, 2500),
		shards: 14,
		case_timeout_s: 600,
		level: "exploration",
		rule: "one case = 2..4 vector-tile sources (same or mixed compression, partly overlapping coverage, some going Pending while opened / streamed) whose tiles come from the independent MVT encoder: 1..4 layers from a pool of 5 names (so names overlap between sources), 0..6 features per layer, every value type incl. extreme integers, duplicate and unused table entries, foreign field order, differing extents / versions, empty layers, unknown geometry types, ids up to 2^64-1. One evaluation = one output tile compared with the model through a lookup or a stream. Non-trivial: a coordinate where at least two sources contribute to the same layer name; distinct by (sources, coordinate)".into(),
		assumptions: vec!["layer order inside the output tile, and the extent / version the merged layer carries, are not constrained; integers are compared by value".into()],
		min_evaluations: 2_000,
		exhaustive: false,
		timeouts_excluded: false,
	}
}

fn finalize(_t: Tier, _p: &Plan, rep: &mut Report) {
	for k in ["tiles_with_shared_layer_names", "tiles_from_single_source", "cases_mixed_compression", "cases_with_pending_sources", "stream_tiles_checked", "lookup_tiles_checked"] {
		if rep.counter(k) == 0 {
			rep.inconclusive(&format!("nothing observed for {k}"));
		}
	}
}

/// what the merged tile must contain: layer name -> features in source order
fn model_tile(sets: &[VecSet], k: &Key) -> Option<BTreeMap<String, Vec<CFeature>>> {
	let mut out: BTreeMap<String, Vec<CFeature>> = BTreeMap::new();
	let mut any = false;
	for s in sets {
		if let Some(ls) = s.layers.get(k) {
			any = true;
			for l in imvt::canonical(ls).layers {
				out.entry(l.name.clone()).or_default().extend(l.features);
			}
		}
	}
	if any {
		Some(out)
	} else {
		None
	}
}

fn compare(got: &CTile, want: &BTreeMap<String, Vec<CFeature>>) -> Option<(String, serde_json::Value)> {
	let names: BTreeSet<String> = got.layers.iter().map(|l| l.name.clone()).collect();
	if names.len() != got.layers.len() {
		return Some(("duplicate-layer-name".into(), json!({"layers": got.layer_names()})));
	}
	let wn: BTreeSet<String> = want.keys().cloned().collect();
	if names != wn {
		return Some(("layer-set".into(), json!({"got": names, "expected": wn})));
	}
	for l in &got.layers {
		let w = &want[&l.name];
		if l.features.len() != w.len() {
			return Some(("feature-count".into(), json!({"layer": l.name, "got": l.features.len(), "expected": w.len()})));
		}
		for (i, (g, e)) in l.features.iter().zip(w).enumerate() {
			if g.id != e.id {
				return Some(("feature-id-or-order".into(), json!({"layer": l.name, "index": i, "got": g.id, "expected": e.id, "got_ids": l.features.iter().map(|f| f.id).collect::<Vec<_>>(), "expected_ids": w.iter().map(|f| f.id).collect::<Vec<_>>()})));
			}
			if g.gtype != e.gtype || g.geom != e.geom {
				return Some(("geometry".into(), json!({"layer": l.name, "index": i})));
			}
			if g.props != e.props {
				return Some(("properties".into(), json!({"layer": l.name, "index": i, "got": format!("{:?}", g.props), "expected": format!("{:?}", e.props)})));
			}
		}
	}
	None
}

fn run_case(cx: &CaseCtx, rep: &mut Report) {
	let mut rng = cx.rng();
	let n = rng.range(2, 4) as usize;
	let mixed = rng.bool();
	let enc = imvt::EncOpts { dup_keys: rng.chance(0.4), dup_vals: rng.chance(0.4), unused_entries: rng.chance(0.3), foreign_field_order: rng.chance(0.5), split_packed: rng.chance(0.25) };
	let go = imvt::GenOpts { extreme_values: rng.chance(0.5), wide_tables: if cx.tier.is_tiny() { 0.0 } else { 0.03 }, ..Default::default() };
	let mut sets = gen_vector_sets(&mut rng, n, &go, mixed, &enc);
	if cx.tier.is_tiny() {
		for s in sets.iter_mut() {
			s.truncate(2);
		}
	}
	rep.count("tiles_with_tables_beyond_16384_entries", sets.iter().map(|s| s.layers.values().filter(|l| imvt::has_wide_table(l)).count() as u64).sum());
	if sets.iter().map(|s| s.comp).collect::<BTreeSet<Comp>>().len() > 1 {
		rep.count("cases_mixed_compression", 1);
	}
	let mut sources = Sources::new();
	let mut parts = vec![];
	let mut pending = false;
	for (i, s) in sets.iter().enumerate() {
		let yields = if rng.chance(0.4) { rng.range(1, 3) as u32 } else { 0 };
		let open_yields = if rng.chance(0.3) { rng.range(1, 4) as u32 } else { 0 };
		pending |= yields + open_yields > 0;
		sources.add(&format!("v{i}.x"), Src::Mem { ts: s.tileset(&format!("v{i}")), pyramid: None, default_stream: rng.chance(0.25), yields, open_yields });
		parts.push(format!("from_container filename=v{i}.x"));
	}
	if pending {
		rep.count("cases_with_pending_sources", 1);
	}
	let vpl = format!("from_vectortiles_merged [ {} ]", parts.join(", "));
	cx.progress(&vpl);
	let witness = |extra: serde_json::Value| json!({"vpl": vpl, "sources": sets.iter().map(|s| json!({"compression": s.comp.name(), "tiles": s.blobs.keys().map(kstr).collect::<Vec<_>>()})).collect::<Vec<_>>(), "encoder": format!("{enc:?}"), "detail": extra});
	let (reader, _logs) = match guard::catch(|| guard::block_on_mt(2, pipe::build(&vpl, &sources, None))) {
		Err(p) => {
			rep.violation(&p.signature("build-merged"), "building the merge pipeline panicked", witness(json!({"panic": p.describe()})));
			return;
		}
		Ok(Err(e)) => {
			rep.violation("build-failed", "a valid merge pipeline was rejected", witness(json!({"error": format!("{e:#}")})));
			return;
		}
		Ok(Ok(x)) => x,
	};
	if reader.get_parameters().tile_compression != TileCompression::Uncompressed {
		rep.violation("declared-compression", "merged output is not declared uncompressed", witness(json!({"declared": format!("{:?}", reader.get_parameters().tile_compression)})));
	}
	let mut all: BTreeSet<Key> = BTreeSet::new();
	for s in &sets {
		all.extend(s.blobs.keys().cloned());
	}
	let mut probes = all.clone();
	for k in &all {
		let m = ((1u64 << k.0) - 1) as u32;
		probes.insert((k.0, (k.1 + 1).min(m), k.2));
		probes.insert((k.0, k.1, k.2.saturating_sub(1)));
	}
	let mut check_tile = |k: &Key, data: Option<&[u8]>, path: &str, rep: &mut Report| {
		rep.eval();
		let want = model_tile(&sets, k);
		match (data, want) {
			(None, None) => {}
			(Some(_), None) => rep.violation(&format!("{path}|tile-from-nowhere"), "output tile where no source has one", witness(json!({"tile": kstr(k)}))),
			(None, Some(_)) => rep.violation(&format!("{path}|tile-missing"), "no output tile although a source has one", witness(json!({"tile": kstr(k)}))),
			(Some(d), Some(w)) => {
				let holders = sets.iter().filter(|s| s.layers.contains_key(k)).count();
				if holders >= 2 {
					let mut names: BTreeMap<String, usize> = BTreeMap::new();
					for s in &sets {
						if let Some(ls) = s.layers.get(k) {
							for l in ls {
								*names.entry(l.name.clone()).or_default() += 1;
							}
						}
					}
					if names.values().any(|c| *c >= 2) {
						rep.count("tiles_with_shared_layer_names", 1);
						rep.nontrivial(fnv(format!("{vpl}{k:?}{}", cx.case).as_bytes()));
					}
				} else {
					rep.count("tiles_from_single_source", 1);
				}
				match imvt::decode(d) {
					Err(e) => rep.violation(&format!("{path}|not-a-vector-tile"), "output is not a decodable (uncompressed) vector tile", witness(json!({"tile": kstr(k), "error": e, "head": crate::check::short(d)}))),
					Ok(t) => {
						if let Some((kind, detail)) = compare(&t, &w) {
							rep.violation(&format!("{path}|{kind}"), "merged tile differs from the concatenation of the source layers", witness(json!({"tile": kstr(k), "contributing_sources": holders, "d": detail})));
						}
					}
				}
			}
		}
	};
	// lookups
	let fut = async {
		let mut v = vec![];
		for k in &probes {
			v.push((*k, reader.get_tile_data(&coord_of(k)).await.map(|o| o.map(|b| b.into_vec())).map_err(|e| format!("{e:#}"))));
		}
		v
	};
	match guard::catch(|| guard::block_on(fut)) {
		Err(p) => rep.violation(&p.signature("lookup-merged"), "lookup of a merged tile panicked", witness(json!({"panic": p.describe()}))),
		Ok(v) => {
			for (k, r) in v {
				match r {
					Err(e) => rep.violation("lookup|error", "lookup of a merged tile failed", witness(json!({"tile": kstr(&k), "error": e}))),
					Ok(d) => {
						rep.count("lookup_tiles_checked", 1);
						check_tile(&k, d.as_deref(), "lookup", rep)
					}
				}
			}
		}
	}
	// streams over the advertised level boxes, on a multi-thread runtime half of the time
	for lb in reader.get_parameters().bbox_pyramid.iter_levels().cloned().collect::<Vec<_>>() {
		if lb.count_tiles() > 20_000 {
			continue;
		}
		let mt = rng.bool();
		let fut = async { reader.get_bbox_tile_stream(lb.clone()).await.collect().await };
		match guard::catch(|| if mt { guard::block_on_mt(4, fut) } else { guard::block_on(fut) }) {
			Err(p) => rep.violation(&p.signature("stream-merged"), "stream of merged tiles panicked", witness(json!({"bbox": format!("{lb:?}"), "panic": p.describe()}))),
			Ok(items) => {
				let mut seen = BTreeSet::new();
				for (c, b) in &items {
					let k = key_of(c);
					if !seen.insert(k) || !lb.contains3(c) {
						rep.violation("stream|duplicate-or-outside", "stream delivered a coordinate twice or outside the box", witness(json!({"tile": kstr(&k)})));
					}
					rep.count("stream_tiles_checked", 1);
					check_tile(&k, Some(b.as_slice()), "stream", rep);
				}
				for k in &all {
					if k.0 == lb.level && lb.contains3(&coord_of(k)) && !seen.contains(k) {
						rep.violation("stream|tile-missing", "stream lacks a tile a source has", witness(json!({"tile": kstr(k)})));
						break;
					}
				}
			}
		}
	}
	// coverage = union of the sources' coverage
	for k in &all {
		if !reader.get_parameters().bbox_pyramid.contains_coord(&coord_of(k)) {
			rep.violation("coverage|misses-tile", "advertised coverage misses a tile of a source", witness(json!({"tile": kstr(k)})));
			break;
		}
	}
	if rep.wants_sample() {
		if let Some(k) = all.iter().find(|k| sets.iter().filter(|s| s.layers.contains_key(k)).count() >= 2) {
			let m = model_tile(&sets, k).unwrap();
			rep.sample(json!({"vpl": vpl, "tile": kstr(k), "expected_layers": m.iter().map(|(n, f)| format!("{n}: {} features", f.len())).collect::<Vec<_>>()}));
		}
	}
	let _ = comp::ALL;
}
