//! C08 — overlay returns the tile of the first listed source that has one.
//!
//! Sequential model over 2..4 sources (in-memory and real container files, partly overlapping or
//! disjoint coverages, mixed compressions, optionally filtered, sources that go Pending while
//! opening / streaming): lookups, streams, declared compression and advertised coverage.

use crate::check::kstr;
use crate::comp::{self, Comp};
use crate::gen::{coord_of, key_of, Key, Req, TileSet};
use crate::guard;
use crate::mon::c01::{container_path, pairs_for, TARGETS};
use crate::pipe::{self, Sources, Src};
use crate::report::{Plan, Report, Tier};
use crate::rng::fnv;
use crate::shard::{CaseCtx, MonitorDef};
use crate::sources::related_sets;
use serde_json::json;
use std::collections::{BTreeMap, BTreeSet};
use versatiles_core::types::*;

pub fn def() -> MonitorDef {
	MonitorDef { id: "C08", plan, run_case, finalize }
}

fn plan(tier: Tier, _seed: u64) -> Plan {
	Plan {
		cases: tier.pick(160, 2000),
		shards: 14,
		case_timeout_s: 120,
		level: "exploration",
		rule: "one case = (2..4 sources with payload 's<i>:z/x/y' really compressed with the source's compression; each source in memory (exact or widened coverage, optionally going Pending when opened / read) or a real container file of any format that accepts it; coverages overlapping, disjoint or on different zoom levels, with holes; optionally each source and / or the overlay wrapped in zoom filters). One evaluation = one coordinate or box compared with the first-source model. Non-trivial: at least one coordinate is held by two sources and at least one only by a later source; distinct by (sources, pipeline text)".into(),
		assumptions: vec!["tiles are compared after decoding with the compression the overlay declares (harness's own gzip / brotli); when all sources share one compression the bytes must be identical".into()],
		min_evaluations: 10_000,
		exhaustive: false,
		timeouts_excluded: false,
	}
}

fn finalize(_t: Tier, _p: &Plan, rep: &mut Report) {
	for k in ["cases_mixed_compression", "cases_with_file_sources", "coordinates_held_by_several_sources", "coordinates_only_in_later_source", "stream_requests_received_by_sources", "cases_with_pending_sources"] {
		if rep.counter(k) == 0 {
			rep.inconclusive(&format!("nothing observed for {k}"));
		}
	}
}

fn run_case(cx: &CaseCtx, rep: &mut Report) {
	let mut rng = cx.rng();
	// every fifth case on a machine with a single CPU (threads started from here inherit the restriction)
	let _one_cpu = if cx.case % 5 == 4 { Some(guard::OneCpu::new()) } else { None };
	if _one_cpu.is_some() {
		rep.count("cases_on_a_single_cpu", 1);
	}
	let dir = cx.fresh_dir("c08");
	let n = rng.range(2, 4) as usize;
	let mixed = rng.chance(0.5);
	let format = *rng.pick(&[TileFormat::PNG, TileFormat::JPG, TileFormat::WEBP, TileFormat::BIN, TileFormat::JSON, TileFormat::PBF]);
	let sets: Vec<TileSet> = related_sets(&mut rng, n, cx.tier.pick(150, 400), mixed, Some(format));
	let comps: BTreeSet<Comp> = sets.iter().map(|s| s.comp).collect();
	if comps.len() > 1 {
		rep.count("cases_mixed_compression", 1);
	}
	let out_comp = if comps.len() == 1 { *comps.iter().next().unwrap() } else { Comp::None };

	let mut sources = Sources::new();
	let mut parts: Vec<String> = vec![];
	let mut models: Vec<BTreeMap<Key, Vec<u8>>> = vec![]; // raw (decoded) payload per source after its filters
	let mut pending = false;
	for (i, ts) in sets.iter().enumerate() {
		let name = format!("s{i}.x");
		let targets: Vec<&str> = TARGETS.iter().cloned().filter(|t| pairs_for(t).contains(&(ts.format, ts.comp))).collect();
		if rng.chance(0.35) && !targets.is_empty() {
			let target = *rng.pick(&targets);
			let sub = dir.join(format!("src{i}"));
			let _ = std::fs::create_dir_all(&sub);
			let path = container_path(&sub, target);
			if target == "directory" {
				let _ = std::fs::create_dir_all(&path);
			}
			let mut m = crate::gen::MemSource::new(ts);
			if let Err(e) = guard::block_on(versatiles_container::write_to_filename(&mut m, path.to_str().unwrap())) {
				rep.inconclusive(&format!("fixture write failed: {e:#}"));
				return;
			}
			sources.add(&name, Src::File(path));
			rep.count("cases_with_file_sources", 1);
		} else {
			let pyramid = if rng.chance(0.3) {
				let mut p = ts.pyramid();
				p.add_border(1, 2, 2, 1);
				Some(p)
			} else {
				None
			};
			let yields = if rng.chance(0.35) { rng.range(1, 3) as u32 } else { 0 };
			let open_yields = if rng.chance(0.35) { rng.range(1, 5) as u32 } else { 0 };
			if yields + open_yields > 0 {
				pending = true;
			}
			// a later source whose single-tile reads fail exactly where an earlier source already has the tile
			// (a damaged region, an unreadable file): the overlay's answer there is the earlier source's tile,
			// whatever the later ones would have said
			let failing = i > 0 && rng.chance(0.3);
			if failing {
				let earlier: BTreeSet<Key> = models.iter().flat_map(|m: &BTreeMap<Key, Vec<u8>>| m.keys().cloned()).collect();
				if !earlier.is_empty() {
					sources.failing.insert(name.clone(), std::sync::Arc::new(earlier));
					rep.count("cases_with_a_later_source_failing_under_earlier_tiles", 1);
				}
			}
			sources.add(&name, Src::Mem { ts: ts.clone(), pyramid, default_stream: !failing && rng.chance(0.25), yields, open_yields });
		}
		let mut text = format!("from_container filename={name}");
		let mut model: BTreeMap<Key, Vec<u8>> = ts.tiles.iter().map(|(k, v)| (*k, comp::decompress(v, ts.comp).unwrap())).collect();
		if rng.chance(0.12) {
			// a member that ends up without any tile (filtered to levels it does not have): still a member
			let top = ts.levels().into_iter().max().unwrap_or(0);
			if top < 31 {
				text.push_str(&format!(" | filter_zoom min={}", top + 1));
				model.clear();
				rep.count("members_without_any_tile", 1);
			}
		} else if rng.chance(0.3) {
			let lv: Vec<u8> = ts.levels().into_iter().collect();
			let (a, b) = (*rng.pick(&lv), *rng.pick(&lv));
			let (lo, hi) = (a.min(b), a.max(b));
			// both limits, or only one of them (the other end stays open: level 0 / level 31)
			match rng.below(3) {
				0 => {
					text.push_str(&format!(" | filter_zoom min={lo}"));
					model.retain(|k, _| k.0 >= lo);
				}
				1 => {
					text.push_str(&format!(" | filter_zoom max={hi}"));
					model.retain(|k, _| k.0 <= hi);
				}
				_ => {
					text.push_str(&format!(" | filter_zoom min={lo} max={hi}"));
					model.retain(|k, _| k.0 >= lo && k.0 <= hi);
				}
			}
		}
		parts.push(text);
		models.push(model);
	}
	if pending {
		rep.count("cases_with_pending_sources", 1);
	}
	let mut vpl = format!("from_overlayed [ {} ]", parts.join(", "));
	let mut outer: Option<(u8, u8)> = None;
	if rng.chance(0.3) {
		let all: BTreeSet<u8> = sets.iter().flat_map(|s| s.levels()).collect();
		let lv: Vec<u8> = all.into_iter().collect();
		let (a, b) = (*rng.pick(&lv), *rng.pick(&lv));
		match rng.below(3) {
			0 => {
				outer = Some((a.min(b), 31));
				vpl.push_str(&format!(" | filter_zoom min={}", a.min(b)));
			}
			1 => {
				outer = Some((0, a.max(b)));
				vpl.push_str(&format!(" | filter_zoom max={}", a.max(b)));
			}
			_ => {
				outer = Some((a.min(b), a.max(b)));
				vpl.push_str(&format!(" | filter_zoom min={} max={}", a.min(b), a.max(b)));
			}
		}
	}
	cx.progress(&vpl);
	let witness = |extra: serde_json::Value| json!({"vpl": vpl, "sources": sets.iter().map(|s| json!({"compression": s.comp.name(), "tiles": s.tiles.len(), "levels": s.describe()["levels"]})).collect::<Vec<_>>(), "detail": extra});

	// the model of the whole pipeline
	let mut expect: BTreeMap<Key, (usize, Vec<u8>)> = BTreeMap::new();
	let mut multi = 0u64;
	let mut later_only = 0u64;
	let mut all_keys: BTreeSet<Key> = BTreeSet::new();
	for m in &models {
		all_keys.extend(m.keys().cloned());
	}
	for k in &all_keys {
		if let Some((lo, hi)) = outer {
			if k.0 < lo || k.0 > hi {
				continue;
			}
		}
		let holders: Vec<usize> = (0..models.len()).filter(|i| models[*i].contains_key(k)).collect();
		if holders.len() > 1 {
			multi += 1;
		}
		if holders[0] > 0 {
			later_only += 1;
		}
		expect.insert(*k, (holders[0], models[holders[0]][k].clone()));
	}
	rep.count("coordinates_held_by_several_sources", multi);
	rep.count("coordinates_only_in_later_source", later_only);
	if multi > 0 && later_only > 0 {
		rep.nontrivial(fnv(vpl.as_bytes()) ^ sets.iter().fold(0, |a, s| a ^ s.fingerprint()));
	}

	let built = guard::catch(|| guard::block_on_mt(2, pipe::build(&vpl, &sources, None)));
	let (reader, logs) = match built {
		Err(p) => {
			rep.violation(&p.signature("build-overlay"), "building an overlay panicked", witness(json!({"panic": p.describe()})));
			return;
		}
		Ok(Err(e)) => {
			rep.violation("build-failed", "a valid overlay was rejected", witness(json!({"error": format!("{e:#}")})));
			return;
		}
		Ok(Ok(x)) => x,
	};
	// declared compression
	let declared = Comp::from_core(reader.get_parameters().tile_compression);
	if declared != out_comp {
		rep.violation("declared-compression", "overlay declares a compression that is neither the common one nor 'uncompressed'", witness(json!({"declared": declared.name(), "expected": out_comp.name()})));
	}
	if reader.get_parameters().tile_format != format {
		rep.violation("declared-format", "overlay declares another tile format than its sources", witness(json!({})));
	}
	let decode = |b: &[u8]| comp::decompress(b, declared);

	// coverage = union of the sources' coverages (each built standalone), restricted by the outer filter
	let cov = guard::catch(|| {
		guard::block_on(async {
			let mut u = TileBBoxPyramid::new_empty();
			for p in &parts {
				let (r, _) = pipe::build(p, &sources, None).await?;
				u.include_bbox_pyramid(&r.get_parameters().bbox_pyramid);
			}
			if let Some((lo, hi)) = outer {
				u.set_zoom_min(lo);
				u.set_zoom_max(hi);
			}
			Ok::<_, anyhow::Error>(u)
		})
	});
	if let Ok(Ok(u)) = cov {
		if u != reader.get_parameters().bbox_pyramid {
			rep.violation("coverage-not-union", "advertised coverage is not the union of the sources' coverages", witness(json!({"advertised": format!("{:?}", reader.get_parameters().bbox_pyramid), "union": format!("{u:?}")})));
		}
	}

	// lookups
	let flat: BTreeMap<Key, Vec<u8>> = expect.iter().map(|(k, v)| (*k, v.1.clone())).collect();
	let probes = crate::check::probe_set(&flat, &mut rng, 15);
	let fut = async {
		let mut v = vec![];
		for k in &probes {
			v.push((*k, reader.get_tile_data(&coord_of(k)).await.map(|o| o.map(|b| b.into_vec())).map_err(|e| e.to_string())));
		}
		v
	};
	match guard::catch(|| guard::block_on(fut)) {
		Err(p) => rep.violation(&p.signature("lookup-overlay"), "overlay lookup panicked", witness(json!({"panic": p.describe()}))),
		Ok(v) => {
			let mut bad = 0;
			for (k, r) in v {
				rep.eval();
				let prob: Option<(&str, serde_json::Value)> = match (r, expect.get(&k)) {
					(Err(e), _) => Some(("lookup-error", json!({"tile": kstr(&k), "error": e}))),
					(Ok(None), None) => None,
					(Ok(None), Some((i, _))) => Some(("lookup-missing", json!({"tile": kstr(&k), "first_source_with_tile": i}))),
					(Ok(Some(b)), None) => Some(("lookup-extra", json!({"tile": kstr(&k), "got": String::from_utf8_lossy(&decode(&b).unwrap_or_default()).chars().take(30).collect::<String>()}))),
					(Ok(Some(b)), Some((i, raw))) => match decode(&b) {
						Err(e) => Some(("not-decodable-with-declared-compression", json!({"tile": kstr(&k), "error": e}))),
						Ok(d) if &d != raw => Some(("wrong-source", json!({"tile": kstr(&k), "expected_source": i, "got": String::from_utf8_lossy(&d).chars().take(30).collect::<String>()}))),
						Ok(_) => None,
					},
				};
				if let Some((kind, d)) = prob {
					bad += 1;
					if bad <= 3 {
						rep.violation(&format!("lookup|{kind}"), "overlay lookup differs from the first-source model", witness(d));
					}
				}
			}
		}
	}

	// streams
	let mut boxes: Vec<TileBBox> = reader.get_parameters().bbox_pyramid.iter_levels().cloned().collect();
	for s in &sets {
		for lb in s.pyramid().iter_levels() {
			boxes.push(lb.clone());
			let mut w = lb.clone();
			w.add_border(3, 3, 3, 3);
			boxes.push(w);
		}
	}
	boxes.push(TileBBox::new_empty(5).unwrap());
	for bbox in boxes {
		if bbox.count_tiles() > 70_000 {
			continue;
		}
		let mt = rng.chance(0.4);
		let fut = async { reader.get_bbox_tile_stream(bbox.clone()).await.collect().await };
		match guard::catch(|| if mt { guard::block_on_mt(4, fut) } else { guard::block_on(fut) }) {
			Err(p) => {
				rep.violation(&p.signature("stream-overlay"), "overlay stream panicked", witness(json!({"bbox": format!("{bbox:?}"), "panic": p.describe()})));
				break;
			}
			Ok(items) => {
				rep.eval();
				let mut seen = BTreeSet::new();
				let mut first: Option<(&str, serde_json::Value)> = None;
				for (c, b) in &items {
					let k = key_of(c);
					if !bbox.contains3(c) || !seen.insert(k) {
						first.get_or_insert(("outside-or-duplicate", json!({"tile": kstr(&k)})));
						continue;
					}
					match (expect.get(&k), decode(b.as_slice())) {
						(None, _) => {
							first.get_or_insert(("extra", json!({"tile": kstr(&k)})));
						}
						(Some(_), Err(e)) => {
							first.get_or_insert(("not-decodable-with-declared-compression", json!({"tile": kstr(&k), "error": e})));
						}
						(Some((i, raw)), Ok(d)) => {
							if &d != raw {
								first.get_or_insert(("wrong-source", json!({"tile": kstr(&k), "expected_source": i, "got": String::from_utf8_lossy(&d).chars().take(30).collect::<String>()})));
							}
						}
					}
				}
				if !bbox.is_empty() {
					for k in expect.keys() {
						if k.0 == bbox.level && bbox.contains3(&coord_of(k)) && !seen.contains(k) {
							first.get_or_insert(("missing", json!({"tile": kstr(k)})));
							break;
						}
					}
				}
				if let Some((kind, d)) = first {
					rep.violation(&format!("stream|{kind}"), "overlay stream differs from the first-source model", witness(json!({"bbox": format!("{bbox:?}"), "d": d})));
				}
			}
		}
	}
	// what the sources were asked for
	let l = logs.lock().unwrap();
	let mut streams = 0u64;
	for log in l.values() {
		streams += log.lock().unwrap().iter().filter(|r| matches!(r, Req::Stream(_))).count() as u64;
	}
	rep.count("stream_requests_received_by_sources", streams);
	if rep.wants_sample() && multi > 0 && later_only > 0 {
		rep.sample(json!({"vpl": vpl, "declared_compression": declared.name(), "coordinates": expect.len(), "held_by_several": multi, "only_in_later_source": later_only}));
	}
	let _ = std::fs::remove_dir_all(&dir);
}
