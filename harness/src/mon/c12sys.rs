//! C12, syscall level — crash points of the *file* writer as the kernel saw them.
//!
//! The op-level monitor (c12.rs) replaces `DataWriterFile` with a recording writer, so anything
//! between the `DataWriterTrait` boundary and the disk (BufWriter, seeks, a second handle …) is out
//! of its sight. Here a child process writes a real file under `strace`; the syscall log
//! (openat / write / pwrite64 / lseek / ftruncate on the output file) is replayed prefix by prefix,
//! with byte cuts of every write, into file images that the real reader must reject or read completely.

use crate::gen::{self, GenOpts, MemSource, TileSet};
use crate::guard;
use crate::mon::c01::pairs_for;
use crate::mon::c12::{apply, cuts, try_image, Outcome};
use crate::report::Report;
use crate::rng::{fnv, Rng};
use crate::shard::CaseCtx;
use serde_json::json;
use std::collections::HashMap;
use std::path::Path;

/// the tile set of a syscall-level case (the traced child regenerates exactly the same one)
pub fn tileset_for(seed: u64, case: u64, format: &str) -> TileSet {
	let mut rng = Rng::for_case(seed, "C12sys", case);
	let opts = GenOpts { max_tiles: 150, max_level: 18, formats: pairs_for(format), unique_payloads: true, ..Default::default() };
	gen::gen_tileset(&mut rng, &opts)
}

/// `vtv c12-write <format> <seed> <case> <out>`: write the case's tile set through the real file writer
pub fn child_write(args: &[String]) -> i32 {
	if args.len() < 4 {
		return 2;
	}
	let format = args[0].as_str();
	let seed: u64 = args[1].parse().unwrap_or(1);
	let case: u64 = args[2].parse().unwrap_or(0);
	let ts = tileset_for(seed, case, format);
	let mut src = MemSource::new(&ts);
	match guard::block_on(versatiles_container::write_to_filename(&mut src, &args[3])) {
		Ok(()) => 0,
		Err(e) => {
			eprintln!("write failed: {e:#}");
			3
		}
	}
}

fn unhex(s: &str) -> Vec<u8> {
	// strace -xx: every byte as \xNN
	let b = s.as_bytes();
	let mut out = Vec::with_capacity(b.len() / 4);
	let mut i = 0;
	while i + 3 < b.len() {
		if b[i] == b'\\' && b[i + 1] == b'x' {
			let h = |c: u8| (c as char).to_digit(16).unwrap_or(0) as u8;
			out.push(h(b[i + 2]) * 16 + h(b[i + 3]));
			i += 4;
		} else {
			i += 1;
		}
	}
	out
}

#[derive(Debug)]
pub enum Sys {
	/// the output file was opened for writing; `true` = with O_TRUNC
	Open(bool),
	Write { pos: u64, data: Vec<u8> },
	/// bytes that reached the file through sendfile / copy_file_range (content resolved from the final file)
	CopyIn { pos: u64, len: u64 },
	/// another file was renamed over the output path (atomic replacement by the complete content)
	RenamedOver,
	Truncate(u64),
}

/// syscalls that touch `out_path`, in the order the kernel completed them
pub fn parse_strace(log: &str, out_path: &str) -> Result<Vec<Sys>, String> {
	// join "<unfinished ...>" / "<... resumed>" pairs per pid
	let mut pending: HashMap<String, String> = HashMap::new();
	let mut lines: Vec<String> = vec![];
	for l in log.lines() {
		let (pid, rest) = match l.split_once(' ') {
			Some(x) => x,
			None => continue,
		};
		let rest = rest.trim_start();
		if let Some(p) = rest.find(" <unfinished ...>") {
			pending.insert(pid.to_string(), rest[..p].to_string());
		} else if rest.starts_with("<... ") {
			if let (Some(head), Some(p)) = (pending.remove(pid), rest.find("resumed>")) {
				lines.push(format!("{head}{}", &rest[p + 8..]));
			}
		} else {
			lines.push(rest.to_string());
		}
	}
	let mut fds: HashMap<i64, u64> = HashMap::new(); // fd -> file offset, only for the output file
	let mut ops = vec![];
	for l in lines {
		let Some(eq) = l.rfind(" = ") else { continue };
		let ret = l[eq + 3..].split_whitespace().next().unwrap_or("");
		let Some(par) = l.find('(') else { continue };
		let name = &l[..par];
		let args = &l[par + 1..eq];
		let retn: i64 = ret.parse().unwrap_or(-1);
		match name {
			"openat" | "open" => {
				let q: Vec<&str> = args.split('"').collect();
				if q.len() >= 2 && String::from_utf8_lossy(&unhex(q[1])) == out_path && retn >= 0 {
					fds.insert(retn, 0);
					if args.contains("O_WRONLY") || args.contains("O_RDWR") {
						ops.push(Sys::Open(args.contains("O_TRUNC")));
					}
				}
			}
			"rename" | "renameat" | "renameat2" => {
				let q: Vec<&str> = args.split('"').collect();
				// the destination is the last quoted path
				if q.len() >= 4 && retn == 0 {
					let dest = String::from_utf8_lossy(&unhex(q[q.len() - 2])).to_string();
					if dest == out_path || (!dest.starts_with('/') && out_path.ends_with(&format!("/{dest}"))) {
						ops.push(Sys::RenamedOver);
					}
				}
			}
			"sendfile" | "copy_file_range" => {
				if retn <= 0 {
					continue;
				}
				let parts: Vec<&str> = args.split(',').collect();
				let out_fd: i64 = if name == "sendfile" { parts.first() } else { parts.get(2) }.map(|x| x.trim().parse().unwrap_or(-1)).unwrap_or(-1);
				if let Some(pos) = fds.get(&out_fd).cloned() {
					ops.push(Sys::CopyIn { pos, len: retn as u64 });
					fds.insert(out_fd, pos + retn as u64);
				}
			}
			"close" => {
				let fd: i64 = args.trim_end_matches(')').trim().parse().unwrap_or(-1);
				fds.remove(&fd);
			}
			"dup" | "dup2" | "dup3" | "fcntl" => {
				let fd: i64 = args.split(',').next().unwrap_or("").trim().parse().unwrap_or(-1);
				if name != "fcntl" || args.contains("F_DUPFD") {
					if let Some(off) = fds.get(&fd).cloned() {
						if retn >= 0 {
							// duplicated descriptors share one offset; modelled as a copy that is kept in sync below
							fds.insert(retn, off);
						}
					}
				}
			}
			"write" | "pwrite64" | "lseek" | "ftruncate" => {
				let fd: i64 = args.split(',').next().unwrap_or("").trim().parse().unwrap_or(-1);
				if !fds.contains_key(&fd) {
					continue;
				}
				match name {
					"write" => {
						let q: Vec<&str> = args.split('"').collect();
						if q.len() < 2 || retn < 0 {
							continue;
						}
						let mut data = unhex(q[1]);
						data.truncate(retn as usize);
						if data.len() != retn as usize {
							return Err(format!("strace shortened a write buffer ({} of {retn} bytes)", data.len()));
						}
						let pos = fds[&fd];
						ops.push(Sys::Write { pos, data });
						let newpos = pos + retn as u64;
						for v in fds.values_mut() {
							if *v == pos {
								*v = newpos;
							}
						}
						fds.insert(fd, newpos);
					}
					"pwrite64" => {
						let q: Vec<&str> = args.split('"').collect();
						if q.len() < 3 || retn < 0 {
							continue;
						}
						let mut data = unhex(q[1]);
						data.truncate(retn as usize);
						let off: u64 = q[2].rsplit(',').next().unwrap_or("").trim().trim_end_matches(')').parse().map_err(|_| "pwrite64 offset".to_string())?;
						ops.push(Sys::Write { pos: off, data });
					}
					"lseek" => {
						if retn >= 0 {
							fds.insert(fd, retn as u64);
						}
					}
					_ => {
						let len: u64 = args.split(',').nth(1).unwrap_or("").trim().trim_end_matches(')').parse().unwrap_or(0);
						ops.push(Sys::Truncate(len));
					}
				}
			}
			_ => {}
		}
	}
	Ok(ops)
}

pub fn run_syscall_case(cx: &CaseCtx, rep: &mut Report, format: &str, real_binary: bool, preexisting: bool) {
	let dir = cx.fresh_dir("c12sys");
	let ts = tileset_for(cx.seed, cx.case, format);
	let out = dir.join(format!("out.{format}"));
	let trace = dir.join("trace.txt");
	// an older, complete container of other content already sits at the output path: the bytes on disk
	// after an interrupted *replacing* write start from it unless the writer truncates
	let mut old: Vec<u8> = vec![];
	if preexisting {
		let old_ts = tileset_for(cx.seed, cx.case + 1000, format);
		let mut m = MemSource::new(&old_ts);
		if guard::block_on(versatiles_container::write_to_filename(&mut m, out.to_str().unwrap())).is_err() {
			rep.inconclusive("fixture write of the pre-existing container failed");
			return;
		}
		old = std::fs::read(&out).unwrap_or_default();
		rep.count("syscall_traces_over_a_preexisting_container", 1);
		if !real_binary {
			// crash point 0 of the real file writer: the writer object exists, no operation has been issued yet
			let probe = dir.join(format!("probe.{format}"));
			if std::fs::write(&probe, &old).is_ok() {
				let made = guard::catch(|| versatiles_core::io::DataWriterFile::from_path(&probe).map(drop));
				if matches!(made, Ok(Ok(()))) {
					let img = std::fs::read(&probe).unwrap_or_default();
					rep.eval();
					rep.count("file_writer_created_without_any_operation", 1);
					if let Outcome::OpenedWrong(e) = try_image(format, &img, &ts) {
						rep.violation(&format!("{format}|file-writer|opens-but-wrong|before-first-operation"), "after the file writer has been created over an existing container (no operation issued yet) the path still opens as a valid container of other content", json!({"format": format, "bytes_on_disk": img.len(), "what": e}));
					}
				}
			}
		}
	}
	let mut cmd = std::process::Command::new("strace");
	cmd.arg("-f").arg("-o").arg(&trace).arg("-e").arg("trace=open,openat,close,dup,dup2,dup3,fcntl,write,pwrite64,lseek,ftruncate,rename,renameat,renameat2,sendfile,copy_file_range").arg("-xx").arg("-s").arg("67108864");
	if real_binary {
		let Some(bin) = crate::server::binary() else {
			rep.inconclusive("versatiles binary not built");
			return;
		};
		// the source: a versatiles file of the project's own writer, or — every other case — a file of the *target's*
		// format from the independent encoder, block index / directories in front of the tile data (a conversion that
		// merely copies such a file would put a valid header on disk first)
		let src = if preexisting {
			let src = dir.join("src.versatiles");
			let mut m = MemSource::new(&ts);
			if guard::block_on(versatiles_container::write_to_filename(&mut m, src.to_str().unwrap())).is_err() {
				rep.inconclusive("fixture write failed");
				return;
			}
			src
		} else {
			let src = dir.join(format!("src.{format}"));
			let mut rng = crate::rng::Rng::for_case(cx.seed, "C12sys-src", cx.case);
			let bytes = if format == "versatiles" {
				let mut o = crate::codec::ivt::EncOpts::random(&mut rng);
				o.index_first = true;
				crate::codec::ivt::encode(&ts, &o, &mut rng)
			} else {
				let o = crate::codec::ipm::EncOpts::random(&mut rng, ts.tiles.len());
				crate::codec::ipm::encode(&ts, &o, &mut rng)
			};
			if std::fs::write(&src, bytes).is_err() {
				rep.inconclusive("fixture write failed");
				return;
			}
			rep.count("conversions_of_a_foreign_file_of_the_same_format", 1);
			src
		};
		cmd.arg(bin).arg("convert").arg(&src).arg(&out);
	} else {
		cmd.arg(std::env::current_exe().unwrap()).arg("c12-write").arg(format).arg(cx.seed.to_string()).arg(cx.case.to_string()).arg(&out);
	}
	// the system's temporary directory on another file system (tmpfs) than the target: a writer that builds the
	// container elsewhere and moves it into place then has to copy
	let other_fs_tmp = std::path::Path::new("/dev/shm").is_dir() && (cx.case / 2) % 2 == 1;
	if other_fs_tmp {
		cmd.env("TMPDIR", "/dev/shm");
		rep.count("syscall_traces_with_tmpdir_on_another_file_system", 1);
	}
	cx.progress(&format!("strace {format} real_binary={real_binary} preexisting={preexisting} tmpdir_other_fs={other_fs_tmp}"));
	let st = cmd.current_dir(&dir).stdout(std::process::Stdio::null()).stderr(std::process::Stdio::null()).status();
	if !matches!(st, Ok(s) if s.success()) {
		rep.inconclusive(&format!("traced writer did not run: {st:?}"));
		return;
	}
	if real_binary {
		file_size_limit(cx, rep, format, &dir);
	}
	let log = std::fs::read_to_string(&trace).unwrap_or_default();
	let ops = match parse_strace(&log, out.to_str().unwrap()) {
		Ok(o) => o,
		Err(e) => {
			rep.inconclusive(&format!("cannot parse the syscall log: {e}"));
			return;
		}
	};
	// the replayed log must reproduce the file on disk, otherwise the log is not trusted
	let disk = std::fs::read(&out).unwrap_or_default();
	// content that arrived by an in-kernel copy, or by renaming a complete file into place, is taken from the final file
	let mut ops = ops;
	for o in ops.iter_mut() {
		match o {
			Sys::CopyIn { pos, len } => {
				let (a, b) = (*pos as usize, (*pos + *len) as usize);
				if b > disk.len() {
					rep.inconclusive("an in-kernel copy reaches beyond the final file");
					return;
				}
				*o = Sys::Write { pos: *pos, data: disk[a..b].to_vec() };
				rep.count("syscalls_copying_into_the_output_file", 1);
			}
			Sys::RenamedOver => rep.count("renames_over_the_output_path", 1),
			_ => {}
		}
	}
	let ops = ops;
	let step = |img: &mut Vec<u8>, o: &Sys| match o {
		Sys::CopyIn { .. } => {}
		// a rename is atomic: the path shows the complete other file or the old state, never a torn mix
		Sys::RenamedOver => *img = disk.clone(),
		Sys::Open(true) => img.clear(),
		Sys::Open(false) => {}
		Sys::Write { pos, data } => apply(img, *pos, data),
		Sys::Truncate(n) => img.resize(*n as usize, 0),
	};
	let mut full: Vec<u8> = old.clone();
	for o in &ops {
		step(&mut full, o);
	}
	if !ops.iter().any(|o| matches!(o, Sys::Open(_) | Sys::RenamedOver)) {
		rep.inconclusive("the syscall log shows no open of the output file for writing");
		return;
	}
	if disk != full {
		rep.inconclusive(&format!("replaying the syscall log gives {} bytes, the file on disk has {} (log incomplete?)", full.len(), disk.len()));
		return;
	}
	rep.count(&format!("syscall_traces_{format}"), 1);
	rep.count("syscalls_on_output_file", ops.len() as u64);
	match try_image(format, &full, &ts) {
		Outcome::OpenedIntact => rep.count("complete_images_opened_and_intact", 1),
		_ => {
			rep.violation(&format!("{format}|syscall|complete-file-wrong"), "the completely written file does not read back", json!({"tileset": ts.describe()}));
			return;
		}
	}
	let n = ops.len();
	let fp = ts.fingerprint() ^ fnv(format.as_bytes()) ^ 0x5157;
	let mut image: Vec<u8> = old.clone();
	let mut bad = 0;
	let mut reopen_samples: Vec<Vec<u8>> = vec![];
	let mut started = false; // crash points begin once the writer has opened the file
	for k in 0..=n {
		if bad > 6 {
			break;
		}
		if !started {
			if k < n {
				step(&mut image, &ops[k]);
				started = matches!(ops[k], Sys::Open(_) | Sys::RenamedOver);
			}
			continue;
		}
		let mut points: Vec<(Option<usize>, Vec<u8>)> = vec![(None, image.clone())];
		if k < n {
			if let Sys::Write { pos, data } = &ops[k] {
				for c in cuts(data.len(), k + 6 >= n) {
					let mut img = image.clone();
					apply(&mut img, *pos, &data[..c]);
					points.push((Some(c), img));
				}
			}
		}
		for (cut, img) in points {
			if k == n && cut.is_none() {
				continue;
			}
			if cut.is_none() && (k % (n / 24 + 1) == 0 || k + 3 >= n) {
				reopen_samples.push(img.clone());
			}
			rep.eval();
			rep.count("syscall_crash_points", 1);
			rep.nontrivial(fp ^ fnv(format!("{k}/{cut:?}").as_bytes()));
			match try_image(format, &img, &ts) {
				Outcome::Rejected => rep.count("images_rejected", 1),
				Outcome::OpenedIntact => rep.count("partial_images_opened_and_intact", 1),
				Outcome::Panicked(_) => rep.count("images_on_which_the_reader_panicked", 1),
				Outcome::OpenedWrong(e) => {
					bad += 1;
					rep.violation(
						&format!("{format}|syscall|opens-but-wrong"),
						"a crash between two system calls leaves a file that opens as a valid container but lacks / misreports tiles",
						json!({"format": format, "real_binary": real_binary, "preexisting_container_at_output_path": preexisting, "tileset": ts.describe(), "syscalls_total": n, "completed_syscalls": k, "byte_cut_in_next_write": cut, "next_syscall": ops.get(k).map(|o| match o { Sys::Write{pos,data} => format!("write {} bytes at {}", data.len(), pos), Sys::Truncate(n) => format!("truncate to {n}"), Sys::Open(t) => format!("open (truncating: {t})"), _ => "copy".into() }), "what": e}),
					);
				}
			}
		}
		if k < n {
			step(&mut image, &ops[k]);
		}
	}
	// The same process that had the old container open now finds the crash image under the same path, with the same
	// modification time (coarse time stamps, tools that preserve them): nothing remembered from the first open may
	// make it look valid.
	if preexisting && !real_binary && !old.is_empty() {
		let again = dir.join(format!("again.{format}"));
		let first = std::fs::write(&again, &old).is_ok() && guard::block_on(versatiles_container::get_reader(again.to_str().unwrap())).is_ok();
		let stamp = std::fs::metadata(&again).and_then(|m| m.modified()).ok();
		if let (true, Some(stamp)) = (first, stamp) {
			for img in &reopen_samples {
				if std::fs::write(&again, img).is_err() {
					break;
				}
				if let Ok(f) = std::fs::OpenOptions::new().write(true).open(&again) {
					let _ = f.set_modified(stamp);
				}
				rep.eval();
				rep.count("crash_images_reopened_under_a_path_opened_before", 1);
				let ts2 = &ts;
				let p = again.clone();
				let r = guard::catch(|| {
					guard::block_on(async {
						let Ok(reader) = versatiles_container::get_reader(p.to_str().unwrap()).await else { return Ok(false) };
						if reader.get_parameters().tile_compression != ts2.comp.to_core() {
							return Err("declares another tile compression".to_string());
						}
						for (k, v) in &ts2.tiles {
							match reader.get_tile_data(&crate::gen::coord_of(k)).await {
								Ok(Some(b)) if b.as_slice() == v.as_slice() => {}
								Ok(Some(_)) => return Err(format!("tile {}/{}/{} has wrong content", k.0, k.1, k.2)),
								Ok(None) => return Err(format!("tile {}/{}/{} is missing", k.0, k.1, k.2)),
								Err(e) => return Err(format!("tile {}/{}/{} cannot be read: {e}", k.0, k.1, k.2)),
							}
						}
						Ok(true)
					})
				});
				if let Ok(Err(e)) = r {
					rep.violation(&format!("{format}|reopen-same-path|opens-but-wrong"), "a crash image found under a path this process had opened before (same modification time) opens as a valid container but lacks / misreports tiles", json!({"format": format, "image_len": img.len(), "what": e}));
					break;
				}
			}
		}
	}
	if rep.wants_sample() {
		rep.sample(json!({"level": "syscall", "format": format, "real_binary": real_binary, "preexisting": preexisting, "syscalls_on_output_file": n, "first": ops.iter().take(4).map(|o| format!("{o:?}").chars().take(60).collect::<String>()).collect::<Vec<_>>()}));
	}
	let _ = std::fs::remove_dir_all(&dir);
	let _ = Path::new("");
}

/// Writing stops because the file may not grow any further (RLIMIT_FSIZE, the same to the writer as a full disk
/// or a quota): the write that crosses the limit is cut short, the next one fails. `versatiles convert` runs
/// under a number of such limits; whatever it reports, the bytes it leaves behind must not open as a container
/// that lacks or misreports tiles.
fn file_size_limit(cx: &CaseCtx, rep: &mut Report, format: &str, dir: &Path) {
	use std::os::unix::process::CommandExt;
	let Some(bin) = crate::server::binary() else { return };
	let mut rng = Rng::for_case(cx.seed, "C12lim", cx.case);
	let opts = GenOpts { max_tiles: 40, max_level: 12, formats: pairs_for(format), unique_payloads: true, ..Default::default() };
	let mut ts = gen::gen_tileset(&mut rng, &opts);
	// writes of 8 KiB and more go to the file directly: every tile is that large
	for v in ts.tiles.values_mut() {
		let n = 9000 + rng.usize_below(20_000);
		let more = rng.bytes(n);
		v.extend_from_slice(&more);
	}
	let src = dir.join("limsrc.versatiles");
	let mut m = MemSource::new(&ts);
	if guard::block_on(versatiles_container::write_to_filename(&mut m, src.to_str().unwrap())).is_err() {
		return;
	}
	let out = dir.join(format!("lim.{format}"));
	let run = |limit: Option<u64>| {
		let _ = std::fs::remove_file(&out);
		let mut c = std::process::Command::new(&bin);
		c.arg("convert").arg(&src).arg(&out).current_dir(dir).stdin(std::process::Stdio::null()).stdout(std::process::Stdio::null()).stderr(std::process::Stdio::null());
		if let Some(l) = limit {
			// SAFETY: only async-signal-safe libc calls between fork and exec
			unsafe {
				c.pre_exec(move || {
					let lim = libc::rlimit { rlim_cur: l, rlim_max: l };
					libc::setrlimit(libc::RLIMIT_FSIZE, &lim);
					Ok(())
				});
			}
		}
		c.status().ok()
	};
	if !matches!(run(None), Some(st) if st.success()) {
		return;
	}
	let full = std::fs::metadata(&out).map(|m| m.len()).unwrap_or(0);
	if full < 1000 || !matches!(try_image(format, &std::fs::read(&out).unwrap_or_default(), &ts), Outcome::OpenedIntact) {
		return;
	}
	for _ in 0..cx.tier.pick(16, 40) {
		// anywhere in the file, or inside whatever was written last
		let limit = if rng.bool() { rng.range(full / 20, full - 1) } else { full - 1 - rng.below(9000.min(full / 2)) };
		let st = run(Some(limit));
		let img = std::fs::read(&out).unwrap_or_default();
		rep.eval();
		rep.count("conversions_under_a_file_size_limit", 1);
		if matches!(st, Some(s) if s.success()) {
			rep.count("conversions_under_a_file_size_limit_that_reported_success", 1);
		}
		match try_image(format, &img, &ts) {
			Outcome::Rejected => rep.count("images_rejected", 1),
			Outcome::OpenedIntact => rep.count("partial_images_opened_and_intact", 1),
			Outcome::Panicked(_) => rep.count("images_on_which_the_reader_panicked", 1),
			Outcome::OpenedWrong(e) => {
				rep.violation(
					&format!("{format}|file-size-limit|opens-but-wrong"),
					"a conversion that ran into the file size limit left a file that opens as a valid container but lacks / misreports tiles",
					json!({"format": format, "complete_file_len": full, "limit": limit, "exit_status": format!("{st:?}"), "bytes_on_disk": img.len(), "tileset": ts.describe(), "what": e}),
				);
				break;
			}
		}
	}
}
