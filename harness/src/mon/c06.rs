//! C06 — conversion selects and relocates tiles exactly as the options say.
//!
//! Model: the output has a tile at c iff c lies in the requested selection (zoom limits, tile box
//! of the geographic bbox dilated by the border, in output coordinates) and the source has a tile
//! at T^-1(c) with T = swap ∘ flip (flip first); the payload is the source tile's. Checked on
//! (a) the converting reader: lookups, streams, advertised coverage; (b) the real binary:
//! `versatiles convert …` read back through the independent decoders; (c) `versatiles serve
//! --flip-y --swap-xy` queried over HTTP.

use crate::check::{kstr, short};
use crate::codec;
use crate::comp::Comp;
use crate::gen::{self, coord_of, key_of, GenOpts, Key, MemSource, TileSet};
use crate::guard;
use crate::http;
use crate::model::{self, Tri};
use crate::mon::c01::{container_path, pairs_for, TARGETS};
use crate::report::{Plan, Report, Tier};
use crate::rng::{fnv, Rng};
use crate::server::{self, Server};
use crate::shard::{CaseCtx, MonitorDef};
use serde_json::json;
use std::collections::{BTreeMap, BTreeSet};
use versatiles_container::*;
use versatiles_core::types::*;

pub fn def() -> MonitorDef {
	MonitorDef { id: "C06", plan, run_case, finalize }
}

fn plan(tier: Tier, _seed: u64) -> Plan {
	Plan {
		cases: tier.pick(120, 1500),
		shards: 14,
		case_timeout_s: 900,
		level: "exploration",
		rule: "one case = (tile set with unique payloads 'T:z/x/y', flip-y x swap-xy (all four combinations), optional min / max zoom, optional geographic box: cutting through tiles, tile-aligned, tiny, world, touching antimeridian / Mercator limit, with border width 0..3, occasionally huge) exercised on one of three levels: library (TilesConvertReader: exhaustive lookups for zoom <= 4 plus images / pre-images of all source tiles and their neighbours, streams of level boxes and sampled boxes, advertised coverage), CLI (versatiles convert into each target format, read back with the independent decoder), server (versatiles serve with the transform flags, every coordinate over HTTP). Non-trivial: at least one flag or restriction is set and the selection keeps some but not all tiles or relocates them; distinct by (tile set, options, level)".into(),
		assumptions: vec![
			"selection membership uses the harness's Mercator model with a 2e-6-tile tolerance band (1e-3 at zoom >= 28); for tile-aligned boxes the aligned level is exact (zoom < 30)".into(),
			"the selection applies in output coordinates (after the transform), as `convert` documents".into(),
		],
		min_evaluations: 20_000,
		exhaustive: false,
		timeouts_excluded: false,
	}
}

fn finalize(_t: Tier, _p: &Plan, rep: &mut Report) {
	for k in ["cases_library", "cases_cli", "cases_server", "cases_flip_and_swap", "cases_with_bbox", "cases_with_border", "cases_with_zoom_limits"] {
		if rep.counter(k) == 0 {
			rep.inconclusive(&format!("nothing observed for {k}"));
		}
	}
}

#[derive(Clone, Debug)]
struct Options {
	flip: bool,
	swap: bool,
	min_zoom: Option<u8>,
	max_zoom: Option<u8>,
	bbox: Option<[f64; 4]>,
	aligned: Option<(u8, u32, u32, u32, u32)>,
	border: Option<u32>,
}

impl Options {
	fn selected(&self, k: &Key) -> Tri {
		if self.min_zoom.map(|m| k.0 < m).unwrap_or(false) || self.max_zoom.map(|m| k.0 > m).unwrap_or(false) {
			return Tri::Out;
		}
		match &self.bbox {
			None => Tri::In,
			Some(g) => {
				let b = self.border.unwrap_or(0);
				if let Some((z, x0, y0, x1, y1)) = self.aligned {
					if z == k.0 && z < 30 {
						let m = ((1u64 << z) - 1) as i64;
						let (x, y, b) = (k.1 as i64, k.2 as i64, b as i64);
						let inside = x >= (x0 as i64 - b).max(0) && x <= (x1 as i64 + b).min(m) && y >= (y0 as i64 - b).max(0) && y <= (y1 as i64 + b).min(m);
						return if inside { Tri::In } else { Tri::Out };
					}
				}
				model::geo_membership_border(g, k, b)
			}
		}
	}
	fn restricted(&self) -> bool {
		self.min_zoom.is_some() || self.max_zoom.is_some() || self.bbox.is_some()
	}
	fn cli_args(&self) -> Vec<String> {
		let mut a = vec![];
		if self.flip {
			a.push("--flip-y".to_string());
		}
		if self.swap {
			a.push("--swap-xy".to_string());
		}
		if let Some(z) = self.min_zoom {
			a.push(format!("--min-zoom={z}"));
		}
		if let Some(z) = self.max_zoom {
			a.push(format!("--max-zoom={z}"));
		}
		if let Some(g) = &self.bbox {
			a.push(format!("--bbox={},{},{},{}", g[0], g[1], g[2], g[3]));
			if let Some(b) = self.border {
				a.push(format!("--bbox-border={b}"));
			}
		}
		a
	}
	/// the pyramid `convert` builds from its arguments (same operations, in the same order)
	fn pyramid(&self) -> Option<TileBBoxPyramid> {
		if !self.restricted() {
			return None;
		}
		let mut p = TileBBoxPyramid::new_full(32);
		if let Some(z) = self.min_zoom {
			p.set_zoom_min(z);
		}
		if let Some(z) = self.max_zoom {
			p.set_zoom_max(z);
		}
		if let Some(g) = &self.bbox {
			p.intersect_geo_bbox(&GeoBBox(g[0], g[1], g[2], g[3]));
			if let Some(b) = self.border {
				p.add_border(b, b, b, b);
			}
		}
		Some(p)
	}
}

fn gen_options(rng: &mut Rng, ts: &mut TileSet, rep: &mut Report, cli: bool) -> Options {
	let levels: Vec<u8> = ts.levels().into_iter().collect();
	// output-space bounds of the highest level (selection is in output coordinates)
	let flip = rng.bool();
	let swap = rng.bool();
	let mut o = Options { flip, swap, min_zoom: None, max_zoom: None, bbox: None, aligned: None, border: None };
	// command line: a good share of the transformed conversions select "the box of the source"
	let source_box = cli && (flip || swap) && rng.chance(0.3);
	if !source_box && rng.chance(0.35) {
		o.min_zoom = Some(if rng.chance(0.8) { *rng.pick(&levels) } else { rng.below(33) as u8 });
	}
	if !source_box && rng.chance(0.35) {
		o.max_zoom = Some(if rng.chance(0.8) { *rng.pick(&levels) } else { rng.below(33) as u8 });
	}
	if source_box || rng.chance(0.55) {
		let z = *rng.pick(&levels);
		let out_keys: Vec<Key> = ts.tiles.keys().filter(|k| k.0 == z).map(|k| model::transform(k, flip, swap)).collect();
		let (mut x0, mut y0, mut x1, mut y1) = (u32::MAX, u32::MAX, 0, 0);
		for k in &out_keys {
			x0 = x0.min(k.1);
			y0 = y0.min(k.2);
			x1 = x1.max(k.1);
			y1 = y1.max(k.2);
		}
		match if source_box { 7 } else { rng.below(10) } {
			7 => {
				// the box that holds the whole *untransformed* coverage on every level (as if chosen by looking at
				// the source): with flip / swap it cuts the relocated tiles
				let (mut w, mut s_, mut e, mut n) = (180.0f64, 90.0f64, -180.0f64, -90.0f64);
				for lz in &levels {
					let ks: Vec<&Key> = ts.tiles.keys().filter(|k| k.0 == *lz).collect();
					let (sx0, sy0, sx1, sy1) = ks.iter().fold((u32::MAX, u32::MAX, 0u32, 0u32), |a, k| (a.0.min(k.1), a.1.min(k.2), a.2.max(k.1), a.3.max(k.2)));
					if let Ok(tb) = TileBBox::new(*lz, sx0, sy0, sx1, sy1) {
						let g = tb.as_geo_bbox();
						w = w.min(g.0);
						s_ = s_.min(g.1);
						e = e.max(g.2);
						n = n.max(g.3);
					}
				}
				if w <= e && s_ <= n {
					o.bbox = Some([w, s_, e, n]);
					rep.count("boxes_around_the_untransformed_coverage", 1);
				}
			}
			0 => o.bbox = Some([-180.0, -90.0, 180.0, 90.0]),
			1 | 2 => {
				let m = ((1u64 << z) - 1) as u32;
				let ax0 = x0.saturating_sub(rng.below(2) as u32);
				let ay0 = y0.saturating_sub(rng.below(2) as u32);
				let ax1 = (x0 as u64 + rng.below((x1 - x0) as u64 + 2)).min(m as u64) as u32;
				let ay1 = (y0 as u64 + rng.below((y1 - y0) as u64 + 2)).min(m as u64) as u32;
				let tb = TileBBox::new(z, ax0, ay0, ax1.max(ax0), ay1.max(ay0)).unwrap();
				let g = tb.as_geo_bbox();
				o.bbox = Some([g.0, g.1, g.2, g.3]);
				o.aligned = Some((z, tb.x_min, tb.y_min, tb.x_max, tb.y_max));
				rep.count("tile_aligned_boxes", 1);
			}
			3 => {
				let cx = model::tile_lon(x0 as f64 + 0.3, z);
				let cy = model::tile_lat(y0 as f64 + 0.6, z).clamp(-85.0, 85.0);
				o.bbox = Some([cx, cy, cx, cy]); // degenerate point
			}
			4 => o.bbox = Some([-180.0, -85.05112877980659, 180.0, 0.0]),
			8 | 9 => {
				// "the world" as users spell it: full (or nearly full) longitude range, latitude limits at or just
				// inside the Mercator limit — the outermost rows of deep levels lie outside such a box
				let (lat, lon): (&[f64], &[f64]) = if rng.chance(0.6) { (&[85.0, 85.0, 85.04, 85.05], &[180.0]) } else { (&[85.0, 85.0, 85.04, 85.05, 85.0511, 85.05112877980659, 84.0, 86.0, 90.0, 80.0], &[180.0, 180.0, 180.0, 179.999, 179.0]) };
				o.bbox = Some([-*rng.pick(lon), -*rng.pick(lat), *rng.pick(lon), *rng.pick(lat)]);
				rep.count("world_like_boxes", 1);
				// and the tile set reaches a pole on a level between 10 and 12 (one pole per level keeps the level box small)
				let mid: Vec<u8> = levels.iter().cloned().filter(|z| (10..=12).contains(z)).collect();
				let mut add: Vec<Key> = vec![];
				if mid.is_empty() {
					add.extend([(12u8, 7u32, 0u32), (12, 8, 1), (11, 3, 2047), (11, 3, 2046)]);
				} else {
					for (i, z) in mid.iter().enumerate() {
						let x = ts.tiles.keys().find(|k| k.0 == *z).map(|k| k.1).unwrap_or(0);
						add.push((*z, x, if i % 2 == 0 { 0 } else { ((1u64 << z) - 1) as u32 }));
					}
				}
				for k in add {
					let raw = gen::payload_unique(k.0, k.1, k.2, 24, rng);
					ts.tiles.insert(k, if ts.really_compressed { crate::comp::compress(&raw, ts.comp) } else { raw });
				}
			}
			_ => o.bbox = Some(model::safe_geo_box(rng, &levels, (z, x0, y0, x1, y1))),
		}
		if !source_box && rng.chance(0.5) {
			o.border = Some(*rng.pick(&[0u32, 1, 1, 2, 3, 3, 1000, u32::MAX]));
		}
	}
	o
}

/// expected output mapping: certain tiles, and coordinates that are don't-care
fn expected(ts: &TileSet, o: &Options) -> (BTreeMap<Key, Vec<u8>>, BTreeSet<Key>) {
	let mut certain = BTreeMap::new();
	let mut dontcare = BTreeSet::new();
	for (k, v) in &ts.tiles {
		let c = model::transform(k, o.flip, o.swap);
		match o.selected(&c) {
			Tri::In => {
				certain.insert(c, v.clone());
			}
			Tri::DontCare => {
				dontcare.insert(c);
			}
			Tri::Out => {}
		}
	}
	(certain, dontcare)
}

fn run_case(cx: &CaseCtx, rep: &mut Report) {
	let mut rng = cx.rng();
	let level = match cx.case % 6 {
		0 | 1 | 2 => "library",
		3 | 4 => "cli",
		_ => "server",
	};
	let dir = cx.fresh_dir("c06");
	let small = level == "server";
	let target = if level == "cli" { TARGETS[(cx.case / 6 % 5) as usize] } else { "tar" };
	let opts = GenOpts { max_tiles: if small { 60 } else { cx.tier.pick(400, 1200) }, max_level: if small { 12 } else { 31 }, formats: pairs_for(target), unique_payloads: true, really_compress: small, ..Default::default() };
	let mut ts = gen::gen_tileset(&mut rng, &opts);
	let o = gen_options(&mut rng, &mut ts, rep, level == "cli");
	let (certain, dontcare) = expected(&ts, &o);
	rep.count(&format!("cases_{level}"), 1);
	if o.flip && o.swap {
		rep.count("cases_flip_and_swap", 1);
	}
	if o.bbox.is_some() {
		rep.count("cases_with_bbox", 1);
	}
	if o.border.is_some() {
		rep.count("cases_with_border", 1);
	}
	if o.min_zoom.is_some() || o.max_zoom.is_some() {
		rep.count("cases_with_zoom_limits", 1);
	}
	if (o.flip || o.swap || o.restricted()) && !certain.is_empty() && (certain.len() < ts.tiles.len() || o.flip || o.swap) {
		rep.nontrivial(ts.fingerprint() ^ fnv(format!("{o:?}{level}").as_bytes()));
	}
	cx.progress(&format!("{level} {o:?}"));
	let witness = |extra: serde_json::Value| json!({"level": level, "options": format!("{o:?}"), "cli_args": o.cli_args(), "tileset": ts.describe(), "detail": extra});
	let compare_map = |got: &BTreeMap<Key, Vec<u8>>, what: &str, rep: &mut Report| {
		let mut n = 0;
		for (k, v) in &certain {
			match got.get(k) {
				None => {
					n += 1;
					if n <= 2 {
						rep.violation(&format!("{what}|selected-tile-missing"), "a tile that lies in the selection and exists in the source (at the pre-image) is missing from the output", witness(json!({"output_coordinate": kstr(k), "source_coordinate": kstr(&model::inverse(k, o.flip, o.swap))})));
					}
				}
				Some(g) if g != v => {
					n += 1;
					if n <= 2 {
						rep.violation(&format!("{what}|wrong-payload"), "output tile does not carry the payload of its pre-image", witness(json!({"output_coordinate": kstr(k), "expected": short(v), "got": short(g)})));
					}
				}
				_ => {}
			}
		}
		for k in got.keys() {
			if !certain.contains_key(k) && !dontcare.contains(k) {
				n += 1;
				if n <= 4 {
					let why = if ts.tiles.contains_key(&model::inverse(k, o.flip, o.swap)) { "outside-selection" } else { "no-source-tile-at-pre-image" };
					rep.violation(&format!("{what}|unexpected-tile|{why}"), "the output holds a tile the model does not allow", witness(json!({"output_coordinate": kstr(k), "got": short(&got[k])})));
				}
			}
		}
	};

	match level {
		"library" => {
			let inner: Box<dyn TilesReaderTrait> = if rng.chance(0.3) {
				let sub = dir.join("src");
				let _ = std::fs::create_dir_all(&sub);
				let p = container_path(&sub, "versatiles");
				let mut m = MemSource::new(&ts);
				if guard::block_on(write_to_filename(&mut m, p.to_str().unwrap())).is_err() {
					rep.inconclusive("fixture write failed");
					return;
				}
				match guard::block_on(get_reader(p.to_str().unwrap())) {
					Ok(r) => r,
					Err(_) => {
						rep.inconclusive("fixture open failed");
						return;
					}
				}
			} else {
				let mut m = MemSource::new(&ts);
				m.default_stream = rng.chance(0.3);
				m.boxed()
			};
			let pyr = match guard::catch(|| o.pyramid()) {
				Ok(p) => p,
				Err(p) => {
					rep.violation(&p.signature("selection-pyramid"), "building the selection from valid options panicked", witness(json!({"panic": p.describe()})));
					return;
				}
			};
			let cp = TilesConverterParameters::new(None, pyr, false, o.flip, o.swap);
			let r = match guard::catch(|| TilesConvertReader::new_from_reader(inner, cp)) {
				Ok(Ok(r)) => r,
				Ok(Err(e)) => {
					rep.violation("library|build-failed", "converting reader rejected valid options", witness(json!({"error": format!("{e:#}")})));
					return;
				}
				Err(p) => {
					rep.violation(&p.signature("convert-reader"), "building the converting reader panicked", witness(json!({"panic": p.describe()})));
					return;
				}
			};
			// lookups: exhaustive z <= 4, images and pre-images of the source tiles, neighbours
			let mut probes: BTreeSet<Key> = BTreeSet::new();
			for z in 0..=4u8 {
				for x in 0..(1u32 << z) {
					for y in 0..(1u32 << z) {
						probes.insert((z, x, y));
					}
				}
			}
			for k in ts.tiles.keys() {
				let c = model::transform(k, o.flip, o.swap);
				let m = ((1u64 << k.0) - 1) as u32;
				for kk in [c, *k, (c.0, (c.1 + 1).min(m), c.2), (c.0, c.1, c.2.saturating_sub(1)), model::inverse(k, o.flip, o.swap)] {
					probes.insert(kk);
				}
			}
			let fut = async {
				let mut v = BTreeMap::new();
				let mut errs = vec![];
				for k in &probes {
					match r.get_tile_data(&coord_of(k)).await {
						Ok(Some(b)) => {
							v.insert(*k, b.into_vec());
						}
						Ok(None) => {}
						Err(e) => errs.push((*k, e.to_string())),
					}
				}
				(v, errs)
			};
			match guard::catch(|| guard::block_on(fut)) {
				Err(p) => rep.violation(&p.signature("convert-lookup"), "lookup through the converting reader panicked", witness(json!({"panic": p.describe()}))),
				Ok((got, errs)) => {
					rep.evals(probes.len() as u64);
					compare_map(&got, "library-lookup", rep);
					if let Some((k, e)) = errs.first() {
						rep.violation("library-lookup|error", "lookup failed", witness(json!({"coordinate": kstr(k), "error": e})));
					}
					for k in got.keys() {
						if !r.get_parameters().bbox_pyramid.contains_coord(&coord_of(k)) && !dontcare.contains(k) {
							rep.violation("library|lookup-outside-advertised-coverage", "the lookup path returns a tile outside the advertised coverage", witness(json!({"coordinate": kstr(k)})));
							break;
						}
					}
				}
			}
			// streams: output-space level boxes (widened) -> everything the reader streams
			let mut boxes: Vec<TileBBox> = vec![];
			let mut out_bounds: BTreeMap<u8, (u32, u32, u32, u32)> = BTreeMap::new();
			for k in ts.tiles.keys() {
				let c = model::transform(k, o.flip, o.swap);
				let e = out_bounds.entry(c.0).or_insert((c.1, c.2, c.1, c.2));
				*e = (e.0.min(c.1), e.1.min(c.2), e.2.max(c.1), e.3.max(c.2));
			}
			for (z, b) in &out_bounds {
				let mut bb = TileBBox::new(*z, b.0, b.1, b.2, b.3).unwrap();
				bb.add_border(2, 2, 2, 2);
				if bb.count_tiles() <= 70_000 {
					boxes.push(bb);
				} else {
					// a tall level box (tile sets that reach a pole): bands of rows, together the whole box
					let rows = (70_000 / bb.width().max(1) as u64).max(1) as u32;
					let mut y = bb.y_min;
					loop {
						let y1 = (y as u64 + rows as u64 - 1).min(bb.y_max as u64) as u32;
						boxes.push(TileBBox::new(*z, bb.x_min, y, bb.x_max, y1).unwrap());
						if y1 >= bb.y_max {
							break;
						}
						y = y1 + 1;
					}
				}
			}
			let mut streamed: BTreeMap<Key, Vec<u8>> = BTreeMap::new();
			for bbox in boxes {
				let fut = async { r.get_bbox_tile_stream(bbox.clone()).await.collect().await };
				match guard::catch(|| guard::block_on(fut)) {
					Err(p) => {
						rep.violation(&p.signature("convert-stream"), "stream through the converting reader panicked", witness(json!({"bbox": format!("{bbox:?}"), "panic": p.describe()})));
						return;
					}
					Ok(items) => {
						rep.eval();
						for (c, b) in items {
							if !bbox.contains3(&c) {
								rep.violation("library-stream|outside-box", "stream delivered a tile outside the requested box", witness(json!({"bbox": format!("{bbox:?}"), "tile": kstr(&key_of(&c))})));
							}
							if !r.get_parameters().bbox_pyramid.contains_coord(&c) && !dontcare.contains(&key_of(&c)) {
								rep.violation("library|stream-outside-advertised-coverage", "the stream path returns a tile outside the advertised coverage", witness(json!({"coordinate": kstr(&key_of(&c))})));
							}
							streamed.insert(key_of(&c), b.into_vec());
						}
					}
				}
			}
			compare_map(&streamed, "library-stream", rep);
			// advertised coverage must contain every expected tile
			for k in certain.keys() {
				if !r.get_parameters().bbox_pyramid.contains_coord(&coord_of(k)) {
					rep.violation("library|coverage-misses-selected-tile", "advertised coverage misses a tile of the output", witness(json!({"coordinate": kstr(k)})));
					break;
				}
			}
		}
		"cli" => {
			let Some(bin) = server::binary() else {
				rep.inconclusive("versatiles binary not built");
				return;
			};
			let src = dir.join("src.versatiles");
			let mut m = MemSource::new(&ts);
			if guard::block_on(write_to_filename(&mut m, src.to_str().unwrap())).is_err() {
				rep.inconclusive("fixture write failed");
				return;
			}
			let out = container_path(&dir, target);
			if target == "directory" {
				let _ = std::fs::create_dir_all(&out);
			}
			let mut cmd = std::process::Command::new(bin);
			cmd.arg("convert").args(o.cli_args()).arg(&src).arg(&out).current_dir(&dir);
			let res = cmd.output();
			rep.eval();
			match res {
				Err(e) => rep.inconclusive(&format!("cannot run the binary: {e}")),
				Ok(outp) => {
					let stderr = String::from_utf8_lossy(&outp.stderr).to_string();
					if !outp.status.success() {
						// an empty selection cannot be written by some formats; that is not a C06 matter
						if certain.is_empty() {
							rep.count("cli_empty_selection_rejected", 1);
						} else {
							let panic = stderr.contains("panicked at");
							rep.violation(if panic { "cli|convert-panicked" } else { "cli|convert-failed" }, "versatiles convert failed on valid options", witness(json!({"stderr": stderr.chars().rev().take(500).collect::<String>().chars().rev().collect::<String>()})));
						}
					} else {
						let decoded = match target {
							"versatiles" => std::fs::read(&out).map_err(|e| e.to_string()).and_then(|b| codec::ivt::decode(&b)),
							"pmtiles" => std::fs::read(&out).map_err(|e| e.to_string()).and_then(|b| codec::ipm::decode(&b)),
							"tar" => std::fs::read(&out).map_err(|e| e.to_string()).and_then(|b| codec::itar::decode(&b)),
							"directory" => codec::idir::decode(&out),
							_ => codec::imb::decode(&out).map(|x| x.0),
						};
						match decoded {
							Err(e) => rep.violation(&format!("cli|{target}|output-unreadable"), "the converted container cannot be decoded", witness(json!({"error": e}))),
							Ok(d) => {
								rep.evals(d.tiles.len() as u64);
								compare_map(&d.tiles, &format!("cli|{target}"), rep);
							}
						}
					}
				}
			}
		}
		_ => {
			let src = dir.join("src.versatiles");
			let mut m = MemSource::new(&ts);
			if guard::block_on(write_to_filename(&mut m, src.to_str().unwrap())).is_err() {
				rep.inconclusive("fixture write failed");
				return;
			}
			// the server knows only the transform flags
			let so = Options { min_zoom: None, max_zoom: None, bbox: None, aligned: None, border: None, ..o.clone() };
			let (scertain, _) = expected(&ts, &so);
			// the same container under three ids: the flags must apply to every source, not just to the first
			let ids = ["a", "t", "z"];
			let mut args: Vec<String> = ids.iter().map(|id| format!("[{id}]{}", src.display())).collect();
			if so.flip {
				args.push("--flip-y".into());
			}
			if so.swap {
				args.push("--swap-xy".into());
			}
			let mut srv = match Server::start(&args, &dir) {
				Ok(s) => s,
				Err(e) => {
					rep.inconclusive(&format!("server start failed: {e}"));
					return;
				}
			};
			let mut probes: BTreeSet<Key> = scertain.keys().cloned().collect();
			for k in ts.tiles.keys() {
				probes.insert(*k);
				let m = ((1u64 << k.0) - 1) as u64;
				probes.insert((k.0, (k.1 as u64 + 1).min(m) as u32, k.2));
				// beyond the level: must still be a complete 404
				probes.insert((k.0, k.1, (m + 1).min(u32::MAX as u64) as u32));
				probes.insert((k.0, (m + 3).min(u32::MAX as u64) as u32, k.2));
			}
			let mut bad = 0;
			for (n, k) in probes.into_iter().enumerate() {
				if bad > 6 {
					break;
				}
				let id = ids[n % ids.len()];
				let r = http::get(srv.port, &format!("/tiles/{id}/{}/{}/{}", k.0, k.1, k.2), &[]);
				rep.eval();
				let w = |extra: serde_json::Value| json!({"flags": args[ids.len()..].to_vec(), "request": format!("/tiles/{id}/{}/{}/{}", k.0, k.1, k.2), "status": r.status, "detail": extra});
				if !r.complete {
					bad += 1;
					rep.violation("server|incomplete-response", "the server dropped the connection for a tile request", w(json!({"problem": r.problem, "server_panics": srv.panics().into_iter().rev().take(1).collect::<Vec<_>>()})));
					if !srv.alive() {
						break;
					}
					continue;
				}
				match (r.status, scertain.get(&k)) {
					(200, Some(v)) => {
						let raw = crate::comp::decompress(v, ts.comp).unwrap_or_default();
						if r.decoded_body().ok().as_ref() != Some(&raw) {
							bad += 1;
							rep.violation("server|wrong-payload", "served tile is not the payload of the pre-image", w(json!({"expected": short(v)})));
						}
					}
					(200, None) => {
						bad += 1;
						rep.violation("server|unexpected-tile", "the server serves a tile at a coordinate a conversion with the same flags leaves empty", w(json!({})));
					}
					(404, Some(_)) => {
						bad += 1;
						rep.violation("server|tile-missing", "the server does not serve a tile that a conversion with the same flags contains", w(json!({"source_coordinate": kstr(&model::inverse(&k, so.flip, so.swap))})));
					}
					(404, None) => {}
					(st, _) => {
						rep.violation(&format!("server|status-{st}"), "unexpected status", w(json!({})));
					}
				}
			}
			drop(srv);
		}
	}
	if rep.wants_sample() && (o.flip || o.swap) && o.restricted() && !certain.is_empty() {
		rep.sample(json!({"level": level, "options": format!("{o:?}"), "source_tiles": ts.tiles.len(), "expected_output_tiles": certain.len(), "dont_care": dontcare.len()}));
	}
	let _ = Comp::None;
	let _ = std::fs::remove_dir_all(&dir);
}
