//! C07 — static file serving never leaves the configured root.
//!
//! Real binary with `-s <folder>` / `-s <tar>` (with and without URL prefix). Files inside the
//! root carry known tokens; canaries with other tokens live in the root's parent, in a sibling
//! directory and at absolute paths (plain and only-precompressed `.gz` / `.br`). Raw request
//! targets are built from a segment alphabet; no response may contain a canary token, a 200 body
//! must be the content of a file inside the root, escaping targets must give 404.

use crate::codec::itar;
use crate::comp;
use crate::gen::{self, GenOpts, MemSource};
use crate::guard;
use crate::http;
use crate::report::{Plan, Report, Tier};
use crate::rng::{fnv, Rng};
use crate::server::Server;
use crate::shard::{CaseCtx, MonitorDef};
use serde_json::json;
use std::collections::BTreeMap;
use std::path::Path;

pub fn def() -> MonitorDef {
	MonitorDef { id: "C07", plan, run_case, finalize }
}

fn plan(tier: Tier, _seed: u64) -> Plan {
	Plan {
		cases: tier.pick(14, 32),
		shards: 4,
		case_timeout_s: 1800,
		level: "exploration",
		rule: "one case = one server instance (root = folder | tar archive) x (no prefix | URL prefix). One evaluation = one raw request whose target is a sequence of 1..5 segments from {file, directory, '.', '..', empty, %2e%2e, %2E%2e, ..%2f, %2f, ..;, canary names, sibling directory, absolute-path components, a 300-character name}, optionally with a leading double / triple slash followed by the absolute path of a canary, with and without the prefix. Quick: sampled; thorough: all sequences up to length 4 plus sampled length 5. Non-trivial: the target contains at least one special segment; distinct by target".into(),
		assumptions: vec![
			"every file outside the root that the server process could reach in the scratch tree carries a canary token (plain, or only as .gz / .br so that the precompressed-variant fallback is covered)".into(),
			"'resolves outside the root' is decided lexically on the raw, undecoded segments".into(),
		],
		min_evaluations: 2_000,
		exhaustive: false,
		timeouts_excluded: false,
	}
}

fn finalize(_t: Tier, _p: &Plan, rep: &mut Report) {
	for k in ["servers_folder", "servers_tar", "served_200_inside_root", "escaping_targets_sent", "absolute_path_targets_sent"] {
		if rep.counter(k) == 0 {
			rep.inconclusive(&format!("nothing observed for {k}"));
		}
	}
}

struct Layout {
	/// url path (relative to the root, no leading slash) -> content
	inside: BTreeMap<String, Vec<u8>>,
	canaries: Vec<String>,
	abs_canary: String,
	abs_canary_gz_only: String,
}

fn build_layout(dir: &Path, tar: bool, rng: &mut Rng) -> Result<(std::path::PathBuf, Layout), String> {
	let outer = dir.join("outer");
	let root = outer.join("root");
	std::fs::create_dir_all(root.join("sub")).map_err(|e| e.to_string())?;
	std::fs::create_dir_all(outer.join("sibling")).map_err(|e| e.to_string())?;
	let tok = |name: &str, rng: &mut Rng| format!("INSIDE-{name}-{:016x}", rng.next_u64()).into_bytes();
	let mut inside: BTreeMap<String, Vec<u8>> = BTreeMap::new();
	inside.insert("index.html".into(), tok("index", rng));
	inside.insert("a.txt".into(), tok("a", rng));
	inside.insert("sub/b.txt".into(), tok("b", rng));
	inside.insert("sub/index.html".into(), tok("subindex", rng));
	inside.insert("c.css".into(), tok("c-gz-only", rng));
	inside.insert("d.js".into(), tok("d-br-only", rng));
	// files on disk (c.css only as .gz, d.js only as .br)
	let mut disk: Vec<(String, Vec<u8>)> = vec![];
	for (k, v) in &inside {
		match k.as_str() {
			"c.css" => disk.push(("c.css.gz".into(), comp::gzip(v))),
			"d.js" => disk.push(("d.js.br".into(), comp::brotli(v))),
			_ => disk.push((k.clone(), v.clone())),
		}
	}
	// canaries outside the root
	let mut canaries = vec![];
	let mut canary = |p: &Path, enc: u8, rng: &mut Rng| -> Result<(), String> {
		let t = format!("CANARY-{:016x}{:016x}", rng.next_u64(), rng.next_u64());
		let data = match enc {
			1 => comp::gzip(t.as_bytes()),
			2 => comp::brotli(t.as_bytes()),
			_ => t.clone().into_bytes(),
		};
		std::fs::write(p, data).map_err(|e| e.to_string())?;
		canaries.push(t);
		Ok(())
	};
	canary(&outer.join("secret.txt"), 0, rng)?;
	canary(&outer.join("secret2.txt.gz"), 1, rng)?;
	canary(&outer.join("secret3.txt.br"), 2, rng)?;
	canary(&outer.join("sibling").join("s.txt"), 0, rng)?;
	// neighbours whose names merely *begin* with the root's name (a byte-prefix test would let them through)
	std::fs::create_dir_all(outer.join("root-private")).map_err(|e| e.to_string())?;
	canary(&outer.join("root-private").join("secret.txt"), 0, rng)?;
	canary(&outer.join("root.bak"), 0, rng)?;
	canary(&outer.join("rootkit.txt.gz"), 1, rng)?;
	canary(&outer.join("index.html"), 0, rng)?;
	canary(&dir.join("abs_canary.txt"), 0, rng)?;
	canary(&dir.join("abs_canary2.txt.gz"), 1, rng)?;
	// a symlinked directory inside the root: what it points to is served legitimately, its siblings are not
	let mut inside = inside;
	if !tar {
		let v2 = outer.join("releases").join("v2");
		std::fs::create_dir_all(&v2).map_err(|e| e.to_string())?;
		let t = tok("linked", rng);
		std::fs::write(v2.join("app.js"), &t).map_err(|e| e.to_string())?;
		inside.insert("current/app.js".into(), t);
		canary(&outer.join("releases").join("secret.txt"), 0, rng)?;
		canary(&outer.join("releases").join("index.html"), 0, rng)?;
		let _ = std::os::unix::fs::symlink("../releases/v2", root.join("current"));
	}
	// a token that only exists behind the end-of-archive marker of the tar root
	let stale_token = format!("CANARY-{:016x}{:016x}", rng.next_u64(), rng.next_u64());
	canaries.push(stale_token.clone());
	let canaries_tail = stale_token.into_bytes();
	// a token that only exists in records of the tar root that are not member files (pax global header of a
	// `git archive` tarball, a GNU dump-directory record)
	let record_token = format!("CANARY-{:016x}{:016x}", rng.next_u64(), rng.next_u64());
	canaries.push(record_token.clone());
	let layout = Layout { inside, canaries, abs_canary: dir.join("abs_canary.txt").display().to_string(), abs_canary_gz_only: dir.join("abs_canary2.txt").display().to_string() };
	if tar {
		// an archive with the same inside files (hand-written ustar)
		let mut out = vec![];
		for (name, kind, text) in [("pax_global_header", b'g', format!("52 comment={record_token}\n")), ("sub/", b'D', format!("Yb.txt\0N{record_token}\0\0"))] {
			let mut h = tar_header(name, text.len());
			h[156] = kind;
			for b in h[148..156].iter_mut() {
				*b = b' ';
			}
			let sum: u32 = h.iter().map(|b| *b as u32).sum();
			h[148..156].copy_from_slice(format!("{:06o}\0 ", sum).as_bytes());
			out.extend_from_slice(&h);
			out.extend_from_slice(text.as_bytes());
			out.extend(std::iter::repeat(0u8).take((512 - text.len() % 512) % 512));
		}
		for (name, data) in &disk {
			out.extend_from_slice(&tar_header(name, data.len()));
			out.extend_from_slice(data);
			out.extend(std::iter::repeat(0u8).take((512 - data.len() % 512) % 512));
		}
		out.extend(std::iter::repeat(0u8).take(1024));
		itar::members(&out)?;
		// behind the end-of-archive marker: the remains of an older, longer archive (a member with a canary). They are
		// bytes of the file, but not entries of the archive.
		let stale = canaries_tail.clone();
		out.extend_from_slice(&tar_header("stale-secret.txt", stale.len()));
		out.extend_from_slice(&stale);
		out.extend(std::iter::repeat(0u8).take((512 - stale.len() % 512) % 512));
		out.extend(std::iter::repeat(0u8).take(1024));
		let p = outer.join("root.tar");
		std::fs::write(&p, out).map_err(|e| e.to_string())?;
		let _ = std::fs::remove_dir_all(&root);
		Ok((p, layout))
	} else {
		for (name, data) in &disk {
			std::fs::write(root.join(name), data).map_err(|e| e.to_string())?;
		}
		Ok((root, layout))
	}
}

fn tar_header(name: &str, size: usize) -> [u8; 512] {
	let mut h = [0u8; 512];
	h[..name.len()].copy_from_slice(name.as_bytes());
	h[100..108].copy_from_slice(b"0000644\0");
	h[108..116].copy_from_slice(b"0000000\0");
	h[116..124].copy_from_slice(b"0000000\0");
	h[124..136].copy_from_slice(format!("{:011o}\0", size).as_bytes());
	h[136..148].copy_from_slice(b"00000000000\0");
	h[156] = b'0';
	h[257..263].copy_from_slice(b"ustar\0");
	h[263..265].copy_from_slice(b"00");
	for b in h[148..156].iter_mut() {
		*b = b' ';
	}
	let sum: u32 = h.iter().map(|b| *b as u32).sum();
	h[148..156].copy_from_slice(format!("{:06o}\0 ", sum).as_bytes());
	h
}

fn alphabet(l: &Layout) -> Vec<String> {
	let mut a: Vec<String> = ["a.txt", "sub", "b.txt", "index.html", ".", "..", "", "%2e%2e", "%2E%2e", "..%2f", "%2f", "..;", "secret.txt", "secret2.txt", "secret3.txt", "sibling", "s.txt", "root", "outer", "c.css", "d.js", "..%5c", "%2e%2e%2f", "....", ".%2e", "current", "app.js", "releases", "v2", "..%2fsecret.txt", "..%2F..%2fsecret.txt", "%2e%2e%2fsecret.txt", "..%2findex.html", "sub%2f..%2f..%2fsecret.txt", "..%5csecret.txt", "a.txt%00", "%2e%2e%2fsibling%2fs.txt", "stale-secret.txt", "pax_global_header"]
		.iter()
		.map(|s| s.to_string())
		.collect();
	a.push("x".repeat(300));
	// components of the absolute canary path
	for c in l.abs_canary.split('/').filter(|c| !c.is_empty()) {
		if !a.contains(&c.to_string()) {
			a.push(c.to_string());
		}
	}
	a
}

/// does the raw segment sequence lexically leave the root?
fn escapes(segments: &[String]) -> bool {
	let mut depth: i64 = 0;
	for s in segments {
		match s.as_str() {
			"" | "." => {}
			".." => {
				depth -= 1;
				if depth < 0 {
					return true;
				}
			}
			_ => depth += 1,
		}
	}
	false
}

fn run_case(cx: &CaseCtx, rep: &mut Report) {
	let mut rng = cx.rng();
	let tar = cx.case % 2 == 1;
	let prefixed = (cx.case / 2) % 2 == 1;
	let dir = cx.fresh_dir("c07");
	let (root, layout) = match build_layout(&dir, tar, &mut rng) {
		Ok(x) => x,
		Err(e) => {
			rep.inconclusive(&format!("fixture: {e}"));
			return;
		}
	};
	// a tile source is mandatory on the command line
	let opts = GenOpts { max_tiles: 5, max_level: 5, formats: vec![(versatiles_core::types::TileFormat::PNG, comp::Comp::None)], ..Default::default() };
	let ts = gen::gen_tileset(&mut rng, &opts);
	let tiles = dir.join("t.versatiles");
	let mut m = MemSource::new(&ts);
	if let Err(e) = guard::block_on(versatiles_container::write_to_filename(&mut m, tiles.to_str().unwrap())) {
		rep.inconclusive(&format!("fixture write failed: {e:#}"));
		return;
	}
	// how the root is spelled (see below); spelling 4 uses the documented trailing form `path[/prefix]`
	let spelling = if tar { 0 } else { [0u64, 4, 1, 5, 2, 3][((cx.case / 4) % 6) as usize] };
	let prefixed = prefixed || spelling == 4;
	let prefix = if prefixed { "/assets" } else { "" };
	// how the root is spelled on the command line: canonical absolute path; relative to the working directory with
	// a parent segment in it; or through a symlink that lies deeper than its target
	let root_arg = match spelling {
		5 => {
			// a parent segment behind a symbolic link: `jump` points two levels down, so `jump/../root` is the real
			// root for the operating system — and `<dir>/root` (a decoy with canaries) for whoever resolves `..` by
			// deleting the segment in front of it
			#[cfg(unix)]
			let _ = std::os::unix::fs::symlink(dir.join("outer").join("releases"), dir.join("jump"));
			let decoy = dir.join("root");
			let _ = std::fs::create_dir_all(decoy.join("sub"));
			for (name, i) in [("index.html", 0usize), ("a.txt", 1), ("secret.txt", 2), ("sub/b.txt", 3)] {
				if let Some(c) = layout.canaries.get(i) {
					let _ = std::fs::write(decoy.join(name), format!("decoy copy of {c}"));
				}
			}
			"jump/../root".to_string()
		}
		4 => {
			// a bracket earlier in the path (a folder named `[v1]`), the mount point behind the path
			#[cfg(unix)]
			let _ = std::os::unix::fs::symlink(dir.join("outer"), dir.join("[v1]"));
			dir.join("[v1]").join("root").display().to_string()
		}
		1 => "outer/sibling/../root".to_string(),
		2 => {
			let deep = dir.join("deep").join("a").join("b");
			let _ = std::fs::create_dir_all(&deep);
			#[cfg(unix)]
			let _ = std::os::unix::fs::symlink(&root, deep.join("link"));
			deep.join("link").display().to_string()
		}
		3 => ".".to_string(),
		_ => root.display().to_string(),
	};
	rep.count(&format!("servers_root_spelling_{spelling}"), 1);
	let static_arg = if spelling == 4 { format!("{root_arg}[/assets]") } else if prefixed { format!("[/assets]{root_arg}") } else { root_arg };
	let static_arg_copy = static_arg.clone();
	let mut args = vec![tiles.display().to_string(), "-s".to_string(), static_arg];
	// a second static mount under its own prefix: what it serves belongs to that prefix only
	let admin_token = format!("ADMIN-ONLY-{:016x}{:016x}", rng.next_u64(), rng.next_u64());
	let two_mounts = !tar && spelling != 3;
	if two_mounts {
		let private = dir.join("outer").join("private-mount");
		let _ = std::fs::create_dir_all(private.join("sub"));
		let _ = std::fs::write(private.join("credentials.json"), &admin_token);
		let _ = std::fs::write(private.join("sub").join("deep.txt"), &admin_token);
		args.push("-s".into());
		args.push(format!("[/admin]{}", private.display()));
	}
	cx.progress(&format!("tar={tar} prefix={prefixed}"));
	// spelling 3: the server's working directory is the static root itself
	let started = if spelling == 3 { Server::start_in(&args, &root, &dir) } else { Server::start(&args, &dir) };
	let mut server = match started {
		Ok(s) => s,
		Err(e) => {
			rep.inconclusive(&format!("server start failed: {e}"));
			return;
		}
	};
	rep.count(if tar { "servers_tar" } else { "servers_folder" }, 1);
	let alpha = alphabet(&layout);
	let inside_contents: Vec<&Vec<u8>> = layout.inside.values().collect();

	// target list
	let mut targets: Vec<(String, Vec<String>, bool)> = vec![]; // (target, segments after the prefix, absolute-form)
	let mut push = |segs: Vec<String>, lead: &str, with_prefix: bool, abs: bool, targets: &mut Vec<(String, Vec<String>, bool)>| {
		let p = if with_prefix { prefix } else { "" };
		targets.push((format!("{p}{lead}{}", segs.join("/")), segs, abs));
	};
	// positive controls
	for k in layout.inside.keys() {
		push(k.split('/').map(String::from).collect(), "/", true, false, &mut targets);
	}
	push(vec!["".into()], "/", true, false, &mut targets);
	push(vec!["sub".into(), "".into()], "/", true, false, &mut targets);
	// exhaustive short sequences in thorough, sampled in quick
	let exhaustive_len = cx.tier.pick(2, 3);
	fn rec(alpha: &[String], cur: &mut Vec<String>, len: usize, out: &mut Vec<Vec<String>>) {
		if cur.len() == len {
			out.push(cur.clone());
			return;
		}
		for a in alpha {
			cur.push(a.clone());
			rec(alpha, cur, len, out);
			cur.pop();
		}
	}
	let mut seqs = vec![];
	for len in 1..=exhaustive_len {
		rec(&alpha, &mut vec![], len, &mut seqs);
	}
	for _ in 0..cx.tier.pick(2500, 40_000) {
		let len = rng.range(3, 5) as usize;
		seqs.push((0..len).map(|_| rng.pick(&alpha).clone()).collect());
	}
	// classic escapes ending in a canary name
	for up in 1..=6 {
		for name in ["secret.txt", "secret2.txt", "secret3.txt", "sibling/s.txt", "index.html", "outer/secret.txt", "releases/secret.txt", "root-private/secret.txt", "root.bak", "stale-secret.txt"] {
			let mut s: Vec<String> = vec!["..".to_string(); up];
			s.extend(name.split('/').map(String::from));
			seqs.push(s.clone());
			let mut t = vec!["sub".to_string()];
			t.extend(s);
			seqs.push(t);
		}
	}
	// parent-directory segments behind the symlinked directory
	for tail in [vec!["..", "secret.txt"], vec!["..", "index.html"], vec![".."], vec!["..", ""], vec!["..", "..", "secret.txt"], vec!["app.js", "..", "..", "secret.txt"]] {
		let mut s = vec!["current".to_string()];
		s.extend(tail.iter().map(|x| x.to_string()));
		seqs.push(s);
	}
	for s in seqs {
		push(s.clone(), "/", true, false, &mut targets);
		if prefixed && rng.chance(0.1) {
			push(s, "/", false, false, &mut targets);
		}
	}
	// absolute paths of *directories* outside the root that hold an index.html (no trailing slash, `/.`, slash)
	for d in [format!("{}/outer", dir.display()), format!("{}/outer/releases", dir.display())] {
		for tail in ["", "/.", "/"] {
			let segs: Vec<String> = format!("{d}{tail}").split('/').filter(|c| !c.is_empty()).map(String::from).collect();
			for lead in ["//", "///", "/sub///"] {
				push(segs.clone(), lead, true, true, &mut targets);
				push(segs.clone(), lead, false, true, &mut targets);
			}
		}
	}
	// absolute components: //abs, ///abs, prefix//abs
	for abs in [&layout.abs_canary, &layout.abs_canary_gz_only, &format!("{}/outer/secret.txt", dir.display()), &"/etc/hostname".to_string(), &format!("{}/outer/root-private/secret.txt", dir.display()), &format!("{}/outer/root.bak", dir.display()), &format!("{}/outer/rootkit.txt", dir.display())] {
		let segs: Vec<String> = abs.split('/').filter(|c| !c.is_empty()).map(String::from).collect();
		for lead in ["//", "///", "/.//", "/a.txt//", "/sub///"] {
			push(segs.clone(), lead, true, true, &mut targets);
			push(segs.clone(), lead, false, true, &mut targets);
		}
	}

	if spelling == 4 {
		// what a split at the wrong bracket would mount: the part in front of the first `[` as root, the rest as prefix
		if let Some((front, rest)) = static_arg_copy.split_once('[') {
			let mount = format!("/{}", rest.trim_end_matches(']'));
			for abs in [format!("{}/outer/secret.txt", dir.display()), layout.abs_canary.clone(), format!("{}/outer/sibling/s.txt", dir.display()), format!("{}/outer/root.bak", dir.display())] {
				if let Some(rel) = abs.strip_prefix(front) {
					let segs: Vec<String> = rel.split('/').map(String::from).collect();
					targets.push((format!("{mount}/{rel}"), segs.clone(), true));
					targets.push((format!("{}/{rel}", mount.replace('[', "%5B").replace(']', "%5D")), segs, true));
				}
			}
		}
	}
	let mut bad = 0;
	for (target, segs, abs) in targets {
		if bad > 10 {
			break;
		}
		let ae = match rng.below(3) {
			0 => vec![],
			1 => vec![("Accept-Encoding", "gzip, br")],
			_ => vec![("Accept-Encoding", "identity")],
		};
		let r = http::get(server.port, &target, &ae);
		rep.eval();
		let esc = escapes(&segs) || abs;
		if esc {
			rep.count("escaping_targets_sent", 1);
		}
		if abs {
			rep.count("absolute_path_targets_sent", 1);
		}
		if segs.iter().any(|s| s.is_empty() || s.starts_with('.') || s.contains('%')) {
			rep.nontrivial(fnv(target.as_bytes()));
		}
		let root_kind = if tar { "tar" } else { "folder" };
		let witness = |extra: serde_json::Value| json!({"request_target": target.chars().take(400).collect::<String>(), "root": root_kind, "prefix": prefix, "status": r.status, "detail": extra});
		if !r.complete {
			bad += 1;
			rep.violation(&format!("{root_kind}|incomplete-response"), "no complete HTTP response", witness(json!({"problem": r.problem, "server_panics": server.panics().into_iter().rev().take(2).collect::<Vec<_>>()})));
			if !server.alive() {
				break;
			}
			continue;
		}
		let body = r.decoded_body().unwrap_or_else(|_| r.body.clone());
		let leaked = layout.canaries.iter().any(|c| contains(&body, c.as_bytes()) || contains(&r.body, c.as_bytes()));
		if leaked {
			bad += 1;
			rep.violation(&format!("{root_kind}|content-outside-root-served"), "the response carries the content of a file outside the configured root", witness(json!({"escaping_lexically": esc})));
			continue;
		}
		if r.status == 200 {
			if inside_contents.iter().any(|c| ***c == body) {
				rep.count("served_200_inside_root", 1);
			} else {
				bad += 1;
				rep.violation(&format!("{root_kind}|200-with-unknown-content"), "200 with a body that is not the content of a file inside the root", witness(json!({"body_head": String::from_utf8_lossy(&body[..body.len().min(80)])})));
			}
			if esc {
				bad += 1;
				rep.violation(&format!("{root_kind}|200-for-escaping-target"), "a target that resolves outside the root was answered 200", witness(json!({})));
			}
		} else if r.status != 404 {
			rep.violation(&format!("{root_kind}|unexpected-status"), "static handler answered neither 200 nor 404", witness(json!({})));
		}
		if rep.wants_sample() && esc && rng.chance(0.01) {
			rep.sample(json!({"request_target": target.chars().take(200).collect::<String>(), "root": root_kind, "prefix": prefix, "status": r.status}));
		}
	}
	if two_mounts {
		// first through its own prefix (legitimate), then through the other mount's paths
		let own = http::get(server.port, "/admin/credentials.json", &[]);
		let own2 = http::get(server.port, "/admin/sub/deep.txt", &[]);
		rep.count("second_mount_requests", 2);
		if !(own.complete && own.status == 200 && own.decoded_body().map(|b| String::from_utf8_lossy(&b).contains(&admin_token)).unwrap_or(false) && own2.status == 200) {
			rep.note("the second static mount did not serve its own file");
		}
		for t in ["/credentials.json", "/sub/deep.txt", "/assets/credentials.json", "/assets/sub/deep.txt", "//credentials.json", "/./credentials.json", "/sub/../credentials.json"] {
			let r = http::get(server.port, t, &[]);
			rep.eval();
			rep.count("second_mount_requests", 1);
			let leaked = r.decoded_body().map(|b| String::from_utf8_lossy(&b).contains(&admin_token)).unwrap_or(false) || String::from_utf8_lossy(&r.body).contains(&admin_token);
			if leaked {
				rep.violation("folder|content-of-another-mount-served", "a file that exists only in the mount under /admin was served under another path", json!({"request_target": t, "status": r.status, "server_args": args.iter().filter(|a| a.starts_with('[')).collect::<Vec<_>>()}));
				break;
			}
		}
	}
	drop(server);
	let _ = std::fs::remove_dir_all(&dir);
}

fn contains(hay: &[u8], needle: &[u8]) -> bool {
	!needle.is_empty() && hay.windows(needle.len()).any(|w| w == needle)
}
