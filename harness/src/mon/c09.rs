//! C09 — zoom and bounding-box filters pass exactly the tiles inside the filter.
//!
//! Sequential model: filter_zoom keeps z in [min,max]; filter_bbox keeps c iff c lies in the tile
//! box the geographic bbox maps to at z (independent Mercator model, tolerance band); chains are
//! intersections; payloads are passed through unchanged. Invalid arguments must be reported as
//! an error when the pipeline is built.

use crate::check::{kstr, short};
use crate::gen::{self, coord_of, key_of, GenOpts, Key, TileSet};
use crate::guard;
use crate::model::{self, Tri};
use crate::mon::c01::pairs_for;
use crate::pipe::{self, Sources, Src};
use crate::report::{Plan, Report, Tier};
use crate::rng::{fnv, Rng};
use crate::shard::{CaseCtx, MonitorDef};
use serde_json::json;
use std::collections::{BTreeMap, BTreeSet};
use versatiles_core::types::*;

pub fn def() -> MonitorDef {
	MonitorDef { id: "C09", plan, run_case, finalize }
}

fn plan(tier: Tier, _seed: u64) -> Plan {
	Plan {
		cases: tier.pick(160, 2000),
		shards: 14,
		case_timeout_s: 600,
		level: "exploration",
		rule: "one case = (source: in-memory or container file, levels 0..31, exact or widened coverage; chain of 1..4 filters: filter_zoom with min/max from {absent, 0..31, 32, 255} incl. min > max and values beyond the source's range, filter_bbox with geographic boxes that cut through tiles, are tile-aligned, tiny, world-wide, disjoint from the source, touching the antimeridian / the Mercator limit). Lookups over stored tiles, neighbours and all of zoom <= 3, streams over level boxes and sampled boxes. One evaluation = one coordinate or box compared with the model. Non-trivial: the chain removes some but not all tiles; distinct by (source, chain)".into(),
		assumptions: vec![
			"tile box of a geographic bbox = the harness's Mercator model; coordinates whose membership depends on less than 2e-6 tile units (1e-3 at zoom >= 28) are don't-care".into(),
			"for a box produced by TileBBox::as_geo_bbox at level L the expected selection at level L is exactly that tile box (round-trip law of C15), zoom 30/31 excluded (known finding)".into(),
		],
		min_evaluations: 20_000,
		exhaustive: false,
		timeouts_excluded: false,
	}
}

fn finalize(_t: Tier, _p: &Plan, rep: &mut Report) {
	for k in ["chains_with_zoom", "chains_with_bbox", "invalid_arguments_checked", "zoom_all_pairs_checked", "level31_sources", "disjoint_boxes", "tile_aligned_boxes"] {
		if rep.counter(k) == 0 {
			rep.inconclusive(&format!("nothing observed for {k}"));
		}
	}
}

#[derive(Clone, Debug)]
enum Filter {
	Zoom(Option<u8>, Option<u8>),
	/// geo box + optional (level, exact tile box) when the box is tile aligned at that level
	BBox([f64; 4], Option<(u8, u32, u32, u32, u32)>),
}

impl Filter {
	fn vpl(&self, rng: &mut Rng) -> String {
		match self {
			Filter::Zoom(a, b) => {
				let mut s = String::from("filter_zoom");
				if let Some(a) = a {
					s.push_str(&format!(" min={a}"));
				}
				if let Some(b) = b {
					s.push_str(&if rng.bool() { format!(" max={b}") } else { format!(" max=\"{b}\"") });
				}
				s
			}
			Filter::BBox(g, _) => format!("filter_bbox bbox=[{},{},{},{}]", g[0], g[1], g[2], g[3]),
		}
	}
	fn keeps(&self, k: &Key) -> Tri {
		match self {
			Filter::Zoom(a, b) => {
				if a.map(|a| k.0 < a).unwrap_or(false) || b.map(|b| k.0 > b).unwrap_or(false) {
					Tri::Out
				} else {
					Tri::In
				}
			}
			Filter::BBox(g, aligned) => {
				if let Some((z, x0, y0, x1, y1)) = aligned {
					if *z == k.0 && *z < 30 {
						return if k.1 >= *x0 && k.1 <= *x1 && k.2 >= *y0 && k.2 <= *y1 { Tri::In } else { Tri::Out };
					}
				}
				model::geo_membership(g, k)
			}
		}
	}
}

fn zoom_value(rng: &mut Rng, levels: &[u8]) -> Option<u8> {
	match rng.below(6) {
		0 => None,
		1 => Some(*rng.pick(&[0u8, 31, 32, 255, 30])),
		2 | 3 => Some(*rng.pick(levels)),
		_ => Some(rng.below(33) as u8),
	}
}

fn gen_filter(rng: &mut Rng, ts: &TileSet, rep: &mut Report) -> Filter {
	let levels: Vec<u8> = ts.levels().into_iter().collect();
	if rng.chance(0.45) {
		return Filter::Zoom(zoom_value(rng, &levels), zoom_value(rng, &levels));
	}
	let b = ts.bounds();
	let (z, bb) = {
		let z = *rng.pick(&levels);
		(z, b[&z])
	};
	match rng.below(8) {
		0 => Filter::BBox([-180.0, -90.0, 180.0, 90.0], None),
		1 => {
			// tile aligned at level z (as printed by the project itself)
			let m = ((1u64 << z) - 1) as u32;
			let x0 = bb.0.saturating_sub(rng.below(2) as u32);
			let y0 = bb.1.saturating_sub(rng.below(2) as u32);
			let x1 = (bb.0 as u64 + rng.below((bb.2 - bb.0) as u64 + 2)).min(m as u64) as u32;
			let y1 = (bb.1 as u64 + rng.below((bb.3 - bb.1) as u64 + 2)).min(m as u64) as u32;
			let tb = TileBBox::new(z, x0, y0, x1.max(x0), y1.max(y0)).unwrap();
			let g = tb.as_geo_bbox();
			rep.count("tile_aligned_boxes", 1);
			Filter::BBox([g.0, g.1, g.2, g.3], Some((z, tb.x_min, tb.y_min, tb.x_max, tb.y_max)))
		}
		2 => {
			// disjoint from the source (on the other side of the world)
			let lon = model::tile_lon(bb.0 as f64, z);
			rep.count("disjoint_boxes", 1);
			if lon < 0.0 {
				Filter::BBox([100.3, -40.2, 170.7, 40.1], None)
			} else {
				Filter::BBox([-170.7, -40.2, -100.3, 40.1], None)
			}
		}
		3 => {
			// tiny box inside one tile
			let cx = model::tile_lon(bb.0 as f64 + 0.37, z);
			let cy = model::tile_lat(bb.1 as f64 + 0.41, z);
			let w = 360.0 / (2f64).powi(z as i32) * 1e-3;
			Filter::BBox([cx, cy.max(-85.0).min(85.0), (cx + w).min(180.0), (cy + w * 0.5).max(-85.0).min(85.0)], None)
		}
		4 => Filter::BBox([-180.0, -85.05112877980659, 0.0, 85.05112877980659], None),
		_ => Filter::BBox(model::safe_geo_box(rng, &levels, (z, bb.0, bb.1, bb.2, bb.3)), None),
	}
}

fn run_case(cx: &CaseCtx, rep: &mut Report) {
	let mut rng = cx.rng();
	if cx.case == 0 {
		invalid_arguments(cx, rep, &mut rng);
		zoom_all_pairs(cx, rep, &mut rng);
		return;
	}
	let dir = cx.fresh_dir("c09");
	let as_file = rng.chance(0.25);
	let target = if as_file { *rng.pick(&["versatiles", "tar", "mbtiles", "pmtiles", "directory"]) } else { "tar" };
	let opts = GenOpts { max_tiles: cx.tier.pick(400, 1200), formats: pairs_for(target), unique_payloads: true, ..Default::default() };
	let ts = gen::gen_tileset(&mut rng, &opts);
	if ts.levels().contains(&31) {
		rep.count("level31_sources", 1);
	}
	let mut sources = Sources::new();
	let mut src_desc = json!({"kind": "memory", "tileset": ts.describe()});
	if as_file {
		let path = crate::mon::c01::container_path(&dir, target);
		if target == "directory" {
			let _ = std::fs::create_dir_all(&path);
		}
		let mut m = gen::MemSource::new(&ts);
		if let Err(e) = guard::block_on(versatiles_container::write_to_filename(&mut m, path.to_str().unwrap())) {
			rep.inconclusive(&format!("fixture write failed: {e:#}"));
			return;
		}
		sources.add("s.x", Src::File(path));
		src_desc = json!({"kind": format!("file:{target}"), "tileset": ts.describe()});
	} else {
		let pyramid = if rng.chance(0.3) {
			let mut p = ts.pyramid();
			p.add_border(2, 1, 1, 2);
			Some(p)
		} else {
			None
		};
		sources.add("s.x", Src::Mem { ts: ts.clone(), pyramid, default_stream: rng.chance(0.3), yields: if rng.chance(0.2) { 1 } else { 0 }, open_yields: 0 });
	}
	let nf = rng.range(1, 4) as usize;
	let chain: Vec<Filter> = (0..nf).map(|_| gen_filter(&mut rng, &ts, rep)).collect();
	if chain.iter().any(|f| matches!(f, Filter::Zoom(..))) {
		rep.count("chains_with_zoom", 1);
	}
	if chain.iter().any(|f| matches!(f, Filter::BBox(..))) {
		rep.count("chains_with_bbox", 1);
	}
	// the filters sit on the plain source or on a composed one (the same source listed twice: tile for tile the
	// same content, but streamed block by block through the overlay)
	let head = if rng.chance(0.25) { "from_overlayed [ from_container filename=s.x, from_container filename=s.x ]" } else { "from_container filename=s.x" };
	let vpl = format!("{head} | {}", chain.iter().map(|f| f.vpl(&mut rng)).collect::<Vec<_>>().join(" | "));
	cx.progress(&vpl);
	let witness = |extra: serde_json::Value| json!({"vpl": vpl, "source": src_desc, "detail": extra});

	let built = guard::catch(|| guard::block_on(pipe::build(&vpl, &sources, None)));
	let (reader, _logs) = match built {
		Err(p) => {
			rep.violation(&p.signature("build-filter-chain"), "building a valid filter chain panicked", witness(json!({"panic": p.describe()})));
			return;
		}
		Ok(Err(e)) => {
			rep.violation("build-failed|valid-chain", "a valid filter chain was rejected", witness(json!({"error": format!("{e:#}")})));
			return;
		}
		Ok(Ok(x)) => x,
	};

	// model
	let keeps = |k: &Key| -> Tri {
		let mut t = Tri::In;
		for f in &chain {
			match f.keeps(k) {
				Tri::Out => return Tri::Out,
				Tri::DontCare => t = Tri::DontCare,
				Tri::In => {}
			}
		}
		t
	};
	let kept = ts.tiles.keys().filter(|k| keeps(k) == Tri::In).count();
	let dropped = ts.tiles.keys().filter(|k| keeps(k) == Tri::Out).count();
	if kept > 0 && dropped > 0 {
		rep.nontrivial(ts.fingerprint() ^ fnv(vpl.as_bytes()));
	}

	// lookups
	let probes = crate::check::probe_set(&ts.tiles, &mut rng, 20);
	let fut = async {
		let mut v = vec![];
		for k in &probes {
			v.push((*k, reader.get_tile_data(&coord_of(k)).await.map(|o| o.map(|b| b.into_vec())).map_err(|e| e.to_string())));
		}
		v
	};
	match guard::catch(|| guard::block_on(fut)) {
		Err(p) => rep.violation(&p.signature("lookup-filter-chain"), "lookup through a filter chain panicked", witness(json!({"panic": p.describe()}))),
		Ok(v) => {
			let mut bad = 0;
			for (k, r) in v {
				rep.eval();
				let src = ts.tiles.get(&k);
				let expect_in = keeps(&k);
				let problem: Option<(&str, serde_json::Value)> = match (&r, src, expect_in) {
					(Err(e), _, _) => Some(("lookup-error", json!({"tile": kstr(&k), "error": e}))),
					(Ok(Some(b)), Some(s), Tri::In | Tri::DontCare) if b == s => None,
					(Ok(Some(b)), Some(s), Tri::In | Tri::DontCare) => Some(("payload-changed", json!({"tile": kstr(&k), "source": short(s), "got": short(b)}))),
					(Ok(None), Some(_), Tri::In) => Some(("tile-inside-filter-missing", json!({"tile": kstr(&k)}))),
					(Ok(Some(_)), Some(_), Tri::Out) => Some(("tile-outside-filter-returned", json!({"tile": kstr(&k)}))),
					(Ok(Some(_)), None, _) => Some(("tile-from-nowhere", json!({"tile": kstr(&k)}))),
					_ => None,
				};
				if let Some((kind, d)) = problem {
					bad += 1;
					if bad <= 3 {
						let fk = if chain.len() == 1 { if matches!(chain[0], Filter::Zoom(..)) { "zoom" } else { "bbox" } } else { "chain" };
						rep.violation(&format!("lookup|{fk}|{kind}"), "a filter does not pass exactly the tiles inside it", witness(d));
					}
				}
			}
		}
	}

	// streams: level boxes of the source (not of the filtered output) and a few sampled boxes
	let mut boxes: Vec<TileBBox> = ts.pyramid().iter_levels().cloned().collect();
	for lb in boxes.clone() {
		let mut w = lb.clone();
		w.add_border(1, 1, 1, 1);
		boxes.push(w);
		boxes.push(TileBBox::new(lb.level, lb.x_min, lb.y_min, lb.x_min, lb.y_max).unwrap());
	}
	boxes.push(TileBBox::new_empty(3).unwrap());
	for bbox in boxes {
		if bbox.count_tiles() > 70_000 {
			continue;
		}
		let fut = async { reader.get_bbox_tile_stream(bbox.clone()).await.collect().await };
		let mt = rng.chance(0.3);
		match guard::catch(|| if mt { guard::block_on_mt(4, fut) } else { guard::block_on(fut) }) {
			Err(p) => rep.violation(&p.signature("stream-filter-chain"), "stream through a filter chain panicked", witness(json!({"bbox": format!("{bbox:?}"), "panic": p.describe()}))),
			Ok(items) => {
				rep.eval();
				let mut seen = BTreeSet::new();
				let mut first: Option<(&str, serde_json::Value)> = None;
				for (c, b) in &items {
					let k = key_of(c);
					if !bbox.contains3(c) || !seen.insert(k) {
						first.get_or_insert(("outside-or-duplicate", json!({"tile": kstr(&k)})));
						continue;
					}
					match (ts.tiles.get(&k), keeps(&k)) {
						(None, _) => {
							first.get_or_insert(("tile-from-nowhere", json!({"tile": kstr(&k)})));
						}
						(Some(_), Tri::Out) => {
							first.get_or_insert(("tile-outside-filter-returned", json!({"tile": kstr(&k)})));
						}
						(Some(s), _) if s.as_slice() != b.as_slice() => {
							first.get_or_insert(("payload-changed", json!({"tile": kstr(&k)})));
						}
						_ => {}
					}
				}
				if !bbox.is_empty() {
					for k in ts.tiles.keys() {
						if k.0 == bbox.level && bbox.contains3(&coord_of(k)) && keeps(k) == Tri::In && !seen.contains(k) {
							first.get_or_insert(("tile-inside-filter-missing", json!({"tile": kstr(k)})));
							break;
						}
					}
				}
				if let Some((kind, d)) = first {
					rep.violation(&format!("stream|{kind}"), "stream through a filter does not deliver exactly the tiles inside it", witness(json!({"bbox": format!("{bbox:?}"), "d": d})));
				}
			}
		}
	}
	// advertised coverage contains every tile the chain can return
	let pyr = reader.get_parameters().bbox_pyramid.clone();
	for k in ts.tiles.keys() {
		if keeps(k) == Tri::In && !pyr.contains_coord(&coord_of(k)) {
			rep.violation("coverage|misses-returnable-tile", "advertised coverage of the filtered pipeline misses a tile it returns", witness(json!({"tile": kstr(k)})));
			break;
		}
	}
	if rep.wants_sample() && kept > 0 && dropped > 0 {
		rep.sample(json!({"vpl": vpl, "source_tiles": ts.tiles.len(), "kept_by_model": kept, "dropped_by_model": dropped}));
	}
	let _ = std::fs::remove_dir_all(&dir);
}

/// all (min,max) in {absent,0..31,32,255}^2 on one source that has every level 0..31
fn zoom_all_pairs(cx: &CaseCtx, rep: &mut Report, rng: &mut Rng) {
	cx.progress("all zoom pairs");
	let mut tiles = BTreeMap::new();
	for z in 0..32u8 {
		let m = ((1u64 << z) - 1) as u32;
		tiles.insert((z, m / 2, m / 3), format!("T:{z}").into_bytes());
		tiles.insert((z, m, 0), format!("U:{z}").into_bytes());
	}
	let ts = TileSet { format: TileFormat::BIN, comp: crate::comp::Comp::None, tiles, tilejson: "{}".into(), shape: "one tile pair per level 0..31".into(), really_compressed: false };
	let mut sources = Sources::new();
	sources.add_mem("s.x", &ts);
	let vals: Vec<Option<u8>> = std::iter::once(None).chain((0..=32u8).map(Some)).chain(std::iter::once(Some(255))).collect();
	for a in &vals {
		for b in &vals {
			let f = Filter::Zoom(*a, *b);
			let vpl = format!("from_container filename=s.x | {}", f.vpl(rng));
			let r = guard::catch(|| {
				guard::block_on(async {
					let (reader, _) = pipe::build(&vpl, &sources, None).await?;
					let mut got = BTreeSet::new();
					for k in ts.tiles.keys() {
						if reader.get_tile_data(&coord_of(k)).await?.is_some() {
							got.insert(*k);
						}
					}
					let mut streamed = BTreeSet::new();
					for z in 0..32u8 {
						let m = ((1u64 << z) - 1) as u32;
						for (c, _) in reader.get_bbox_tile_stream(TileBBox::new(z, m / 2, 0, m, m / 3).unwrap()).await.collect().await {
							streamed.insert(key_of(&c));
						}
					}
					Ok::<_, anyhow::Error>((got, streamed, reader.get_parameters().bbox_pyramid.clone()))
				})
			});
			rep.eval();
			rep.count("zoom_all_pairs_checked", 1);
			rep.nontrivial(fnv(vpl.as_bytes()));
			let expect: BTreeSet<Key> = ts.tiles.keys().filter(|k| f.keeps(k) == Tri::In).cloned().collect();
			match r {
				Err(p) => rep.violation(&p.signature("filter_zoom"), "filter_zoom panicked", json!({"vpl": vpl, "panic": p.describe()})),
				Ok(Err(e)) => rep.violation("zoom|valid-rejected", "valid filter_zoom arguments rejected", json!({"vpl": vpl, "error": format!("{e:#}")})),
				Ok(Ok((got, streamed, pyr))) => {
					if got != expect || streamed != expect {
						let miss: Vec<String> = expect.difference(&got).chain(expect.difference(&streamed)).map(kstr).take(4).collect();
						let extra: Vec<String> = got.difference(&expect).chain(streamed.difference(&expect)).map(kstr).take(4).collect();
						rep.violation("zoom|wrong-levels", "filter_zoom does not retain exactly the levels min..=max", json!({"vpl": vpl, "missing": miss, "extra": extra}));
					}
					if expect.iter().any(|k| !pyr.contains_coord(&coord_of(k))) {
						rep.violation("zoom|coverage", "advertised coverage lacks a retained level", json!({"vpl": vpl}));
					}
				}
			}
		}
	}
}

fn invalid_arguments(cx: &CaseCtx, rep: &mut Report, rng: &mut Rng) {
	cx.progress("invalid arguments");
	let opts = GenOpts { max_tiles: 50, max_level: 10, formats: vec![(TileFormat::PNG, crate::comp::Comp::None)], ..Default::default() };
	let ts = gen::gen_tileset(rng, &opts);
	let mut sources = Sources::new();
	sources.add_mem("s.x", &ts);
	let bad = [
		("filter_zoom min=abc", "non-numeric"),
		("filter_zoom max=1.5", "non-integer"),
		("filter_zoom min=-1", "negative"),
		("filter_zoom min=256", "does not fit u8"),
		("filter_zoom max=1000", "does not fit u8"),
		("filter_zoom min=[1,2]", "list for a scalar"),
		("filter_zoom min=\"\"", "empty"),
		("filter_zoom min=[]", "empty list for a scalar"),
		("filter_zoom max=[]", "empty list for a scalar"),
		("filter_bbox bbox=[]", "wrong arity"),
		("filter_bbox", "bbox missing"),
		("filter_bbox bbox=[1,2,3]", "wrong arity"),
		("filter_bbox bbox=[1,2,3,4,5]", "wrong arity"),
		("filter_bbox bbox=[1,2,x,3,4]", "wrong arity and non-numeric"),
		("filter_bbox bbox=[west,1,2,3,4]", "wrong arity and non-numeric"),
		("filter_bbox bbox=5", "wrong arity"),
		("filter_bbox bbox=[a,b,c,d]", "non-numeric"),
		("filter_bbox bbox=[10,0,5,1]", "reversed longitude"),
		("filter_bbox bbox=[0,10,1,5]", "reversed latitude"),
		("filter_bbox bbox=[-181,0,0,1]", "longitude out of range"),
		("filter_bbox bbox=[0,0,181,1]", "longitude out of range"),
		("filter_bbox bbox=[0,-91,1,0]", "latitude out of range"),
		("filter_bbox bbox=[0,0,1,91]", "latitude out of range"),
		("filter_bbox bbox=[NaN,0,1,1]", "NaN"),
		("filter_bbox bbox=[0,0,inf,1]", "infinite"),
		("filter_bbox bbox=[-200,0,10,10]", "longitude out of range"),
	];
	for (f, why) in bad {
		let vpl = format!("from_container filename=s.x | {f}");
		rep.eval();
		rep.count("invalid_arguments_checked", 1);
		rep.nontrivial(fnv(vpl.as_bytes()));
		match guard::catch(|| guard::block_on(pipe::build(&vpl, &sources, None)).map(|_| ())) {
			Err(p) => rep.violation(&p.signature("build-invalid-filter"), "an invalid filter argument made the build panic instead of returning an error", json!({"vpl": vpl, "why_invalid": why, "panic": p.describe()})),
			Ok(Ok(())) => rep.violation(&format!("invalid-accepted|{why}"), "an invalid filter argument was accepted", json!({"vpl": vpl, "why_invalid": why})),
			Ok(Err(_)) => {}
		}
	}
	// valid but unusual arguments must be accepted
	for f in ["filter_zoom", "filter_zoom min=7 max=3", "filter_zoom min=40", "filter_zoom max=255", "filter_bbox bbox=[0,0,0,0]", "filter_bbox bbox=[-180,-90,180,90]", "filter_bbox bbox=[170,80,180,90]", "filter_bbox bbox=[ 1 , 2 , 3 , 4 ]", "filter_bbox bbox=[\"1\",\"2\",\"3\",\"4\"]"] {
		let vpl = format!("from_container filename=s.x | {f}");
		rep.eval();
		match guard::catch(|| guard::block_on(pipe::build(&vpl, &sources, None)).map(|_| ())) {
			Err(p) => rep.violation(&p.signature("build-valid-filter"), "a valid filter argument made the build panic", json!({"vpl": vpl, "panic": p.describe()})),
			Ok(Err(e)) => rep.violation("valid-rejected|unusual-argument", "a valid (if unusual) filter argument was rejected", json!({"vpl": vpl, "error": format!("{e:#}")})),
			Ok(Ok(())) => {}
		}
	}
}
