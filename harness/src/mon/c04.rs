//! C04 — recompression changes only the encoding, never the payload.
//!
//! Sources whose payloads are *really* compressed are converted with every (source compression,
//! target compression | keep, force) combination into every writable format; every output tile
//! decoded with the compression the output declares (harness's own gzip / brotli) must equal the
//! decoded source tile; metadata must survive.

use crate::check::{kstr, short};
use crate::codec;
use crate::comp::{self, Comp};
use crate::gen::{coord_of, key_of, Key, MemSource, TileSet};
use crate::guard;
use crate::model;
use crate::mon::c01::{container_path, pairs_for, TARGETS};
use crate::report::{Plan, Report, Tier};
use crate::rng::{fnv, Rng};
use crate::shard::{CaseCtx, MonitorDef};
use serde_json::json;
use std::collections::BTreeMap;
use versatiles_container::*;
use versatiles_core::types::*;
use versatiles_core::utils as vu;

pub fn def() -> MonitorDef {
	MonitorDef { id: "C04", plan, run_case, finalize }
}

const OPTS: [Option<Comp>; 4] = [None, Some(Comp::None), Some(Comp::Gzip), Some(Comp::Brotli)];

fn plan(tier: Tier, _seed: u64) -> Plan {
	Plan {
		// 3 source compressions x 4 targets x 2 force x 5 formats = 120 combinations per payload set
		cases: 120 * tier.pick(2, 20),
		shards: 14,
		case_timeout_s: 600,
		level: "exploration",
		rule: "one case = (payload set: 1 byte, 10 random bytes, UTF-8 JSON, 100 KiB highly compressible, 70 KiB incompressible, plus random sizes, genuinely compressed with the source compression) x (source compression) x (target: keep | none | gzip | brotli) x (force flag) x (target format versatiles | pmtiles | mbtiles | tar | directory), with random flip / swap flags and in-memory or file sources; plus, 5 per 120, the real `versatiles convert --override-input-compression` on directories whose compressed tiles carry no compression suffix, read back by the independent decoders. Combinations a format cannot hold (MBTiles / PMTiles pairs) are skipped and counted. One evaluation = one conversion checked tile by tile through lookups and streams. Non-trivial: every conversion with >= 3 tiles; distinct by (payload set, combination)".into(),
		assumptions: vec!["decoding uses the flate2 / brotli crates directly; metadata is compared as JSON, ignoring bounds / minzoom / maxzoom which readers may narrow".into()],
		min_evaluations: 100,
		exhaustive: false,
		timeouts_excluded: false,
	}
}

fn finalize(_t: Tier, _p: &Plan, rep: &mut Report) {
	if rep.counter("combinations_distinct_cells") < 60 {
		rep.inconclusive("fewer than 60 distinct (source, target, force, format) cells were converted");
	}
	if rep.counter("algebra_checks") == 0 {
		rep.inconclusive("compress/decompress/recompress algebra not exercised");
	}
}

fn payload_set(rng: &mut Rng, format: TileFormat, c: Comp) -> TileSet {
	payload_set_with(rng, format, c, false)
}

/// `huge`: additionally one tile of a little more than 16 MiB and one of 33 MiB (decoded size) — past the
/// round numbers at which a decoder might cap its output
fn payload_set_with(rng: &mut Rng, format: TileFormat, c: Comp, huge: bool) -> TileSet {
	let z = *rng.pick(&[2u8, 5, 9, 14]);
	let m = ((1u64 << z) - 1) as u32;
	let (x0, y0) = (rng.range(0, (m - 3) as u64) as u32, rng.range(0, (m - 3) as u64) as u32);
	let mut raw: Vec<Vec<u8>> = vec![
		vec![rng.next_u64() as u8],
		rng.bytes(10),
		format!("{{\"type\":\"FeatureCollection\",\"name\":\"ü€𝄞\",\"n\":{}}}", rng.below(1000)).into_bytes(),
		b"highly compressible ".iter().cycle().take(100 * 1024).cloned().collect(),
		rng.bytes(70 * 1024),
		vec![0u8; 3000],
		// payloads that are themselves compressed streams / start with a codec's magic bytes (tiles gzipped before
		// packing but declared otherwise, .gz files carried as BIN tiles): they are data like any other
		comp::compress(b"an inner gzip stream: payload bytes that happen to be compressed already ".repeat(20).as_slice(), Comp::Gzip),
		comp::compress(b"an inner brotli stream ".repeat(30).as_slice(), Comp::Brotli),
		[&[0x1fu8, 0x8b, 0x08, 0x00][..], &rng.bytes(40)[..]].concat(),
	];
	if huge {
		for n in [(16usize << 20) + 1, 33 << 20] {
			let mut v: Vec<u8> = b"sixteen MiB and a bit ".iter().cycle().take(n).cloned().collect();
			let l = v.len();
			v[l - 9..].copy_from_slice(b"THE END.\n");
			raw.push(v);
		}
	}
	for _ in 0..rng.range(1, 4) {
		let n = *rng.pick(&[2usize, 17, 999, 1000, 1001, 5000]);
		raw.push(if rng.bool() { rng.bytes(n) } else { b"ab".iter().cycle().take(n).cloned().collect() });
	}
	let mut tiles = BTreeMap::new();
	for (i, r) in raw.iter().enumerate() {
		let (x, y) = (x0 + (i as u32 % 4), y0 + (i as u32 / 4));
		// the coordinate is embedded so that a relocated tile is visible
		let mut p = format!("T:{z}/{x}/{y};").into_bytes();
		p.extend_from_slice(r);
		// the one-byte payload and the payloads that look like compressed streams are stored verbatim
		let p = if i == 0 { vec![r[0]] } else if (6..9).contains(&i) { r.clone() } else { p };
		tiles.insert((z, x, y), comp::compress(&p, c));
	}
	// a second level with one tile — stored as a gzip file of two members where the source is gzip
	let lower = b"T:lower level; the second half of this tile lives in a second gzip member";
	tiles.insert((z - 1, x0 / 2, y0 / 2), if c == Comp::Gzip { comp::gzip_two_members(lower, 13) } else { comp::compress(lower, c) });
	// a level of tiles that alternate between three bodies (ocean / land / empty-style tiles recur all over a real
	// tile set): a converter working on several tiles at once must keep every result with its own tile
	let bodies: Vec<Vec<u8>> = (0..3u8).map(|b| (0..16_000u32).map(|i| (i as u8).wrapping_mul(b + 3) ^ (i >> 8) as u8 ^ b).collect()).collect();
	for dy in 0..6u32 {
		for dx in 0..8u32 {
			let body = &bodies[((dx + 3 * dy + (dx * dy) % 2) % 3) as usize];
			tiles.insert((z + 1, 2 * x0 + dx, 2 * y0 + dy), comp::compress(body, c));
		}
	}
	// two tiles of the same length that share their first 4000 (incompressible) bytes and differ in the last 96
	let shared = rng.bytes(4000);
	for (i, dx) in [(0u32, 0u32), (1, 1)] {
		let mut p = shared.clone();
		p.extend_from_slice(format!("{:<96}", format!("tile number {i} of the pair at z{}", z + 1)).as_bytes());
		tiles.insert((z + 1, 2 * x0 + dx, 2 * y0 + 6), comp::compress(&p, c));
	}
	// a tile whose decoded payload is empty (e.g. an empty vector tile); only representable when the
	// stored form is non-empty, i.e. for compressed sources
	if c != Comp::None {
		tiles.insert((z, x0 + 3, y0 + 3), comp::compress(b"", c));
	}
	TileSet { format, comp: c, tiles, tilejson: "{\"tilejson\":\"3.0.0\",\"name\":\"c04 \\u00e4\",\"attribution\":\"x\",\"vector_layers\":[{\"id\":\"a\",\"fields\":{\"k\":\"String\"}}]}".into(), shape: format!("payload classes at z{z}"), really_compressed: true }
}

fn run_case(cx: &CaseCtx, rep: &mut Report) {
	let mut rng = cx.rng();
	let combo = cx.case % 120;
	let src_comp = comp::ALL[(combo % 3) as usize];
	let opt = OPTS[((combo / 3) % 4) as usize];
	let force = (combo / 12) % 2 == 1;
	let target = TARGETS[((combo / 24) % 5) as usize];
	let out_comp = opt.unwrap_or(src_comp);
	if cx.case < 3 && !cx.tier.is_tiny() {
		algebra(rep, &mut rng, cx.case == 0);
	}
	if combo % 24 == 5 {
		cli_override(cx, rep, &mut rng, combo);
	}
	// choose a tile format that both the source pairing and the target accept
	let fmts: Vec<TileFormat> = match target {
		"mbtiles" => pairs_for("mbtiles").into_iter().filter(|(_, c)| *c == out_comp).map(|(f, _)| f).collect(),
		"pmtiles" => vec![TileFormat::PBF, TileFormat::PNG, TileFormat::JPG, TileFormat::WEBP, TileFormat::AVIF],
		_ => crate::gen::FORMATS.to_vec(),
	};
	// a pairing the target cannot hold (MBTiles declares the compression through its format row: pbf = gzip, images =
	// none) has to be refused — or, if it is written after all, has to be right like any other conversion
	let all_mb = [TileFormat::PBF, TileFormat::PNG, TileFormat::JPG, TileFormat::WEBP];
	let inexpressible = fmts.is_empty() || (target == "mbtiles" && fmts.len() < all_mb.len() && rng.chance(0.3));
	let fmts: Vec<TileFormat> = if inexpressible { all_mb.iter().filter(|f| !fmts.contains(f)).cloned().collect() } else { fmts };
	if inexpressible {
		rep.count("combinations_not_expressible", 1);
	}
	let format = *rng.pick(&fmts);
	// thorough: about fifteen conversions with tiles beyond 16 MiB
	let huge = matches!(cx.tier, Tier::Thorough) && cx.case / 120 == 3 && combo % 7 == 3 && target != "mbtiles";
	if huge {
		rep.count("conversions_with_tiles_beyond_16_MiB", 1);
	}
	let ts = payload_set_with(&mut rng, format, src_comp, huge);
	let flip = rng.chance(0.3);
	let swap = rng.chance(0.3);
	let dir = cx.fresh_dir("c04");
	let desc = format!("{}->{} force={force} target={target} flip={flip} swap={swap}", src_comp.name(), opt.map(|c| c.name()).unwrap_or("keep"));
	cx.progress(&desc);
	let witness = |extra: serde_json::Value| json!({"conversion": desc, "tile_format": format!("{format:?}"), "tileset": ts.describe(), "detail": extra});

	// source: memory, or a container file written first
	let src_formats: Vec<&str> = ["versatiles", "tar", "directory", "pmtiles", "mbtiles"].into_iter().filter(|t| pairs_for(t).contains(&(format, src_comp))).collect();
	let reader: Box<dyn TilesReaderTrait> = if rng.chance(0.4) && !src_formats.is_empty() {
		let st = *rng.pick(&src_formats);
		let sub = dir.join("src");
		let _ = std::fs::create_dir_all(&sub);
		let p = container_path(&sub, st);
		if st == "directory" {
			let _ = std::fs::create_dir_all(&p);
		}
		let mut m = MemSource::new(&ts);
		if let Err(e) = guard::block_on(write_to_filename(&mut m, p.to_str().unwrap())) {
			rep.inconclusive(&format!("fixture write failed: {e:#}"));
			return;
		}
		match guard::block_on(get_reader(p.to_str().unwrap())) {
			Ok(r) => r,
			Err(e) => {
				rep.inconclusive(&format!("fixture open failed: {e:#}"));
				return;
			}
		}
	} else {
		let mut m = MemSource::new(&ts);
		m.default_stream = rng.chance(0.3);
		m.boxed()
	};
	let src_meta = reader.get_tilejson().as_string();
	let out = container_path(&dir, target);
	if target == "directory" {
		let _ = std::fs::create_dir_all(&out);
	}
	// the target may already exist: an older conversion of the same tiles with longer payloads (same file names)
	if !huge && rng.chance(0.3) {
		// every second older version holds one tile more than the new one and is stored in another compression where the format can express one: a
		// writer that reuses the old file instead of replacing it leaves that tile (and the old declaration) behind.
		// Directory targets are left out: they keep such tiles, which is the known finding of C01.
		let other_old = target != "directory" && (ts.fingerprint() >> 7) % 2 == 0;
		let old_comp = if other_old { comp::ALL.iter().copied().find(|c| *c != out_comp && pairs_for(target).contains(&(format, *c))).unwrap_or(out_comp) } else { out_comp };
		let mut old = ts.clone();
		old.comp = old_comp;
		old.tiles = ts
			.tiles
			.iter()
			.map(|(k, v)| {
				let mut raw = comp::decompress(v, src_comp).unwrap_or_default();
				raw.extend_from_slice(b" -- stale tail of an older, longer version -- ");
				raw.extend(std::iter::repeat(b'#').take(300));
				(model::transform(k, flip, swap), comp::compress(&raw, old_comp))
			})
			.collect();
		if other_old {
			let extra = old.tiles.keys().filter(|k| k.0 >= 1).map(|k| (k.0, k.1 ^ 1, k.2)).find(|k| !old.tiles.contains_key(k));
			if let Some(k) = extra {
				old.tiles.insert(k, comp::compress(b"tile of the older version only", old_comp));
			}
		}
		let mut m = MemSource::new(&old);
		if guard::block_on(write_to_filename(&mut m, out.to_str().unwrap())).is_ok() {
			rep.count(&format!("conversions_into_an_existing_target_{target}"), 1);
			if other_old {
				rep.count("conversions_into_an_existing_target_with_one_more_tile", 1);
			}
			if old_comp != out_comp {
				rep.count("conversions_into_an_existing_target_of_another_compression", 1);
			}
		}
	}
	let cp = TilesConverterParameters::new(opt.map(|c| c.to_core()), None, force, flip, swap);
	rep.eval();
	rep.count("conversions", 1);
	rep.label("cells", &format!("{}>{}/{force}/{target}", src_comp.name(), opt.map(|c| c.name()).unwrap_or("keep")));
	let mt = rng.chance(0.5);
	let conv = guard::catch(|| {
		let fut = convert_tiles_container(reader, cp, out.to_str().unwrap());
		if mt {
			guard::block_on_mt(8, fut)
		} else {
			guard::block_on(fut)
		}
	});
	match conv {
		Err(p) => {
			rep.violation(&p.signature("convert"), "conversion panicked", witness(json!({"panic": p.describe()})));
			return;
		}
		Ok(Err(_)) if inexpressible => {
			rep.count("inexpressible_combinations_refused", 1);
			return;
		}
		Ok(Err(e)) => {
			rep.violation("convert-failed", "a valid conversion failed", witness(json!({"error": format!("{e:#}")})));
			return;
		}
		Ok(Ok(())) => {
			if inexpressible {
				rep.count("inexpressible_combinations_written", 1);
			}
		}
	}
	rep.nontrivial(ts.fingerprint() ^ fnv(desc.as_bytes()));

	// expected decoded mapping in output coordinates
	let mut expect: BTreeMap<Key, Vec<u8>> = ts.tiles.iter().map(|(k, v)| (model::transform(k, flip, swap), comp::decompress(v, src_comp).unwrap())).collect();
	// an empty payload stored uncompressed is a zero-length tile, which several formats cannot hold: not demanded
	let mut optional: std::collections::BTreeSet<Key> = Default::default();
	if out_comp == Comp::None {
		optional = expect.iter().filter(|(_, v)| v.is_empty()).map(|(k, _)| *k).collect();
		expect.retain(|_, v| !v.is_empty());
	} else if expect.values().any(|v| v.is_empty()) {
		rep.count("conversions_with_decoded_empty_tile", 1);
	}
	let opened = guard::catch(|| guard::block_on(get_reader(out.to_str().unwrap())));
	let r = match opened {
		Err(p) => {
			rep.violation(&p.signature("open-converted"), "opening the converted container panicked", witness(json!({"panic": p.describe()})));
			return;
		}
		Ok(Err(e)) => {
			rep.violation("open-converted-failed", "the converted container cannot be opened", witness(json!({"error": format!("{e:#}")})));
			return;
		}
		Ok(Ok(r)) => r,
	};
	let declared = Comp::from_core(r.get_parameters().tile_compression);
	if declared != out_comp {
		rep.violation("declared-compression", "output declares another compression than requested (or than the source's when kept)", witness(json!({"declared": declared.name(), "expected": out_comp.name()})));
	}
	if r.get_parameters().tile_format != format {
		rep.violation("declared-format", "output declares another tile format", witness(json!({})));
	}
	// lookups + streams
	let fut = async {
		let mut got: Vec<(Key, Option<Vec<u8>>)> = vec![];
		for k in expect.keys() {
			got.push((*k, r.get_tile_data(&coord_of(k)).await.ok().flatten().map(|b| b.into_vec())));
		}
		let mut streamed: Vec<(Key, Vec<u8>)> = vec![];
		for lb in r.get_parameters().bbox_pyramid.iter_levels() {
			for (c, b) in r.get_bbox_tile_stream(lb.clone()).await.collect().await {
				streamed.push((key_of(&c), b.into_vec()));
			}
		}
		(got, streamed)
	};
	match guard::catch(|| guard::block_on(fut)) {
		Err(p) => rep.violation(&p.signature("read-converted"), "reading the converted container panicked", witness(json!({"panic": p.describe()}))),
		Ok((got, streamed)) => {
			let mut check = |path: &str, k: &Key, data: Option<&Vec<u8>>, rep: &mut Report| match (data, expect.get(k)) {
				(None, Some(_)) => rep.violation(&format!("{path}|tile-missing"), "a source tile is missing from the converted container", witness(json!({"tile": kstr(k)}))),
				(Some(_), None) if optional.contains(k) => {}
				(Some(_), None) => rep.violation(&format!("{path}|tile-extra"), "the converted container holds a tile the source does not have", witness(json!({"tile": kstr(k)}))),
				(Some(d), Some(e)) => match comp::decompress(d, declared) {
					Err(err) => rep.violation(&format!("{path}|not-decodable-with-declared-compression"), "an output tile does not decode with the compression the output declares", witness(json!({"tile": kstr(k), "declared": declared.name(), "error": err, "bytes": short(d)}))),
					Ok(raw) => {
						if &raw != e {
							rep.violation(&format!("{path}|payload-changed"), "decoded output tile differs from the decoded source tile", witness(json!({"tile": kstr(k), "expected": short(e), "got": short(&raw)})));
						}
					}
				},
				(None, None) => {}
			};
			for (k, d) in &got {
				check("lookup", k, d.as_ref(), rep);
			}
			let mut seen = std::collections::BTreeSet::new();
			for (k, d) in &streamed {
				seen.insert(*k);
				check("stream", k, Some(d), rep);
			}
			for k in expect.keys() {
				if !seen.contains(k) {
					rep.violation("stream|tile-missing", "a source tile is missing from the stream of the converted container", witness(json!({"tile": kstr(k)})));
					break;
				}
			}
			rep.count("tiles_compared", (got.len() + streamed.len()) as u64);
		}
	}
	// metadata through the reader
	if target != "mbtiles" {
		// what the source itself reports (a container file used as source may hold less than the generated document)
		let want: serde_json::Value = serde_json::from_str(&src_meta).unwrap_or(json!(null));
		let have: serde_json::Value = serde_json::from_str(&r.get_tilejson().as_string()).unwrap_or(json!(null));
		for key in ["name", "attribution", "vector_layers", "tilejson"] {
			if want[key] != have[key] {
				rep.violation("metadata|changed", "container metadata did not survive the conversion", witness(json!({"key": key, "source": want[key], "output": have[key]})));
			}
		}
	}
	// metadata through the independent decoder: decodable with the codec the format prescribes
	let decoded = match target {
		"versatiles" => std::fs::read(&out).map_err(|e| e.to_string()).and_then(|b| codec::ivt::decode(&b)),
		"pmtiles" => std::fs::read(&out).map_err(|e| e.to_string()).and_then(|b| codec::ipm::decode(&b)),
		"tar" => std::fs::read(&out).map_err(|e| e.to_string()).and_then(|b| codec::itar::decode(&b)),
		"directory" => codec::idir::decode(&out),
		_ => codec::imb::decode(&out).map(|x| x.0),
	};
	match decoded {
		Err(e) => rep.violation(&format!("decoder|{target}|cannot-parse"), "an independent decoder cannot parse the converted container (metadata / declared codec)", witness(json!({"error": e}))),
		Ok(d) => {
			if target != "mbtiles" {
				match d.meta {
					Some(m) if serde_json::from_slice::<serde_json::Value>(&m).is_ok() => {}
					_ => rep.violation(&format!("decoder|{target}|metadata"), "metadata is not decodable with the codec the format prescribes", witness(json!({}))),
				}
			}
			if d.comp != Some(out_comp) {
				rep.violation(&format!("decoder|{target}|declared-compression"), "the file declares another compression than requested", witness(json!({"declared": d.comp.map(|c| c.name())})));
			}
		}
	}
	rep.count("combinations_distinct_cells", 1);
	if rep.wants_sample() {
		rep.sample(json!({"conversion": desc, "tile_format": format!("{format:?}"), "tiles": ts.tiles.len(), "payload_sizes_decoded": expect.values().map(|v| v.len()).collect::<Vec<_>>()}));
	}
	let _ = std::fs::remove_dir_all(&dir);
}

/// `versatiles convert --override-input-compression <C> [-c X] [-f]` on a directory whose tiles are stored
/// compressed under names without a compression suffix (the option's documented use), read back by the
/// independent decoders
fn cli_override(cx: &CaseCtx, rep: &mut Report, rng: &mut Rng, combo: u64) {
	let Some(bin) = crate::server::binary() else {
		rep.inconclusive("versatiles binary not built");
		return;
	};
	let src_comp = if (combo / 24) % 2 == 0 { Comp::Gzip } else { Comp::Brotli };
	let opt = *rng.pick(&OPTS);
	let force = rng.bool();
	let target = *rng.pick(&["versatiles", "tar"]);
	let out_comp = opt.unwrap_or(src_comp);
	let ts = payload_set(rng, TileFormat::PBF, src_comp);
	let dir = cx.fresh_dir("c04cli");
	let src = dir.join("tiles_dir");
	let mut named = ts.clone();
	named.comp = Comp::None;
	if let Err(e) = codec::idir::encode(&named, &src, &codec::idir::EncOpts { meta_name: "tiles.json", no_meta: false, stray_files: false, alt_spellings: false, symlinks: false }) {
		rep.inconclusive(&format!("fixture write failed: {e}"));
		return;
	}
	let out = container_path(&dir, target);
	let mut cmd = std::process::Command::new(bin);
	cmd.arg("convert").arg("--override-input-compression").arg(if src_comp == Comp::Gzip { "gzip" } else { "brotli" });
	if let Some(c) = opt {
		cmd.arg("-c").arg(match c {
			Comp::None => "uncompressed",
			Comp::Gzip => "gzip",
			Comp::Brotli => "brotli",
		});
	}
	if force {
		cmd.arg("-f");
	}
	cmd.arg(&src).arg(&out).current_dir(&dir).stdout(std::process::Stdio::null()).stderr(std::process::Stdio::piped());
	let desc = format!("cli: override={} -c {} force={force} -> {target}", src_comp.name(), opt.map(|c| c.name()).unwrap_or("(keep)"));
	cx.progress(&desc);
	let witness = |extra: serde_json::Value| json!({"conversion": desc, "tileset": ts.describe(), "detail": extra});
	rep.eval();
	rep.count("cli_conversions_with_override_input_compression", 1);
	let o = match cmd.output() {
		Ok(o) => o,
		Err(e) => {
			rep.inconclusive(&format!("cannot run the binary: {e}"));
			return;
		}
	};
	if !o.status.success() {
		rep.violation("cli-override|convert-failed", "a valid conversion failed", witness(json!({"stderr": String::from_utf8_lossy(&o.stderr).chars().take(400).collect::<String>()})));
		return;
	}
	let decoded = if target == "versatiles" { std::fs::read(&out).map_err(|e| e.to_string()).and_then(|b| codec::ivt::decode(&b)) } else { std::fs::read(&out).map_err(|e| e.to_string()).and_then(|b| codec::itar::decode(&b)) };
	let d = match decoded {
		Err(e) => {
			rep.violation(&format!("cli-override|decoder|{target}|cannot-parse"), "an independent decoder cannot parse the converted container", witness(json!({"error": e})));
			return;
		}
		Ok(d) => d,
	};
	if d.comp != Some(out_comp) {
		rep.violation("cli-override|declared-compression", "the file declares another compression than requested (or than the overridden source's when kept)", witness(json!({"declared": d.comp.map(|c| c.name()), "expected": out_comp.name()})));
		return;
	}
	for (k, v) in &ts.tiles {
		let want = comp::decompress(v, src_comp).unwrap();
		if want.is_empty() && out_comp == Comp::None {
			continue;
		}
		match d.tiles.get(k) {
			None => {
				rep.violation("cli-override|tile-missing", "a source tile is missing from the converted container", witness(json!({"tile": kstr(k)})));
				break;
			}
			Some(b) => match comp::decompress(b, out_comp) {
				Err(e) => {
					rep.violation("cli-override|not-decodable-with-declared-compression", "an output tile does not decode with the compression the output declares", witness(json!({"tile": kstr(k), "error": e, "bytes": short(b)})));
					break;
				}
				Ok(raw) => {
					if raw != want {
						rep.violation("cli-override|payload-changed", "decoded output tile differs from the decoded source tile", witness(json!({"tile": kstr(k), "expected": short(&want), "got": short(&raw)})));
						break;
					}
				}
			},
		}
	}
	let _ = std::fs::remove_dir_all(&dir);
}

/// compress / decompress / recompress of versatiles_core::utils against the harness's codecs
fn algebra(rep: &mut Report, rng: &mut Rng, big_too: bool) {
	// a payload beyond 2^26 bytes (one tile of a coarse raster, a big GeoJSON): decoding gives all of it
	if big_too {
		// ... and the other way round: a payload just beyond 2^24 bytes through the project's encoders
		let n2 = (16usize << 20) + 4096;
		let mid: Vec<u8> = (0..n2).map(|i| ((i * 7) ^ (i >> 9)) as u8).collect();
		for c in [Comp::Gzip, Comp::Brotli] {
			rep.eval();
			rep.count("payloads_beyond_16MiB_encoded", 1);
			let r = guard::catch(|| vu::compress(Blob::from(mid.clone()), &c.to_core()).map_err(|e| format!("{e:#}")).and_then(|b| comp::decompress(b.as_slice(), c)));
			match r {
				Ok(Ok(back)) if back == mid => {}
				Ok(Ok(back)) => rep.violation(&format!("algebra|big-payload-encoded|{}", c.name()), "a payload beyond 16 MiB encoded by the project does not decode to itself with an independent decoder", json!({"compression": c.name(), "payload_len": n2, "decoded_len": back.len()})),
				Ok(Err(e)) => rep.violation(&format!("algebra|big-payload-encoded|{}", c.name()), "a payload beyond 16 MiB encoded by the project does not decode with an independent decoder", json!({"compression": c.name(), "payload_len": n2, "error": e})),
				Err(p) => rep.violation(&p.signature("compress"), "encoding panicked", json!({"panic": p.describe()})),
			}
		}
		let n = (64usize << 20) + 4321;
		let mut big: Vec<u8> = b"sixty-four MiB and a bit ".iter().cycle().take(n).cloned().collect();
		big[n - 9..].copy_from_slice(b"THE END.\n");
		for c in [Comp::Gzip, Comp::Brotli] {
			let packed = Blob::from(comp::compress(&big, c));
			rep.eval();
			rep.count("payloads_beyond_64MiB_decoded", 1);
			let got = guard::catch(|| vu::decompress(packed.clone(), &c.to_core()));
			match got {
				Ok(Ok(b)) if b.as_slice() == big.as_slice() => {}
				Ok(Ok(b)) => rep.violation(&format!("algebra|big-payload|{}", c.name()), "decoding a payload beyond 64 MiB does not give the payload", json!({"compression": c.name(), "payload_len": n, "decoded_len": b.len()})),
				Ok(Err(e)) => rep.violation(&format!("algebra|big-payload-rejected|{}", c.name()), "a valid stream of a payload beyond 64 MiB is rejected", json!({"compression": c.name(), "payload_len": n, "error": format!("{e:#}")})),
				Err(p) => rep.violation(&p.signature("decompress"), "decoding panicked", json!({"panic": p.describe()})),
			}
		}
	}
	let blobs: Vec<Vec<u8>> = vec![vec![], vec![7], rng.bytes(10), rng.bytes(70_000), b"abc".iter().cycle().take(200_000).cloned().collect(), vec![0u8; 65_536], vec![0u8; 65_537]];
	for raw in &blobs {
		for a in comp::ALL {
			rep.eval();
			rep.count("algebra_checks", 1);
			let r = guard::catch(|| {
				let c = vu::compress(Blob::from(raw.clone()), &a.to_core()).map_err(|e| e.to_string())?;
				// their output must decode with an independent decoder
				let back = comp::decompress(c.as_slice(), a)?;
				if &back != raw {
					return Err("compress output does not decode to the input".to_string());
				}
				// they must decode independently produced data
				let theirs = vu::decompress(Blob::from(comp::compress(raw, a)), &a.to_core()).map_err(|e| e.to_string())?;
				if theirs.as_slice() != raw.as_slice() {
					return Err("decompress of independently compressed data differs".to_string());
				}
				for b in comp::ALL {
					let rc = vu::recompress(Blob::from(comp::compress(raw, a)), &a.to_core(), &b.to_core()).map_err(|e| e.to_string())?;
					if comp::decompress(rc.as_slice(), b)? != *raw {
						return Err(format!("recompress {}->{} changes the payload", a.name(), b.name()));
					}
				}
				Ok(())
			});
			match r {
				Err(p) => rep.violation(&p.signature("compression-utils"), "compression utility panicked", json!({"len": raw.len(), "panic": p.describe()})),
				Ok(Err(e)) => rep.violation("algebra|roundtrip", "compress / decompress / recompress do not preserve the payload", json!({"len": raw.len(), "compression": a.name(), "error": e})),
				Ok(Ok(())) => {}
			}
		}
	}
	// a tile that fails to decode (a damaged one among good ones) leaves nothing behind: the next tile decoded on the
	// same thread comes out exactly as it would have otherwise
	for a in [Comp::Gzip, Comp::Brotli] {
		for b in [Comp::Gzip, Comp::Brotli] {
			rep.eval();
			rep.count("algebra_checks_after_a_failed_decode", 1);
			let bad_src: Vec<u8> = b"this payload is going to be cut in the middle of its compressed stream ".iter().cycle().take(40_000).cloned().collect();
			let good: Vec<u8> = rng.bytes(3000);
			let r = guard::catch(|| {
				let mut damaged = comp::compress(&bad_src, a);
				let cut = damaged.len() * 2 / 3;
				damaged.truncate(cut);
				let last = damaged.len() - 1;
				damaged[last] ^= 0x5A;
				let first = vu::decompress(Blob::from(damaged), &a.to_core());
				let second = vu::decompress(Blob::from(comp::compress(&good, b)), &b.to_core()).map_err(|e| e.to_string())?;
				Ok::<(bool, Vec<u8>), String>((first.is_ok(), second.into_vec()))
			});
			match r {
				Err(p) => rep.violation(&p.signature("compression-utils"), "compression utility panicked", json!({"panic": p.describe()})),
				Ok(Err(e)) => rep.violation("algebra|valid-after-damaged|failed", "a valid stream does not decode after a damaged one", json!({"damaged": a.name(), "valid": b.name(), "error": e})),
				Ok(Ok((_, second))) => {
					if second != good {
						rep.violation("algebra|valid-after-damaged|payload", "a valid stream decoded after a damaged one does not give its own payload", json!({"damaged": a.name(), "valid": b.name(), "expected_len": good.len(), "got_len": second.len()}));
					}
				}
			}
		}
	}
}
