//! C16 — readers accept every container that is valid by the published format layouts.
//!
//! Independent encoders (harness/src/codec) with the encoder freedoms switched on -> the repo's
//! readers must open the file and return exactly the encoded tiles, coverage and declaration.

use crate::check::{self, ReaderCheckOpts};
use crate::codec::{idir, imb, ipm, itar, ivt};
use crate::gen::{self, GenOpts};
use crate::guard;
use crate::mon::c01::{container_path, pairs_for, TARGETS};
use crate::report::{Plan, Report, Tier};
use crate::shard::{CaseCtx, MonitorDef};
use serde_json::json;
use versatiles_container::*;

pub fn def() -> MonitorDef {
	MonitorDef { id: "C16", plan, run_case, finalize }
}

fn plan(tier: Tier, _seed: u64) -> Plan {
	Plan {
		cases: tier.pick(200, 2500),
		shards: 14,
		case_timeout_s: 600,
		level: "exploration",
		rule: "one case = (generated tile set, container format, random choice of the layout freedoms the specification leaves to the encoder): versatiles: sparse block index, partial blocks, blocks / tiles in any order, shared tile ranges, gaps, no metadata; PMTiles: run lengths > 1, shared offsets, 0..2 leaf levels, unclustered data, internal compression none/gzip/brotli; MBTiles: zoom gaps, high zooms, extra metadata rows, no index; tar: './' prefix or none, directory members, any order, three metadata names; directory: likewise plus stray files. Non-trivial: >= 3 tiles and at least one freedom in use that the repo's own writers never emit; distinct by (tile set, format, options)".into(),
		assumptions: vec![
			"the independent encoders emit files that are valid by the published layouts (they are cross-checked by the independent decoders on every case)".into(),
			"PMTiles: zstd is excluded (the reader documents it as unsupported); at most two leaf-directory levels".into(),
		],
		min_evaluations: 150,
		exhaustive: false,
		timeouts_excluded: false,
	}
}

fn finalize(_t: Tier, _p: &Plan, rep: &mut Report) {
	for k in ["cases_versatiles", "cases_pmtiles", "cases_mbtiles", "cases_tar", "cases_directory", "pmtiles_runs_gt1", "pmtiles_two_leaf_levels", "versatiles_partial_blocks", "mbtiles_zoom_gaps", "level_boxes_compared_exactly"] {
		if rep.counter(k) == 0 {
			rep.inconclusive(&format!("nothing observed for {k}"));
		}
	}
}

fn run_case(cx: &CaseCtx, rep: &mut Report) {
	let mut rng = cx.rng();
	let target = TARGETS[(cx.case % 5) as usize];
	let opts = GenOpts { max_tiles: cx.tier.pick(900, 3000), formats: pairs_for(target), allow_big: false, ..Default::default() };
	let mut ts = gen::gen_tileset(&mut rng, &opts);
	if target == "pmtiles" && rng.chance(0.35) {
		// a level that holds nothing but Hilbert-aligned squares of identical content: each square is
		// one run whose middle tiles lie outside the bounding box of its first and last tile
		let z = *rng.pick(&[4u8, 6, 11, 13]);
		ts.tiles.retain(|k, _| k.0 != z);
		let side = *rng.pick(&[2u32, 4, 8]);
		let n = (1u32 << z) / side;
		let (bx, by) = (rng.below(n as u64) as u32 * side, rng.below(n as u64) as u32 * side);
		for dx in 0..side {
			for dy in 0..side {
				ts.tiles.insert((z, bx + dx, by + dy), b"one run".to_vec());
			}
		}
		ts.shape.push_str(&format!(" +z{z}:aligned-run-{side}x{side}"));
	} else if target == "pmtiles" && rng.chance(0.5) {
		// long runs of identical content in Hilbert order: fill a small square on one level with one payload
		let z = 6u8;
		let (x0, y0) = (rng.below(50) as u32, rng.below(50) as u32);
		for dx in 0..rng.range(2, 6) as u32 {
			for dy in 0..rng.range(2, 6) as u32 {
				ts.tiles.insert((z, x0 + dx, y0 + dy), b"ocean".to_vec());
			}
		}
		ts.shape.push_str(" +z6:run-square");
	}
	if target == "pmtiles" && rng.chance(0.3) {
		// the last tile ids of deep levels: the corner (2^z - 1, 0) and its neighbours end the Hilbert curve of a level
		for _ in 0..2 {
			let z = rng.range(25, 31) as u8;
			if ts.levels().contains(&z) {
				continue;
			}
			let m = ((1u64 << z) - 1) as u32;
			for (x, y) in [(m, 0u32), (m - 1, 0), (m, 1), (m - 1, 1)] {
				ts.tiles.insert((z, x, y), format!("end of level {z}: {x}/{y}").into_bytes());
			}
			ts.shape.push_str(&format!(" +z{z}:last-ids"));
		}
	}
	cx.progress(&format!("{target} {}", ts.shape));
	let dir = cx.fresh_dir("c16");
	// where the container lives is not part of the container: a folder name with blanks-as-%20 and a hash sign,
	// the file name a symbolic link into a content-addressed store (target without the extension)
	let odd_folder = rng.chance(0.3);
	let linked = target != "directory" && rng.chance(0.25);
	let home = if odd_folder { dir.join("my%20maps #1 (50%)") } else { dir.clone() };
	let _ = std::fs::create_dir_all(&home);
	let path = container_path(&home, target);
	rep.eval();
	rep.count(&format!("cases_{target}"), 1);

	// ---- encode with the independent encoder
	let mut freedoms: Vec<String> = vec![];
	let enc: Result<(), String> = (|| {
		match target {
			"versatiles" => {
				let o = ivt::EncOpts::random(&mut rng);
				let bytes = ivt::encode(&ts, &o, &mut rng);
				let (d, info) = ivt::decode_info(&bytes)?;
				if d.tiles != ts.tiles {
					return Err("harness error: independent versatiles codec does not round trip".into());
				}
				if o.partial_blocks {
					rep.count("versatiles_partial_blocks", 1);
					freedoms.push("partial_blocks".into());
				}
				if info.shared_ranges > 0 {
					freedoms.push("shared_ranges".into());
				}
				if o.shuffle_blocks || o.shuffle_tiles {
					freedoms.push("shuffled".into());
				}
				if o.no_meta {
					freedoms.push("no_meta".into());
				}
				if o.gaps {
					freedoms.push("gaps".into());
				}
				let lb = ts.bounds();
				let full: u64 = lb.values().map(|b| ((b.2 / 256 - b.0 / 256 + 1) as u64) * ((b.3 / 256 - b.1 / 256 + 1) as u64)).sum();
				if (info.blocks as u64) < full {
					rep.count("versatiles_sparse_block_index", 1);
					freedoms.push("sparse_block_index".into());
				}
				std::fs::write(&path, bytes).map_err(|e| e.to_string())
			}
			"pmtiles" => {
				let mut o = ipm::EncOpts::random(&mut rng, ts.tiles.len());
				let mut bytes = ipm::encode(&ts, &o, &mut rng);
				let mut guard_n = 0;
				while ipm::root_end(&bytes) > 16384 && guard_n < 12 {
					if o.leaf_levels == 0 {
						o.leaf_levels = 1;
					}
					o.leaf_size = o.leaf_size * 2 + 8;
					bytes = ipm::encode(&ts, &o, &mut rng);
					guard_n += 1;
				}
				let (d, info) = ipm::decode_info(&bytes)?;
				if d.tiles != ts.tiles {
					return Err("harness error: independent PMTiles codec does not round trip".into());
				}
				if info.runs_gt1 > 0 {
					rep.count("pmtiles_runs_gt1", 1);
					freedoms.push("runs".into());
				}
				if info.max_depth == 2 {
					rep.count("pmtiles_two_leaf_levels", 1);
					freedoms.push("two_leaf_levels".into());
				} else if info.max_depth == 1 {
					rep.count("pmtiles_one_leaf_level", 1);
				}
				if o.dedup {
					freedoms.push("shared_offsets".into());
				}
				if o.unclustered {
					freedoms.push("unclustered".into());
				}
				if o.internal != crate::comp::Comp::Gzip {
					freedoms.push(format!("internal_{}", o.internal.name()));
				}
				std::fs::write(&path, bytes).map_err(|e| e.to_string())
			}
			"tar" => {
				let o = itar::EncOpts::random(&mut rng);
				let bytes = itar::encode(&ts, &o, &mut rng);
				if itar::decode(&bytes)?.tiles != ts.tiles {
					return Err("harness error: independent tar codec does not round trip".into());
				}
				if !o.dot_prefix {
					freedoms.push("no_dot_prefix".into());
				}
				if o.dir_members {
					freedoms.push("dir_members".into());
				}
				if o.shuffle || o.meta_last {
					freedoms.push("order".into());
				}
				if o.meta_name != "tiles.json" {
					freedoms.push(o.meta_name.into());
				}
				std::fs::write(&path, bytes).map_err(|e| e.to_string())
			}
			"directory" => {
				let o = idir::EncOpts::random(&mut rng);
				idir::encode(&ts, &path, &o)?;
				if o.stray_files {
					freedoms.push("stray_files".into());
				}
				if o.meta_name != "tiles.json" || o.no_meta {
					freedoms.push("meta".into());
				}
				Ok(())
			}
			_ => {
				let o = imb::EncOpts::random(&mut rng);
				imb::encode(&ts, &path, &o, &mut rng)?;
				if ts.has_zoom_gap() {
					rep.count("mbtiles_zoom_gaps", 1);
					freedoms.push("zoom_gap".into());
				}
				if o.extra_metadata || !o.with_index || o.shuffle {
					freedoms.push("extra_metadata/no_index/order".into());
				}
				Ok(())
			}
		}
	})();
	if let Err(e) = enc {
		rep.inconclusive(&format!("independent {target} encoder failed: {e}"));
		return;
	}
	if linked {
		let store = home.join("store");
		let blob = store.join("3f9a1c7e");
		#[cfg(unix)]
		if std::fs::create_dir_all(&store).is_ok() && std::fs::rename(&path, &blob).is_ok() {
			if std::os::unix::fs::symlink(&blob, &path).is_ok() {
				freedoms.push("file name is a symlink into a store".into());
			} else {
				let _ = std::fs::rename(&blob, &path);
			}
		}
	}
	if odd_folder {
		freedoms.push("folder name with %20, # and %".into());
	}
	if ts.tiles.len() >= 3 && !freedoms.is_empty() {
		rep.nontrivial(ts.fingerprint() ^ crate::rng::fnv(format!("{target}{freedoms:?}").as_bytes()));
	}
	let witness = |extra: serde_json::Value| json!({"format": target, "tileset": ts.describe(), "encoder_freedoms": freedoms, "detail": extra});

	// ---- the repo's reader
	let opened = guard::catch(|| guard::block_on(get_reader(path.to_str().unwrap())));
	match opened {
		Err(p) => rep.violation(&p.signature(&format!("open-{target}")), "opening a valid container panicked", witness(json!({"panic": p.describe()}))),
		Ok(Err(e)) => {
			let sub = if target == "mbtiles" && ts.has_zoom_gap() { "zoom-gap" } else if ts.levels().iter().any(|z| *z >= 30) { "z>=30" } else { "other" };
			rep.violation(&format!("{target}|open-failed|{sub}"), "a container that is valid by the published layout cannot be opened", witness(json!({"error": format!("{e:#}")})));
		}
		Ok(Ok(reader)) => {
			let o = ReaderCheckOpts { exact_coverage: true, check_streams: true, multi_thread: rng.chance(0.3), extra_random: 30 };
			let (findings, st) = check::check_reader(reader.as_ref(), &ts.tiles, &mut rng, &o);
			rep.count("lookups", st.lookups);
			rep.count("streamed_tiles", st.streamed_tiles);
			rep.count("level_boxes_compared_exactly", st.level_boxes_exact);
			for f in findings.iter().chain(check::declared_params(reader.as_ref(), ts.format, ts.comp).iter()) {
				let sig = if f.kind.ends_with("panic") { f.detail["sig"].as_str().unwrap_or(&f.kind).to_string() } else { format!("{target}|{}", f.kind) };
				rep.violation(&sig, "the reader does not return exactly what the independent encoder stored", witness(f.detail.clone()));
			}
		}
	}
	if rep.wants_sample() && !freedoms.is_empty() && ts.tiles.len() >= 3 {
		rep.sample(json!({"format": target, "tileset": ts.describe(), "encoder_freedoms": freedoms}));
	}
	let _ = std::fs::remove_dir_all(&dir);
}
