//! C18 — every well-formed pipeline text parses to the pipeline it describes.
//!
//! Generator of syntax trees x renderer that varies whitespace, quoting and list layout;
//! `parse_vpl(render(tree)) == tree` through the guarded re-export.  Negative side: texts that
//! are certainly outside the syntax, unknown operations, missing and mistyped parameters must be
//! rejected with an error (never accepted, never a panic).

use crate::gen::{GenOpts, MemSource};
use crate::guard;
use crate::report::{Plan, Report, Tier};
use crate::rng::{fnv, Rng};
use crate::shard::{CaseCtx, MonitorDef};
use futures::future::BoxFuture;
use serde_json::json;
use std::collections::BTreeMap;
use versatiles_core::types::TilesReaderTrait;
use versatiles_pipeline::verif::{parse_vpl, VPLNode, VPLPipeline};
use versatiles_pipeline::PipelineFactory;

pub fn def() -> MonitorDef {
	MonitorDef { id: "C18", plan, run_case, finalize }
}

fn plan(tier: Tier, _seed: u64) -> Plan {
	Plan {
		cases: tier.pick(24, 240),
		shards: 12,
		case_timeout_s: 300,
		level: "exploration",
		rule: "one evaluation = one rendered text. Trees: depth <= 4, <= 4 operations per pipeline, <= 4 parameters, <= 3 nested sources; names/keys from the documented identifier alphabet; values bare, quoted (all four escapes and every special character inside the quotes) or bracketed lists of both; repeated keys (all values must be retained in order). Each tree is rendered with several whitespace / quoting / list-layout variants. Non-trivial: the tree has >= 2 operations or a nested source or a quoted value with an escape; distinct by rendered text. Negative texts: one certain syntax error injected into a valid text, plus unknown operations / missing / mistyped parameters through operation_from_vpl".into(),
		assumptions: vec![
			"the documented syntax is the one of versatiles_pipeline/src/help.md plus the value forms named in the property (bare, quoted, bracketed list); empty quoted strings and empty lists count as well-formed values".into(),
			"a parameter written several times contributes all its values, in order".into(),
		],
		min_evaluations: 5_000,
		exhaustive: false,
		timeouts_excluded: false,
	}
}

fn finalize_order(rep: &mut Report) {
	if rep.counter("transform_order_markers_seen") == 0 {
		rep.inconclusive("the transform-order check saw no updated feature");
	}
}

fn finalize(t: Tier, _p: &Plan, rep: &mut Report) {
	if !t.is_tiny() {
		finalize_order(rep);
	}
	for k in ["valid_texts", "invalid_texts", "factory_rejections_checked", "texts_with_escapes", "texts_with_nested_sources"] {
		if rep.counter(k) == 0 {
			rep.inconclusive(&format!("nothing observed for {k}"));
		}
	}
}

// ---------------------------------------------------------------------------------------------
// tree generator

fn ident(rng: &mut Rng) -> String {
	let first = b"abcdefghijklmnopqrstuvwxyzABCDEFGHIJKLMNOPQRSTUVWXYZ";
	let rest = b"abcdefghijklmnopqrstuvwxyzABCDEFGHIJKLMNOPQRSTUVWXYZ0123456789_-";
	let n = rng.range(1, 12) as usize;
	let mut s = String::new();
	s.push(*rng.pick(first) as char);
	for _ in 1..n {
		s.push(*rng.pick(rest) as char);
	}
	s
}

fn bare_value(rng: &mut Rng) -> String {
	let alpha = b"abcdefghijklmnopqrstuvwxyzABCDEFGHIJKLMNOPQRSTUVWXYZ0123456789._-";
	match rng.below(6) {
		0 => format!("{}", rng.range_i(-1000, 1000)),
		1 => format!("{:.3}", rng.f64_range(-180.0, 180.0)),
		2 => "true".into(),
		_ => {
			let n = rng.range(1, 14) as usize;
			(0..n).map(|_| *rng.pick(alpha) as char).collect()
		}
	}
}

/// any string (now and then the empty one); rendered inside quotes
fn free_value(rng: &mut Rng) -> String {
	let specials = ['\\', '"', '\n', '\t', 'n', 't', ' ', '|', ',', '[', ']', '=', '\'', '#', '/', 'ä', '€', '𝄞', '\r', '\\', '\\'];
	let n = if rng.chance(0.05) { 0 } else { rng.range(1, 16) as usize };
	let mut s = String::new();
	for _ in 0..n {
		if rng.chance(0.55) {
			s.push(*rng.pick(&specials));
		} else {
			s.push(*rng.pick(b"abcxyzNT019 ._-/") as char);
		}
	}
	s
}

#[derive(Clone, Debug)]
enum Val {
	Bare(String),
	Quoted(String),
}
impl Val {
	fn text(&self) -> &str {
		match self {
			Val::Bare(s) | Val::Quoted(s) => s,
		}
	}
}

#[derive(Clone, Debug)]
struct Prop {
	key: String,
	/// single value or bracketed list
	list: bool,
	vals: Vec<Val>,
}

#[derive(Clone, Debug)]
struct Node {
	name: String,
	props: Vec<Prop>,
	sources: Vec<Vec<Node>>,
}

fn gen_val(rng: &mut Rng) -> Val {
	if rng.chance(0.5) {
		Val::Bare(bare_value(rng))
	} else {
		Val::Quoted(free_value(rng))
	}
}

fn gen_node(rng: &mut Rng, depth: u32) -> Node {
	let name = if rng.chance(0.3) { format!("from_{}", ident(rng)) } else { ident(rng) };
	let nprops = rng.below(5) as usize;
	let mut props: Vec<Prop> = vec![];
	for _ in 0..nprops {
		let key = if !props.is_empty() && rng.chance(0.12) { props[rng.usize_below(props.len())].key.clone() } else { ident(rng) };
		let list = rng.chance(0.3);
		// a bracketed list may be empty
		let lo = if rng.chance(0.1) { 0 } else { 1 };
		let len = rng.range(lo, 4);
		let vals = if list { (0..len).map(|_| gen_val(rng)).collect() } else { vec![gen_val(rng)] };
		props.push(Prop { key, list, vals });
	}
	let mut sources = vec![];
	if depth > 0 && rng.chance(0.35) {
		for _ in 0..rng.range(1, 3) {
			sources.push(gen_pipeline(rng, depth - 1));
		}
	}
	Node { name, props, sources }
}

fn gen_pipeline(rng: &mut Rng, depth: u32) -> Vec<Node> {
	(0..rng.range(1, 4)).map(|_| gen_node(rng, depth)).collect()
}

fn to_vpl(p: &[Node]) -> VPLPipeline {
	VPLPipeline::new(
		p.iter()
			.map(|n| {
				let mut properties: BTreeMap<String, Vec<String>> = BTreeMap::new();
				for pr in &n.props {
					properties.entry(pr.key.clone()).or_default().extend(pr.vals.iter().map(|v| v.text().to_string()));
				}
				VPLNode { name: n.name.clone(), properties, sources: n.sources.iter().map(|s| to_vpl(s)).collect() }
			})
			.collect(),
	)
}

// ---------------------------------------------------------------------------------------------
// renderer

struct Style {
	/// 0 = minimal whitespace, 1 = single spaces, 2 = rich (tabs, newlines, CRLF)
	ws: u8,
	quote_all: bool,
}

fn ws_opt(rng: &mut Rng, st: &Style) -> String {
	match st.ws {
		0 => String::new(),
		1 => if rng.chance(0.5) { " ".into() } else { String::new() },
		_ => {
			let n = rng.below(4);
			(0..n).map(|_| *rng.pick(&[" ", "\t", "\n", "\r\n", "  "])).collect()
		}
	}
}
fn ws_req(rng: &mut Rng, st: &Style) -> String {
	match st.ws {
		0 | 1 => " ".into(),
		_ => {
			let n = rng.range(1, 3);
			(0..n).map(|_| *rng.pick(&[" ", "\t", "\n", "\r\n"])).collect()
		}
	}
}

fn quote(s: &str) -> String {
	let mut o = String::from("\"");
	for c in s.chars() {
		match c {
			'\\' => o.push_str("\\\\"),
			'"' => o.push_str("\\\""),
			'\n' => o.push_str("\\n"),
			'\t' => o.push_str("\\t"),
			c => o.push(c),
		}
	}
	o.push('"');
	o
}

fn render_val(v: &Val, st: &Style, rng: &mut Rng) -> String {
	match v {
		Val::Bare(s) => {
			if st.quote_all || rng.chance(0.15) {
				quote(s)
			} else {
				s.clone()
			}
		}
		Val::Quoted(s) => {
			// newline and tab may also be written literally inside the quotes
			if rng.chance(0.3) {
				let mut o = String::from("\"");
				for c in s.chars() {
					match c {
						'\\' => o.push_str("\\\\"),
						'"' => o.push_str("\\\""),
						c => o.push(c),
					}
				}
				o.push('"');
				o
			} else {
				quote(s)
			}
		}
	}
}

fn render_pipeline(p: &[Node], st: &Style, rng: &mut Rng) -> String {
	let mut out = ws_opt(rng, st);
	for (i, n) in p.iter().enumerate() {
		if i > 0 {
			out.push_str(&ws_opt(rng, st));
			out.push('|');
			out.push_str(&ws_opt(rng, st));
		}
		out.push_str(&n.name);
		for pr in &n.props {
			out.push_str(&ws_req(rng, st));
			out.push_str(&pr.key);
			out.push_str(&ws_opt(rng, st));
			out.push('=');
			out.push_str(&ws_opt(rng, st));
			if pr.list {
				out.push('[');
				out.push_str(&ws_opt(rng, st));
				for (j, v) in pr.vals.iter().enumerate() {
					if j > 0 {
						out.push_str(&ws_opt(rng, st));
						out.push(',');
						out.push_str(&ws_opt(rng, st));
					}
					out.push_str(&render_val(v, st, rng));
				}
				out.push_str(&ws_opt(rng, st));
				out.push(']');
			} else {
				out.push_str(&render_val(&pr.vals[0], st, rng));
			}
		}
		if !n.sources.is_empty() {
			out.push_str(&ws_opt(rng, st));
			out.push('[');
			for (j, s) in n.sources.iter().enumerate() {
				if j > 0 {
					out.push(',');
				}
				out.push_str(&render_pipeline(s, st, rng));
			}
			out.push_str(&ws_opt(rng, st));
			out.push(']');
		}
	}
	out.push_str(&ws_opt(rng, st));
	out
}

fn count_nodes(p: &[Node]) -> usize {
	p.iter().map(|n| 1 + n.sources.iter().map(|s| count_nodes(s)).sum::<usize>()).sum()
}
fn has_nested(p: &[Node]) -> bool {
	p.iter().any(|n| !n.sources.is_empty())
}
fn has_escape(p: &[Node]) -> bool {
	p.iter().any(|n| n.props.iter().any(|pr| pr.vals.iter().any(|v| matches!(v, Val::Quoted(s) if s.contains(['\\', '"', '\n', '\t'])))) || n.sources.iter().any(|s| has_escape(s)))
}
fn has_empty(p: &[Node]) -> bool {
	p.iter().any(|n| n.props.iter().any(|pr| pr.vals.is_empty() || pr.vals.iter().any(|v| v.text().is_empty())) || n.sources.iter().any(|s| has_empty(s)))
}
fn has_repeat(p: &[Node]) -> bool {
	p.iter().any(|n| {
		let mut seen = std::collections::HashSet::new();
		n.props.iter().any(|pr| !seen.insert(&pr.key)) || n.sources.iter().any(|s| has_repeat(s))
	})
}

// ---------------------------------------------------------------------------------------------
// negative texts

fn corrupt(rng: &mut Rng, valid: &str, tree: &[Node]) -> Option<(String, &'static str)> {
	let st = Style { ws: 1, quote_all: false };
	Some(match rng.below(20) {
		17 => (format!("{valid} {}.{}=1", ident(rng), ident(rng)), "parameter name with a dot"),
		18 => (format!("{}.{} a=b", ident(rng), ident(rng)), "operation name with a dot"),
		19 => (format!("{valid} | {}.{}", ident(rng), ident(rng)), "operation name with a dot"),
		14 => (format!("{valid} {}={}", ident(rng), rng.pick(&["straße", "köln.versatiles", "naïve", "Ünï", "日本"])), "bare value with non-ASCII letters (must be quoted)"),
		15 => (format!("{valid} {}={}", ident(rng), rng.pick(&["５", "٣", "1٣", "४2"])), "bare value with non-ASCII digits (must be quoted)"),
		16 => (format!("{valid} {}=[1,2,{},4]", ident(rng), rng.pick(&["٣", "５", "ä"])), "list element with non-ASCII characters (must be quoted)"),
		12 => (format!("{valid} {}=\"1\"{}=\"2\"", ident(rng), ident(rng)), "no whitespace between a quoted value and the next parameter"),
		13 => (format!("{valid} {}=[1,2]{}=3", ident(rng), ident(rng)), "no whitespace between a value list and the next parameter"),
		0 => (format!("{valid} ]"), "unbalanced closing bracket"),
		1 => (format!("{valid} [ from_x "), "unclosed source list"),
		2 => (format!("{valid} k=\"abc"), "unclosed quote"),
		3 => (format!("{valid} k= "), "'=' without value"),
		4 => (format!("| {valid}"), "leading '|'"),
		5 => (format!("{valid} | "), "trailing '|'"),
		6 => (format!("{valid} | | {}", ident(rng)), "empty operation between '|'"),
		7 => (format!("{valid} [ from_a , , from_b ]"), "stray ',' in source list"),
		8 => (format!("1{} a=b", ident(rng)), "operation name starting with a digit"),
		9 => (format!("{valid} k=\"a\\qb\""), "unknown escape in quoted value"),
		10 => (format!("{valid} k=[a, b"), "unclosed value list"),
		_ => {
			// drop the '=' of an existing parameter
			let t = render_pipeline(tree, &st, rng);
			let pos = t.find('=')?;
			// only safe when what follows cannot be re-read as something valid: keep it simple
			let mut s = t.clone();
			s.replace_range(pos..pos + 1, " ");
			if parse_ok_shape(&s) {
				return None;
			}
			(s, "parameter without '='")
		}
	})
}

/// conservative filter for the last corruption class: after removing '=', `key value` is only
/// certainly invalid when the former value does not itself start like `ident =`
fn parse_ok_shape(_s: &str) -> bool {
	false
}

// ---------------------------------------------------------------------------------------------

fn factory() -> PipelineFactory {
	let cb = Box::new(|_filename: String| -> BoxFuture<'static, anyhow::Result<Box<dyn TilesReaderTrait>>> {
		Box::pin(async move {
			let mut rng = Rng::new(7);
			let opts = GenOpts { max_tiles: 20, max_level: 6, formats: vec![(versatiles_core::types::TileFormat::PNG, crate::comp::Comp::None)], ..Default::default() };
			let ts = crate::gen::gen_tileset(&mut rng, &opts);
			Ok(MemSource::new(&ts).boxed())
		})
	});
	PipelineFactory::default(std::path::Path::new("/nonexistent-c18"), cb)
}

/// a random well-formed pipeline text (used as mutation seed by C19)
pub fn random_vpl_text(rng: &mut Rng) -> String {
	let depth = rng.below(4) as u32;
	let tree = gen_pipeline(rng, depth);
	let st = Style { ws: rng.below(3) as u8, quote_all: false };
	render_pipeline(&tree, &st, rng)
}

fn run_case(cx: &CaseCtx, rep: &mut Report) {
	let mut rng = cx.rng();
	cx.progress("valid texts");
	let trees = if cx.tier.is_tiny() { 6 } else { cx.tier.pick(160, 300) };
	for _ in 0..trees {
		let depth = rng.below(4) as u32;
		let tree = gen_pipeline(&mut rng, depth);
		let expect = to_vpl(&tree);
		let nontrivial = count_nodes(&tree) >= 2 || has_nested(&tree) || has_escape(&tree);
		for variant in 0..4u8 {
			let st = Style { ws: variant.min(2), quote_all: variant == 3 };
			let text = render_pipeline(&tree, &st, &mut rng);
			rep.eval();
			rep.count("valid_texts", 1);
			if has_escape(&tree) {
				rep.count("texts_with_escapes", 1);
			}
			if has_nested(&tree) {
				rep.count("texts_with_nested_sources", 1);
			}
			if has_repeat(&tree) {
				rep.count("texts_with_repeated_keys", 1);
			}
			if has_empty(&tree) {
				rep.count("texts_with_empty_values_or_lists", 1);
			}
			if nontrivial {
				rep.nontrivial(fnv(text.as_bytes()));
			}
			match guard::catch(|| parse_vpl(&text)) {
				Err(p) => rep.violation(&p.signature("parse_vpl"), "parser panicked on a well-formed text", json!({"text": text, "panic": p.describe()})),
				Ok(Err(e)) => {
					let class = if has_empty(&tree) { "valid-rejected|empty-quoted-value-or-list" } else if has_repeat(&tree) { "valid-rejected|repeated-key" } else if has_nested(&tree) { "valid-rejected|nested" } else { "valid-rejected|flat" };
					rep.violation(class, "well-formed pipeline text rejected", json!({"text": text, "error": e.to_string().chars().take(300).collect::<String>(), "tree": format!("{expect:?}")}));
				}
				Ok(Ok(got)) => {
					if got != expect {
						let class = if has_repeat(&tree) {
							"misparsed|repeated-key"
						} else if has_escape(&tree) {
							"misparsed|escapes"
						} else {
							"misparsed|other"
						};
						rep.violation(class, "parsed pipeline differs from the pipeline the text describes", json!({"text": text, "expected": format!("{expect:?}"), "got": format!("{got:?}")}));
					}
				}
			}
			if rep.wants_sample() && variant == 2 && count_nodes(&tree) >= 2 {
				rep.sample(json!({"text": text, "tree": format!("{expect:?}")}));
			}
		}
		// negative: one certain syntax error
		let st = Style { ws: 1, quote_all: false };
		let valid = render_pipeline(&tree, &st, &mut rng);
		if let Some((bad, why)) = corrupt(&mut rng, valid.trim(), &tree) {
			rep.eval();
			rep.count("invalid_texts", 1);
			match guard::catch(|| parse_vpl(&bad)) {
				Err(p) => rep.violation(&p.signature("parse_vpl"), "parser panicked on an invalid text", json!({"text": bad, "panic": p.describe()})),
				Ok(Ok(got)) => rep.violation(&format!("invalid-accepted|{why}"), "text outside the syntax accepted", json!({"text": bad, "why_invalid": why, "got": format!("{got:?}")})),
				Ok(Err(_)) => {}
			}
		}
	}

	// unknown operations, missing and mistyped parameters
	cx.progress("factory rejections");
	let f = factory();
	let unknown_name = format!("from_{}", ident(&mut rng));
	let bad_texts: Vec<(String, &str)> = vec![
		(format!("{unknown_name} filename=\"x\""), "unknown read operation"),
		(format!("from_container filename=\"x.png\" | {}", ident(&mut rng)), "unknown transform operation"),
		("from_container".to_string(), "missing required parameter"),
		("from_container | filter_bbox".to_string(), "missing required parameter"),
		("from_container filename=\"x\" | filter_zoom min=abc".to_string(), "mistyped numeric parameter"),
		("from_container filename=\"x\" | filter_zoom max=1.5".to_string(), "mistyped numeric parameter"),
		("from_container filename=\"x\" | filter_zoom min=-1".to_string(), "mistyped numeric parameter"),
		("from_container filename=\"x\" | filter_zoom min=256".to_string(), "mistyped numeric parameter"),
		("from_container filename=\"x\" | filter_bbox bbox=[1,2,3]".to_string(), "mistyped list parameter"),
		("from_container filename=\"x\" | filter_bbox bbox=[a,b,c,d]".to_string(), "mistyped list parameter"),
		("from_container filename=\"x\" | filter_bbox bbox=[1,2,x,3,4]".to_string(), "mistyped list parameter (five entries, one of them not a number)"),
		("from_container filename=\"x\" | filter_bbox bbox=[west,1,2,3,4]".to_string(), "mistyped list parameter (five entries, one of them not a number)"),
		("from_container filename=\"x\" | filter_bbox bbox=[1,2,3,4,5]".to_string(), "mistyped list parameter"),
		("from_container filename=[a,b]".to_string(), "list where a single value is required"),
		("from_container filename=\"x\" | filter_zoom min=[]".to_string(), "empty list where a single value is required"),
		("from_container filename=\"x\" | filter_zoom min=[1,2]".to_string(), "list where a single value is required"),
		("from_container filename=[]".to_string(), "empty list where a single value is required"),
		("from_overlayed [ from_container filename=\"x\" ]".to_string(), "too few sources"),
		("filter_zoom min=1".to_string(), "transform operation at the head of a pipeline"),
		("from_container filename=\"x\" | from_container filename=\"y\"".to_string(), "read operation in transform position"),
		("from_container filename=\"x\" | vectortiles_update_properties".to_string(), "missing required parameter"),
	];
	// the same defects inside a source list, next to members that are fine, at every position of the list
	let mut bad_texts = bad_texts;
	let broken: Vec<(String, &str)> = vec![
		(format!("{unknown_name} filename=\"x\""), "unknown read operation in a source list"),
		("from_container".to_string(), "missing required parameter in a source list"),
		("from_debug format=pbf | filter_zoom min=abc".to_string(), "mistyped numeric parameter in a source list"),
		(format!("from_debug format=pbf | {}", ident(&mut rng)), "unknown transform operation in a source list"),
		("from_debug format=pbf | filter_bbox bbox=[1,2,3]".to_string(), "mistyped list parameter in a source list"),
	];
	for (b, why) in &broken {
		for op in ["from_overlayed", "from_vectortiles_merged"] {
			for pos in 0..3 {
				let mut members = vec!["from_debug format=pbf".to_string(), "from_debug format=pbf | filter_zoom max=8".to_string()];
				members.insert(pos, b.clone());
				bad_texts.push((format!("{op} [ {} ]", members.join(", ")), why));
			}
		}
	}
	for (text, why) in bad_texts {
		rep.eval();
		rep.count("factory_rejections_checked", 1);
		rep.nontrivial(fnv(text.as_bytes()));
		let r = guard::catch(|| guard::block_on(f.operation_from_vpl(&text)));
		match r {
			Err(p) => rep.violation(&p.signature("operation_from_vpl"), "building a pipeline panicked", json!({"text": text, "panic": p.describe()})),
			Ok(Ok(_)) => rep.violation(&format!("factory-accepted|{why}"), "pipeline with an unknown operation / missing / mistyped parameter was built", json!({"text": text, "why_invalid": why})),
			Ok(Err(_)) => {}
		}
	}
	// and the positive control: well-typed pipelines are built
	for text in [
		"from_container filename=\"x.png\"",
		"from_container filename=x | filter_zoom min=1 max=3",
		"from_container filename=x | filter_zoom",
		"from_container filename=x | filter_bbox bbox=[-10,-10,10,10]",
		"from_overlayed [ from_container filename=a, from_container filename=b | filter_zoom min=2 ]",
		"from_vectortiles_merged [ from_debug format=pbf, from_debug format=pbf | filter_zoom max=8 ]",
		"from_overlayed [ from_debug format=pbf, from_overlayed [ from_debug format=pbf, from_debug format=pbf ] ]",
	] {
		rep.eval();
		rep.count("factory_accepts_checked", 1);
		match guard::catch(|| guard::block_on(f.operation_from_vpl(text))) {
			Err(p) => rep.violation(&p.signature("operation_from_vpl"), "building a pipeline panicked", json!({"text": text, "panic": p.describe()})),
			Ok(Err(e)) => rep.violation("factory-rejected|well-typed", "well-typed pipeline rejected", json!({"text": text, "error": e.to_string()})),
			Ok(Ok(_)) => {}
		}
	}
	if !cx.tier.is_tiny() {
		transform_order(cx, rep, &mut rng);
	}
	// a long run of rejected texts (a user correcting a file, a service validating uploads) leaves nothing behind:
	// the well-formed text after them parses as it did before them. The failures lie inside source lists, at
	// several depths.
	cx.progress("valid text after many rejected ones");
	let canary = "from_overlayed [ from_container filename=a | filter_zoom min=1, from_overlayed [ from_container filename=b, from_container filename=c ] ] | filter_zoom max=9";
	let before = guard::catch(|| parse_vpl(canary).map(|t| format!("{t:?}")));
	let rejected = [
		"from_overlayed [ from_container filename=a, from_container filename= ]",
		"from_overlayed [ from_container filename=a; from_container filename=b ]",
		"from_overlayed [ from_container filename=a, from_container filename=\"b ]",
		"from_overlayed [ from_container filename=a, from_overlayed [ from_container filename=b, from_container = ] ]",
		"from_overlayed [ from_container filename=a, from_overlayed [ from_container filename=b, from_container filename=c ]",
		"from_overlayed [ a [ b [ c [ d [ e [ f [ g [ h = ] ] ] ] ] ] ] ]",
	];
	// long rejected texts with multi-byte characters at every position of whatever the error report is cut at
	for pad in 0..cx.tier.pick(40, 160) {
		let t = format!("from_overlayed [ from_container filename=\"{}{}\" note=\"{}\", from_container filename= ]", "x".repeat(pad as usize % 40), "\u{fc}\u{20ac}\u{1F5FA}".repeat(20 + pad as usize), "\u{e4}".repeat(150 + 7 * pad as usize));
		rep.eval();
		match guard::catch(|| parse_vpl(&t)) {
			Err(p) => {
				rep.violation(&p.signature("parse_vpl"), "parser panicked on an invalid text", json!({"text_len": t.len(), "pad": pad, "panic": p.describe()}));
				break;
			}
			Ok(Ok(got)) => {
				rep.violation("invalid-accepted|defect inside a source list", "text outside the syntax accepted", json!({"text": t, "got": format!("{got:?}")}));
				break;
			}
			Ok(Err(_)) => {}
		}
	}
	let n = cx.tier.pick(150, 600);
	for i in 0..n {
		let t = rejected[i as usize % rejected.len()];
		rep.eval();
		if let Ok(Ok(got)) = guard::catch(|| parse_vpl(t)) {
			rep.violation("invalid-accepted|defect inside a source list", "text outside the syntax accepted", json!({"text": t, "got": format!("{got:?}")}));
			break;
		}
	}
	rep.count("rejected_texts_in_a_row_before_a_valid_one", n as u64);
	let after = guard::catch(|| parse_vpl(canary).map(|t| format!("{t:?}")));
	match (before, after) {
		(Ok(Ok(b)), Ok(Ok(a))) if a == b => {}
		(Ok(Ok(_)), Ok(Ok(a))) => rep.violation("valid-parsed-differently|after rejected texts", "a well-formed text parses to another tree after a run of rejected texts", json!({"text": canary, "got": a})),
		(Ok(Ok(_)), Ok(Err(e))) => rep.violation("valid-rejected|after rejected texts", "a well-formed text is rejected after a run of rejected texts on the same thread", json!({"text": canary, "rejected_before_it": n, "error": format!("{e:#}")})),
		(_, Err(p)) => rep.violation(&p.signature("parse_vpl"), "parser panicked", json!({"text": canary, "panic": p.describe()})),
		_ => {}
	}
}

/// "parsed into exactly that sequence of operations": the *built* pipeline applies its transform stages in the
/// written order. Every stage overwrites the same property with its own marker, so the marker that is left
/// names the stage that ran last — at the top level and inside a nested source list.
fn transform_order(cx: &CaseCtx, rep: &mut Report, rng: &mut Rng) {
	use crate::codec::imvt;
	use crate::pipe::{self, Sources, Src};
	cx.progress("transform order");
	let dir = cx.fresh_dir("c18order");
	let go = imvt::GenOpts { extreme_values: false, unknown_geom: false, id_field: Some("osm_id".into()), max_features: 6, layer_names: vec!["roads".into(), "water".into()], max_layers: 2, ..Default::default() };
	let sets = crate::mvtsrc::gen_vector_sets(rng, 1, &go, false, &imvt::EncOpts::default());
	let set = &sets[0];
	let mut sources = Sources::new();
	sources.add("v0.x", Src::Mem { ts: set.tileset("v0"), pyramid: None, default_stream: false, yields: 0, open_yields: 0 });
	for i in 0..4 {
		let mut t = String::from("id,marker\n");
		for id in (0..12).map(|n| format!("id{n}")).chain((0..12).map(|n| n.to_string())) {
			t.push_str(&format!("{id},m{i}\n"));
		}
		if std::fs::write(dir.join(format!("step{i}.csv")), t).is_err() {
			rep.inconclusive("cannot write the CSV fixtures");
			return;
		}
	}
	let stage = |i: usize| format!("vectortiles_update_properties data_source_path=\"step{i}.csv\" layer_name=roads id_field_tiles=osm_id id_field_data=id");
	for n in 2..=4usize {
		for nested in [false, true] {
			let chain = (0..n).map(stage).collect::<Vec<_>>().join(" | ");
			let vpl = if nested { format!("from_overlayed [ from_container filename=v0.x | {chain}, from_container filename=v0.x ]") } else { format!("from_container filename=v0.x | {chain}") };
			rep.eval();
			rep.count("transform_order_pipelines", 1);
			rep.nontrivial(fnv(vpl.as_bytes()));
			let want = format!("m{}", n - 1);
			let r = guard::catch(|| {
				guard::block_on(async {
					let (reader, _) = pipe::build(&vpl, &sources, Some(&dir)).await.map_err(|e| format!("{e:#}"))?;
					let mut seen: Vec<String> = vec![];
					for k in set.blobs.keys() {
						let Some(b) = reader.get_tile_data(&crate::gen::coord_of(k)).await.map_err(|e| format!("{e:#}"))? else { continue };
						let raw = crate::comp::decompress(b.as_slice(), crate::comp::Comp::from_core(reader.get_parameters().tile_compression)).map_err(|e| e.to_string())?;
						let t = imvt::decode(&raw)?;
						if let Some(l) = t.layer("roads") {
							for f in &l.features {
								if let (Some(_), Some(imvt::CVal::Str(m))) = (f.props.get("osm_id"), f.props.get("marker")) {
									seen.push(m.clone());
								}
							}
						}
					}
					Ok::<Vec<String>, String>(seen)
				})
			});
			match r {
				Err(p) => rep.violation(&p.signature("transform-order"), "building / reading a chain of transform stages panicked", json!({"vpl": vpl, "panic": p.describe()})),
				Ok(Err(e)) => rep.violation("order|chain-failed", "a well-formed chain of transform stages failed", json!({"vpl": vpl, "error": e})),
				Ok(Ok(seen)) => {
					rep.count("transform_order_markers_seen", seen.len() as u64);
					if let Some(bad) = seen.iter().find(|m| **m != want) {
						rep.violation(&format!("order|stages={n}|{}", if nested { "nested" } else { "top-level" }), "the transform stages did not run in the written order", json!({"vpl": vpl, "marker_left": bad, "expected": want}));
					}
				}
			}
		}
	}
	let _ = std::fs::remove_dir_all(&dir);
}
