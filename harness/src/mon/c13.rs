//! C13 — concurrent reads from one opened container return what sequential reads return.
//!
//! History monitor at the client boundary: pre-planned `read_range` / `get_tile_data` calls are
//! first executed alone (expected results), then by 2..16 OS threads or tokio tasks at the same
//! time on one shared reader instance.  File contents are position-dependent (every 8-byte word
//! holds its own offset; tile payloads embed their coordinate), so a wrong result names the call
//! it was mixed up with.

use crate::gen::{self, GenOpts, MemSource};
use crate::guard;
use crate::report::{Plan, Report, Tier};
use crate::rng::{fnv, Rng};
use crate::shard::{CaseCtx, MonitorDef};
use serde_json::json;
use std::path::Path;
use std::sync::atomic::{AtomicUsize, Ordering};
use std::sync::{Arc, Barrier};
use versatiles_container::*;
use versatiles_core::io::{DataReaderFile, DataReaderTrait};
use versatiles_core::types::*;

pub fn def() -> MonitorDef {
	MonitorDef { id: "C13", plan, run_case, finalize }
}

const KINDS: [&str; 4] = ["file", "versatiles", "pmtiles", "tar"];
const CALLERS: [usize; 4] = [2, 4, 8, 16];

fn plan(tier: Tier, _seed: u64) -> Plan {
	Plan {
		// kind x callers x mode(threads|tasks) x repetitions
		cases: (KINDS.len() * CALLERS.len() * 2) as u64 * tier.pick(1, 6),
		shards: 4,
		case_timeout_s: 600,
		level: "exploration",
		rule: "one case = (reader kind in {DataReaderFile, versatiles, pmtiles, tar}, 2|4|8|16 concurrent callers, OS threads with private runtimes | tasks on a 16-worker tokio runtime, seeded plan of offsets / coordinates incl. absent ones). Every call's concurrent result is compared with the result of the same call executed alone. A case is non-trivial if at least two calls overlapped in time (in-flight counter >= 2); distinct by (kind, callers, mode, plan seed)".into(),
		assumptions: vec![
			"expected results come from the same calls run alone on the same reader before the concurrent phase".into(),
			"overlap is measured with an atomic in-flight counter around each call".into(),
		],
		min_evaluations: 20_000,
		exhaustive: false,
		timeouts_excluded: false,
	}
}

fn finalize(_t: Tier, _p: &Plan, rep: &mut Report) {
	if rep.maximum("inflight") < 2 {
		rep.inconclusive("no two calls were ever in flight together");
	}
	for k in KINDS {
		if rep.counter(&format!("concurrent_calls_{k}")) == 0 {
			rep.inconclusive(&format!("no concurrent calls executed for reader kind {k}"));
		}
	}
}

fn write_offset_file(path: &Path, words: u64) {
	let mut v = Vec::with_capacity((words * 8) as usize);
	for i in 0..words {
		v.extend_from_slice(&(i * 8).to_be_bytes());
	}
	std::fs::write(path, v).unwrap();
}

#[derive(Clone, Debug)]
enum Call {
	Range(u64, u64),
	Tile(TileCoord3),
}

#[derive(Clone, Debug, PartialEq)]
enum Res {
	Bytes(Vec<u8>),
	Absent,
	Error,
}

enum Target {
	File(Box<DataReaderFile>),
	Tiles(Box<dyn TilesReaderTrait>),
}

impl Target {
	async fn call(&self, c: &Call) -> Res {
		match (self, c) {
			(Target::File(r), Call::Range(o, l)) => match r.read_range(&ByteRange::new(*o, *l)).await {
				Ok(b) => Res::Bytes(b.into_vec()),
				Err(_) => Res::Error,
			},
			(Target::Tiles(r), Call::Tile(c)) => match r.get_tile_data(c).await {
				Ok(Some(b)) => Res::Bytes(b.into_vec()),
				Ok(None) => Res::Absent,
				Err(_) => Res::Error,
			},
			_ => Res::Error,
		}
	}
}

fn describe(r: &Res) -> String {
	match r {
		Res::Absent => "absent".into(),
		Res::Error => "error".into(),
		Res::Bytes(b) => {
			let head = &b[..b.len().min(24)];
			if b.len() >= 8 && !head.starts_with(b"T:") {
				let mut w = [0u8; 8];
				w.copy_from_slice(&b[..8]);
				format!("{} bytes, first word says offset {}", b.len(), u64::from_be_bytes(w))
			} else {
				format!("{} bytes starting {:?}", b.len(), String::from_utf8_lossy(head))
			}
		}
	}
}

fn run_case(cx: &CaseCtx, rep: &mut Report) {
	let mut rng = cx.rng();
	let combos = (KINDS.len() * CALLERS.len() * 2) as u64;
	let c = cx.case % combos;
	let kind = KINDS[(c % 4) as usize];
	let callers = CALLERS[((c / 4) % 4) as usize];
	let tasks_mode = (c / 16) % 2 == 1;
	let per_caller = match kind {
		"file" => cx.tier.pick(20_000, 60_000) / 4,
		_ => cx.tier.pick(1_500, 6_000),
	};
	cx.progress(&format!("{kind} callers={callers} tasks={tasks_mode}"));
	let dir = cx.fresh_dir("c13");

	let mut big = false;
	// build the target and the plan
	let built = guard::catch(|| -> Result<(Target, Vec<Vec<Call>>), String> {
		if kind == "file" {
			let p = dir.join("offsets.bin");
			let words = 64 * 1024;
			write_offset_file(&p, words);
			let r = DataReaderFile::open(&p).map_err(|e| e.to_string())?;
			let size = words * 8;
			let plans = (0..callers)
				.map(|_| {
					(0..per_caller)
						.map(|_| {
							let len = *rng.pick(&[8u64, 8, 16, 64, 512, 4096]);
							let off = rng.below((size - len) / 8) * 8;
							Call::Range(off, len)
						})
						.collect()
				})
				.collect();
			Ok((Target::File(r), plans))
		} else {
			let pairs = if kind == "pmtiles" { gen::pmtiles_pairs() } else { gen::all_format_pairs() };
			let opts = GenOpts { max_tiles: 600, max_level: 20, formats: pairs, unique_payloads: true, ..Default::default() };
			// every other PMTiles case is large enough for leaf directories (shared leaf cache behind an async mutex);
			// every other versatiles case spans many blocks (shared tile-index cache)
			let ts = if (kind == "pmtiles" || kind == "versatiles") && tasks_mode == (callers % 4 == 0) {
				crate::mon::c01::big_tileset(&mut rng, kind)
			} else {
				gen::gen_tileset(&mut rng, &opts)
			};
			if ts.tiles.len() > 16384 {
				big = true;
			}
			let path = dir.join(format!("c.{kind}"));
			let mut src = MemSource::new(&ts);
			guard::block_on(write_to_filename(&mut src, path.to_str().unwrap())).map_err(|e| format!("write: {e}"))?;
			let reader = guard::block_on(get_reader(path.to_str().unwrap())).map_err(|e| format!("open: {e}"))?;
			let keys: Vec<gen::Key> = ts.tiles.keys().cloned().collect();
			let plans = (0..callers)
				.map(|_| {
					(0..per_caller)
						.map(|_| {
							let k = *rng.pick(&keys);
							if rng.chance(0.15) {
								// a neighbour that may be absent
								let m = ((1u64 << k.0) - 1) as u32;
								Call::Tile(TileCoord3::new((k.1 + 1).min(m), k.2, k.0).unwrap())
							} else {
								Call::Tile(gen::coord_of(&k))
							}
						})
						.collect()
				})
				.collect();
			Ok((Target::Tiles(reader), plans))
		}
	});
	let (target, plans) = match built {
		Ok(Ok(v)) => v,
		Ok(Err(e)) => {
			rep.inconclusive(&format!("could not build the {kind} fixture: {e}"));
			return;
		}
		Err(p) => {
			rep.violation(&p.signature(&format!("c13-setup-{kind}")), "writing / opening the fixture panicked", json!({"panic": p.describe()}));
			return;
		}
	};

	// expected: each call alone
	let expected: Vec<Vec<Res>> = guard::block_on(async {
		let mut all = vec![];
		for p in &plans {
			let mut v = vec![];
			for c in p {
				v.push(target.call(c).await);
			}
			all.push(v);
		}
		all
	});
	if kind == "file" {
		// sanity of the oracle itself: solo reads return the bytes of their own offset
		for (p, e) in plans.iter().zip(&expected) {
			for (c, r) in p.iter().zip(e).take(50) {
				if let (Call::Range(o, _), Res::Bytes(b)) = (c, r) {
					if b[..8] != o.to_be_bytes() {
						rep.violation("file|solo-read-wrong", "a read executed alone returned bytes of another offset", json!({"offset": o}));
						return;
					}
				}
			}
		}
	}

	let target = Arc::new(target);
	let plans = Arc::new(plans);
	let inflight = Arc::new(AtomicUsize::new(0));
	let max_inflight = Arc::new(AtomicUsize::new(0));

	let results: Result<Vec<Vec<Res>>, guard::PanicRec> = guard::catch(|| {
		if tasks_mode {
			guard::block_on_mt(16, async {
				let mut handles = vec![];
				for t in 0..callers {
					let (target, plans, inflight, max_inflight) = (target.clone(), plans.clone(), inflight.clone(), max_inflight.clone());
					handles.push(tokio::spawn(async move {
						let mut out = Vec::with_capacity(plans[t].len());
						for c in &plans[t] {
							let n = inflight.fetch_add(1, Ordering::SeqCst) + 1;
							max_inflight.fetch_max(n, Ordering::SeqCst);
							let r = target.call(c).await;
							inflight.fetch_sub(1, Ordering::SeqCst);
							out.push(r);
							if out.len() % 64 == 0 {
								tokio::task::yield_now().await;
							}
						}
						out
					}));
				}
				let mut all = vec![];
				for h in handles {
					all.push(h.await.unwrap_or_default());
				}
				all
			})
		} else {
			let barrier = Arc::new(Barrier::new(callers));
			let mut handles = vec![];
			for t in 0..callers {
				let (target, plans, inflight, max_inflight, barrier) = (target.clone(), plans.clone(), inflight.clone(), max_inflight.clone(), barrier.clone());
				handles.push(std::thread::spawn(move || {
					let rt = tokio::runtime::Builder::new_current_thread().enable_all().build().unwrap();
					barrier.wait();
					rt.block_on(async {
						let mut out = Vec::with_capacity(plans[t].len());
						for c in &plans[t] {
							let n = inflight.fetch_add(1, Ordering::SeqCst) + 1;
							max_inflight.fetch_max(n, Ordering::SeqCst);
							let r = target.call(c).await;
							inflight.fetch_sub(1, Ordering::SeqCst);
							out.push(r);
						}
						out
					})
				}));
			}
			handles.into_iter().map(|h| h.join().unwrap_or_default()).collect()
		}
	});

	let mode = if tasks_mode { "tasks" } else { "threads" };
	match results {
		Err(p) => rep.violation(&p.signature(&format!("concurrent-{kind}")), "a concurrent read panicked", json!({"kind": kind, "callers": callers, "mode": mode, "panic": p.describe()})),
		Ok(results) => {
			let mi = max_inflight.load(Ordering::SeqCst);
			rep.max("inflight", mi as u64);
			let mut wrong = 0u64;
			let mut total = 0u64;
			let mut first: Option<serde_json::Value> = None;
			for (t, (got, exp)) in results.iter().zip(&expected).enumerate() {
				if got.len() != exp.len() {
					wrong += 1;
					first.get_or_insert(json!({"caller": t, "problem": "caller did not finish its plan"}));
					continue;
				}
				for (i, (g, e)) in got.iter().zip(exp).enumerate() {
					total += 1;
					if g != e {
						wrong += 1;
						if first.is_none() {
							first = Some(json!({"caller": t, "call_index": i, "call": format!("{:?}", plans[t][i]), "alone": describe(e), "concurrent": describe(g)}));
						}
					}
				}
			}
			rep.evals(total);
			rep.count(&format!("concurrent_calls_{kind}"), total);
			rep.label("modes", &format!("{kind}/{mode}/{callers}"));
			if big {
				rep.count(&format!("cases_with_leaf_directories_or_many_blocks_{kind}"), 1);
			}
			if mi >= 2 {
				rep.nontrivial(fnv(format!("{kind}{callers}{mode}{}", cx.case).as_bytes()));
			}
			if wrong > 0 {
				rep.violation(
					&format!("{kind}|concurrent-differs-from-solo"),
					"a call returned something else than it returns when it runs alone",
					json!({"kind": kind, "callers": callers, "mode": mode, "wrong": wrong, "of": total, "max_inflight": mi, "first": first}),
				);
			}
			if rep.wants_sample() {
				rep.sample(json!({"kind": kind, "callers": callers, "mode": mode, "calls": total, "max_inflight": mi, "first_calls": plans[0].iter().take(3).map(|c| format!("{c:?}")).collect::<Vec<_>>()}));
			}
		}
	}
	let _ = std::fs::remove_dir_all(&dir);
	let _ = Rng::new(0);
}
