//! C13 — concurrent reads from one opened container return what sequential reads return.
//!
//! History monitor at the client boundary: pre-planned `read_range` / `get_tile_data` calls are
//! first executed alone (expected results), then by 2..16 OS threads or tokio tasks at the same
//! time on one shared reader instance.  File contents are position-dependent (every 8-byte word
//! holds its own offset; tile payloads embed their coordinate), so a wrong result names the call
//! it was mixed up with.

use crate::gen::{self, GenOpts, MemSource};
use crate::guard;
use crate::report::{Plan, Report, Tier};
use crate::rng::{fnv, Rng};
use crate::shard::{CaseCtx, MonitorDef};
use serde_json::json;
use std::path::Path;
use std::sync::atomic::{AtomicUsize, Ordering};
use std::sync::{Arc, Barrier};
use versatiles_container::*;
use versatiles_core::io::{DataReaderFile, DataReaderTrait};
use versatiles_core::types::*;

pub fn def() -> MonitorDef {
	MonitorDef { id: "C13", plan, run_case, finalize }
}

const KINDS: [&str; 4] = ["file", "versatiles", "pmtiles", "tar"];
const CALLERS: [usize; 4] = [2, 4, 8, 16];

fn plan(tier: Tier, _seed: u64) -> Plan {
	Plan {
		// kind x callers x mode(threads|tasks) x repetitions
		cases: (KINDS.len() * CALLERS.len() * 2) as u64 * tier.pick(2, 6),
		shards: 4,
		case_timeout_s: 150,
		level: "exploration",
		rule: "one case = (reader kind in {DataReaderFile, versatiles, pmtiles, tar}, 2|4|8|16 concurrent callers, OS threads with private runtimes | tasks on a 16-worker tokio runtime, seeded plan of offsets / coordinates incl. absent ones). Every call's concurrent result is compared with the result of the same call executed alone. A case is non-trivial if at least two calls overlapped in time (in-flight counter >= 2); distinct by (kind, callers, mode, plan seed)".into(),
		assumptions: vec![
			"expected results come from the same calls run alone on the same reader before the concurrent phase".into(),
			"overlap is measured with an atomic in-flight counter around each call".into(),
		],
		min_evaluations: 20_000,
		exhaustive: false,
		timeouts_excluded: false,
	}
}

fn finalize(_t: Tier, _p: &Plan, rep: &mut Report) {
	if rep.maximum("inflight") < 2 {
		rep.inconclusive("no two calls were ever in flight together");
	}
	for k in KINDS {
		if rep.counter(&format!("concurrent_calls_{k}")) == 0 {
			rep.inconclusive(&format!("no concurrent calls executed for reader kind {k}"));
		}
	}
}

fn write_offset_file(path: &Path, words: u64) {
	let mut v = Vec::with_capacity((words * 8) as usize);
	for i in 0..words {
		v.extend_from_slice(&(i * 8).to_be_bytes());
	}
	std::fs::write(path, v).unwrap();
}

#[derive(Clone, Debug)]
enum Call {
	Range(u64, u64),
	Tile(TileCoord3),
}

#[derive(Clone, Debug, PartialEq)]
enum Res {
	Bytes(Vec<u8>),
	Absent,
	Error,
}

enum Target {
	File(Box<DataReaderFile>),
	Tiles(Box<dyn TilesReaderTrait>),
}

impl Target {
	async fn call(&self, c: &Call) -> Res {
		match (self, c) {
			(Target::File(r), Call::Range(o, l)) => match r.read_range(&ByteRange::new(*o, *l)).await {
				Ok(b) => Res::Bytes(b.into_vec()),
				Err(_) => Res::Error,
			},
			(Target::Tiles(r), Call::Tile(c)) => match r.get_tile_data(c).await {
				Ok(Some(b)) => Res::Bytes(b.into_vec()),
				Ok(None) => Res::Absent,
				Err(_) => Res::Error,
			},
			_ => Res::Error,
		}
	}
}

fn describe(r: &Res) -> String {
	match r {
		Res::Absent => "absent".into(),
		Res::Error => "error".into(),
		Res::Bytes(b) => {
			let head = &b[..b.len().min(24)];
			if b.len() >= 8 && !head.starts_with(b"T:") {
				let mut w = [0u8; 8];
				w.copy_from_slice(&b[..8]);
				format!("{} bytes, first word says offset {}", b.len(), u64::from_be_bytes(w))
			} else {
				format!("{} bytes starting {:?}", b.len(), String::from_utf8_lossy(head))
			}
		}
	}
}

static SCARCE: std::sync::atomic::AtomicBool = std::sync::atomic::AtomicBool::new(false);
static DEEP_PMTILES: std::sync::atomic::AtomicBool = std::sync::atomic::AtomicBool::new(false);

fn run_case(cx: &CaseCtx, rep: &mut Report) {
	let mut rng = cx.rng();
	// every third case runs as a process that logs at trace level (what `-vvvv` turns on)
	let tracing = cx.case % 3 == 2;
	guard::trace_logging(tracing);
	if tracing {
		rep.count("cases_with_trace_logging", 1);
	}
	let combos = (KINDS.len() * CALLERS.len() * 2) as u64;
	let c = cx.case % combos;
	let kind = KINDS[(c % 4) as usize];
	let callers = CALLERS[((c / 4) % 4) as usize];
	let tasks_mode = (c / 16) % 2 == 1;
	let per_caller = match kind {
		"file" => cx.tier.pick(20_000, 60_000) / 4,
		_ => cx.tier.pick(1_500, 6_000),
	};
	cx.progress(&format!("{kind} callers={callers} tasks={tasks_mode}"));
	let dir = cx.fresh_dir("c13");

	let mut big = false;
	// second half of the plan: the versatiles cases run on a file with one damaged block
	let damaged = kind == "versatiles" && (cx.case / combos) % 2 == 1;
	let mut fresh_path: Option<std::path::PathBuf> = None;
	// build the target and the plan
	let built = guard::catch(|| -> Result<(Target, Vec<Vec<Call>>), String> {
		if kind == "file" {
			let p = dir.join("offsets.bin");
			let words = 64 * 1024;
			write_offset_file(&p, words);
			let r = DataReaderFile::open(&p).map_err(|e| e.to_string())?;
			let size = words * 8;
			let plans = (0..callers)
				.map(|_| {
					(0..per_caller)
						.map(|_| {
							let len = *rng.pick(&[8u64, 8, 16, 64, 512, 4096]);
							let off = rng.below((size - len) / 8) * 8;
							Call::Range(off, len)
						})
						.collect()
				})
				.collect();
			Ok((Target::File(r), plans))
		} else {
			let pairs = if kind == "pmtiles" { gen::pmtiles_pairs() } else { gen::all_format_pairs() };
			let opts = GenOpts { max_tiles: 600, max_level: 20, formats: pairs, unique_payloads: true, ..Default::default() };
			// every other PMTiles case is large enough for leaf directories (shared leaf cache behind an async mutex);
			// every other versatiles case spans many blocks (shared tile-index cache)
			let ts = if (kind == "pmtiles" || kind == "versatiles") && tasks_mode == (callers % 4 == 0) {
				crate::mon::c01::big_tileset(&mut rng, kind)
			} else {
				gen::gen_tileset(&mut rng, &opts)
			};
			if ts.tiles.len() > 16384 {
				big = true;
			}
			let path = dir.join(format!("c.{kind}"));
			if kind == "pmtiles" && !damaged && rng.chance(0.35) {
				// an archive from another encoder, three directory levels deep (root -> leaf -> leaf -> tiles)
				let mut o = crate::codec::ipm::EncOpts::random(&mut rng, ts.tiles.len());
				o.leaf_levels = 2;
				o.leaf_size = 12;
				std::fs::write(&path, crate::codec::ipm::encode(&ts, &o, &mut rng)).map_err(|e| e.to_string())?;
				DEEP_PMTILES.store(true, Ordering::SeqCst);
			} else {
				let mut src = MemSource::new(&ts);
				guard::block_on(write_to_filename(&mut src, path.to_str().unwrap())).map_err(|e| format!("write: {e}"))?;
			}
			if damaged {
				// the tile index of one block is overwritten with noise: every lookup in that block has to fail, whenever
				// and by whomever it is issued; the other blocks are untouched
				let mut bytes = std::fs::read(&path).map_err(|e| e.to_string())?;
				let h = crate::codec::ivt::parse_header(&bytes)?;
				let raw = crate::comp::unbrotli(&bytes[h.blocks.0 as usize..(h.blocks.0 + h.blocks.1) as usize])?;
				let recs = crate::codec::ivt::parse_block_index(&raw)?;
				let b = &recs[rng.usize_below(recs.len())];
				let (a, e) = ((b.offset + b.blobs_len) as usize, (b.offset + b.blobs_len) as usize + b.index_len as usize);
				let e = e.min(bytes.len());
				for x in bytes[a..e].iter_mut() {
					*x = 0xA5;
				}
				std::fs::write(&path, bytes).map_err(|e| e.to_string())?;
			}
			fresh_path = Some(path.clone());
			let reader = guard::block_on(get_reader(path.to_str().unwrap())).map_err(|e| format!("open: {e}"))?;
			let keys: Vec<gen::Key> = ts.tiles.keys().cloned().collect();
			let plans = (0..callers)
				.map(|_| {
					(0..per_caller)
						.map(|_| {
							let k = *rng.pick(&keys);
							if rng.chance(0.15) {
								// a neighbour that may be absent
								let m = ((1u64 << k.0) - 1) as u32;
								Call::Tile(TileCoord3::new((k.1 + 1).min(m), k.2, k.0).unwrap())
							} else {
								Call::Tile(gen::coord_of(&k))
							}
						})
						.collect()
				})
				.collect();
			Ok((Target::Tiles(reader), plans))
		}
	});
	let (target, plans) = match built {
		Ok(Ok(v)) => v,
		Ok(Err(e)) => {
			rep.inconclusive(&format!("could not build the {kind} fixture: {e}"));
			return;
		}
		Err(p) => {
			rep.violation(&p.signature(&format!("c13-setup-{kind}")), "writing / opening the fixture panicked", json!({"panic": p.describe()}));
			return;
		}
	};

	// expected: each call alone. On the damaged file "alone" means on a reader that has not been used before, so
	// that nothing a previous call left behind (a cached index, a cached failure) can colour the reference.
	let expected: Vec<Vec<Res>> = if damaged {
		let path = fresh_path.clone().unwrap();
		let mut memo: std::collections::HashMap<String, Res> = std::collections::HashMap::new();
		let mut all = vec![];
		for p in plans.iter() {
			let mut v = vec![];
			for c in p.iter() {
				let key = format!("{c:?}");
				if !memo.contains_key(&key) {
					let r = guard::block_on(async {
						match get_reader(path.to_str().unwrap()).await {
							Ok(fresh) => Target::Tiles(fresh).call(c).await,
							Err(_) => Res::Error,
						}
					});
					memo.insert(key.clone(), r);
				}
				v.push(memo[&key].clone());
			}
			all.push(v);
		}
		rep.count("cases_on_a_file_with_a_damaged_block", 1);
		rep.count("calls_that_must_fail_on_the_damaged_block", all.iter().flatten().filter(|r| **r == Res::Error).count() as u64);
		all
	} else { guard::block_on(async {
		let mut all = vec![];
		for p in &plans {
			let mut v = vec![];
			for c in p {
				v.push(target.call(c).await);
			}
			all.push(v);
		}
		all
	}) };
	if kind == "file" {
		// sanity of the oracle itself: solo reads return the bytes of their own offset
		for (p, e) in plans.iter().zip(&expected) {
			for (c, r) in p.iter().zip(e).take(50) {
				if let (Call::Range(o, _), Res::Bytes(b)) = (c, r) {
					if b[..8] != o.to_be_bytes() {
						rep.violation("file|solo-read-wrong", "a read executed alone returned bytes of another offset", json!({"offset": o}));
						return;
					}
				}
			}
		}
	}

	// The reference above has warmed every cache of that reader. The concurrent phase runs on a reader opened
	// afresh, so that callers meet cold blocks / leaf directories together (where loading races live).
	let target = match (&target, &fresh_path) {
		(Target::Tiles(_), Some(p)) => match guard::block_on(get_reader(p.to_str().unwrap())) {
			Ok(r) => {
				rep.count("concurrent_phases_on_a_cold_reader", 1);
				Target::Tiles(r)
			}
			Err(_) => target,
		},
		_ => target,
	};
	let target = Arc::new(target);
	let plans = Arc::new(plans);
	let inflight = Arc::new(AtomicUsize::new(0));
	let max_inflight = Arc::new(AtomicUsize::new(0));

	let results: Result<Vec<Vec<Res>>, guard::PanicRec> = guard::catch(|| {
		if tasks_mode {
			guard::block_on_mt(16, async {
				let mut handles = vec![];
				for t in 0..callers {
					let (target, plans, inflight, max_inflight) = (target.clone(), plans.clone(), inflight.clone(), max_inflight.clone());
					handles.push(tokio::spawn(async move {
						let mut out = Vec::with_capacity(plans[t].len());
						for c in &plans[t] {
							let n = inflight.fetch_add(1, Ordering::SeqCst) + 1;
							max_inflight.fetch_max(n, Ordering::SeqCst);
							let r = target.call(c).await;
							inflight.fetch_sub(1, Ordering::SeqCst);
							out.push(r);
							if out.len() % 64 == 0 {
								tokio::task::yield_now().await;
							}
						}
						out
					}));
				}
				let mut all = vec![];
				for h in handles {
					all.push(h.await.unwrap_or_default());
				}
				all
			})
		} else {
			// tar cases: while the calls run, the process has next to no free file descriptors left (a server with many
			// mounted archives). A reader that holds its file open does not care; the limit is lowered only after every
			// caller thread has built its runtime, and restored when they are done.
			let scarce = kind == "tar";
			let barrier = Arc::new(Barrier::new(callers + scarce as usize));
			let start = Arc::new(Barrier::new(callers + scarce as usize));
			let mut handles = vec![];
			for t in 0..callers {
				let (target, plans, inflight, max_inflight, barrier, start) = (target.clone(), plans.clone(), inflight.clone(), max_inflight.clone(), barrier.clone(), start.clone());
				handles.push(std::thread::spawn(move || {
					let rt = tokio::runtime::Builder::new_current_thread().enable_all().build().unwrap();
					barrier.wait();
					if scarce {
						start.wait();
					}
					rt.block_on(async {
						let mut out = Vec::with_capacity(plans[t].len());
						for c in &plans[t] {
							let n = inflight.fetch_add(1, Ordering::SeqCst) + 1;
							max_inflight.fetch_max(n, Ordering::SeqCst);
							let r = target.call(c).await;
							inflight.fetch_sub(1, Ordering::SeqCst);
							out.push(r);
						}
						out
					})
				}));
			}
			let mut old_limit: Option<libc::rlimit> = None;
			if scarce {
				barrier.wait();
				let used = std::fs::read_dir("/proc/self/fd").map(|d| d.count()).unwrap_or(64) as u64;
				let mut lim = libc::rlimit { rlim_cur: 0, rlim_max: 0 };
				// SAFETY: plain libc calls on a local struct
				if unsafe { libc::getrlimit(libc::RLIMIT_NOFILE, &mut lim) } == 0 {
					old_limit = Some(lim);
					let low = libc::rlimit { rlim_cur: (used + 2).min(lim.rlim_cur), rlim_max: lim.rlim_max };
					if unsafe { libc::setrlimit(libc::RLIMIT_NOFILE, &low) } == 0 {
						SCARCE.store(true, Ordering::SeqCst);
					}
				}
				start.wait();
			}
			let out: Vec<Vec<Res>> = handles.into_iter().map(|h| h.join().unwrap_or_default()).collect();
			if let Some(lim) = old_limit {
				unsafe { libc::setrlimit(libc::RLIMIT_NOFILE, &lim) };
			}
			out
		}
	});
	if DEEP_PMTILES.swap(false, Ordering::SeqCst) {
		rep.count("cases_on_pmtiles_with_two_leaf_levels", 1);
	}
	if SCARCE.swap(false, Ordering::SeqCst) {
		rep.count("cases_run_with_scarce_file_descriptors", 1);
	}

	let mode = if tasks_mode { "tasks" } else { "threads" };
	match results {
		Err(p) => rep.violation(&p.signature(&format!("concurrent-{kind}")), "a concurrent read panicked", json!({"kind": kind, "callers": callers, "mode": mode, "panic": p.describe()})),
		Ok(results) => {
			let mi = max_inflight.load(Ordering::SeqCst);
			rep.max("inflight", mi as u64);
			let mut wrong = 0u64;
			let mut total = 0u64;
			let mut first: Option<serde_json::Value> = None;
			for (t, (got, exp)) in results.iter().zip(&expected).enumerate() {
				if got.len() != exp.len() {
					wrong += 1;
					first.get_or_insert(json!({"caller": t, "problem": "caller did not finish its plan"}));
					continue;
				}
				for (i, (g, e)) in got.iter().zip(exp).enumerate() {
					total += 1;
					if g != e {
						wrong += 1;
						if first.is_none() {
							first = Some(json!({"caller": t, "call_index": i, "call": format!("{:?}", plans[t][i]), "alone": describe(e), "concurrent": describe(g)}));
						}
					}
				}
			}
			rep.evals(total);
			rep.count(&format!("concurrent_calls_{kind}"), total);
			rep.label("modes", &format!("{kind}/{mode}/{callers}"));
			if big {
				rep.count(&format!("cases_with_leaf_directories_or_many_blocks_{kind}"), 1);
			}
			if mi >= 2 {
				rep.nontrivial(fnv(format!("{kind}{callers}{mode}{}", cx.case).as_bytes()));
			}
			if wrong > 0 {
				rep.violation(
					&format!("{kind}|concurrent-differs-from-solo"),
					"a call returned something else than it returns when it runs alone",
					json!({"kind": kind, "callers": callers, "mode": mode, "wrong": wrong, "of": total, "max_inflight": mi, "first": first}),
				);
			}
			if rep.wants_sample() {
				rep.sample(json!({"kind": kind, "callers": callers, "mode": mode, "calls": total, "max_inflight": mi, "first_calls": plans[0].iter().take(3).map(|c| format!("{c:?}")).collect::<Vec<_>>()}));
			}
		}
	}
	let _ = std::fs::remove_dir_all(&dir);
	let _ = Rng::new(0);
}
