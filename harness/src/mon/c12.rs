//! C12 — an interrupted write never leaves a file that opens as a valid, wrong container.
//!
//! Fault enumeration: the writer's operation sequence is recorded through a `DataWriterTrait`
//! supplied by the harness; every prefix of it, and byte-granular cuts of individual operations,
//! is materialised as a file image (unwritten regions read as zeros) and opened with the real
//! reader.  `Err` is fine; `Ok` requires every source tile to come back intact.

use crate::gen::{self, coord_of, GenOpts, MemSource, TileSet};
use crate::guard;
use crate::mon::c01::{big_tileset, pairs_for};
use crate::report::{Plan, Report, Tier};
use crate::rng::fnv;
use crate::shard::{CaseCtx, MonitorDef};
use anyhow::Result;
use serde_json::json;
use versatiles_container::*;
use versatiles_core::io::{DataReaderBlob, DataWriterTrait};
use versatiles_core::types::*;

pub fn def() -> MonitorDef {
	MonitorDef { id: "C12", plan, run_case, finalize }
}

/// syscall-level cases (traced with strace): 2 x library file writer, 2 x the real `versatiles convert`
pub const SYSCALL_CASES: u64 = 8;

fn plan(tier: Tier, _seed: u64) -> Plan {
	Plan {
		cases: tier.pick(24, 200) + SYSCALL_CASES,
		shards: 12,
		case_timeout_s: 1200,
		level: "fault_enumeration",
		rule: "one case = one recorded write trace (format versatiles | pmtiles x tile set x compression; one PMTiles / versatiles case with > 16384 tiles, i.e. leaf directories / several blocks). Crash points enumerated per trace: EVERY operation prefix k = 0..n (for the two traces with > 16384 tiles: every 50th prefix plus the first 20 and the last 300, byte cuts in the last 300 operations); every byte cut of operations up to 2 kB and of the last four operations (final header, directories / block index; up to 20 kB); first / last 64 bytes and every 97th byte of longer operations. One evaluation = one crash image opened with the real reader. Syscall level (8 cases): the file writer of the library and the real `versatiles convert` are run under strace; the openat / write / pwrite64 / lseek / ftruncate calls on the output file are replayed prefix by prefix with byte cuts of every write (the replay must reproduce the file on disk, otherwise the case is inconclusive); in 4 of the 8 cases an older complete container of other content already sits at the output path and is the starting image. An image counts as intact only if every source tile comes back byte-identical AND the container declares the compression the tiles are stored in. Non-trivial crash point: a cut strictly inside the trace (not the empty and not the complete file); distinct by (trace fingerprint, operation index, byte cut)".into(),
		assumptions: vec![
			"a crash leaves exactly the bytes of the completed operations plus a prefix of the interrupted one; regions never written read as zeros (sparse file semantics)".into(),
			"operation level: operations reach the disk in program order; syscall level: system calls take effect in the order strace logged them (no reordering below the kernel boundary, i.e. no lost page-cache write-back ordering)".into(),
		],
		min_evaluations: 5_000,
		exhaustive: true,
		timeouts_excluded: false,
	}
}

fn finalize(_t: Tier, _p: &Plan, rep: &mut Report) {
	if rep.counter("traces_versatiles") == 0 || rep.counter("traces_pmtiles") == 0 {
		rep.inconclusive("a format was not traced");
	}
	if rep.counter("complete_images_opened_and_intact") == 0 {
		rep.inconclusive("not even the complete files opened: the oracle saw no positive control");
	}
	if rep.counter("syscall_traces_versatiles") == 0 || rep.counter("syscall_traces_pmtiles") == 0 {
		rep.inconclusive("no syscall-level trace was replayed");
	}
	if rep.counter("syscall_traces_over_a_preexisting_container") == 0 {
		rep.inconclusive("no syscall-level trace replaced an existing container");
	}
	if rep.counter("traces_with_leaf_directories") == 0 {
		rep.inconclusive("no PMTiles trace with leaf directories");
	}
}

#[derive(Clone, Debug)]
pub enum Op {
	/// bytes written at `pos`
	Write { pos: u64, data: Vec<u8> },
}

/// records what a writer does; positions follow the semantics of DataWriterFile / DataWriterBlob
pub struct TraceWriter {
	pub ops: Vec<Op>,
	pos: u64,
}

impl TraceWriter {
	pub fn new() -> TraceWriter {
		TraceWriter { ops: vec![], pos: 0 }
	}
}

impl DataWriterTrait for TraceWriter {
	fn append(&mut self, blob: &Blob) -> Result<ByteRange> {
		let r = ByteRange::new(self.pos, blob.len());
		self.ops.push(Op::Write { pos: self.pos, data: blob.as_slice().to_vec() });
		self.pos += blob.len();
		Ok(r)
	}
	fn write_start(&mut self, blob: &Blob) -> Result<()> {
		self.ops.push(Op::Write { pos: 0, data: blob.as_slice().to_vec() });
		Ok(())
	}
	fn get_position(&mut self) -> Result<u64> {
		Ok(self.pos)
	}
	fn set_position(&mut self, position: u64) -> Result<()> {
		self.pos = position;
		Ok(())
	}
}

/// a writer whose `fail_at`-th data operation fails (once) without writing anything
pub struct FaultWriter {
	pub image: Vec<u8>,
	pos: u64,
	count: usize,
	fail_at: usize,
}

impl FaultWriter {
	fn step(&mut self) -> Result<()> {
		let c = self.count;
		self.count += 1;
		if c == self.fail_at {
			anyhow::bail!("injected I/O error at operation {c}");
		}
		Ok(())
	}
}

impl DataWriterTrait for FaultWriter {
	fn append(&mut self, blob: &Blob) -> Result<ByteRange> {
		self.step()?;
		let r = ByteRange::new(self.pos, blob.len());
		let pos = self.pos;
		apply(&mut self.image, pos, blob.as_slice());
		self.pos += blob.len();
		Ok(r)
	}
	fn write_start(&mut self, blob: &Blob) -> Result<()> {
		self.step()?;
		apply(&mut self.image, 0, blob.as_slice());
		Ok(())
	}
	fn get_position(&mut self) -> Result<u64> {
		Ok(self.pos)
	}
	fn set_position(&mut self, position: u64) -> Result<()> {
		self.pos = position;
		Ok(())
	}
}

pub fn apply(image: &mut Vec<u8>, pos: u64, data: &[u8]) {
	let end = pos as usize + data.len();
	if image.len() < end {
		image.resize(end, 0);
	}
	image[pos as usize..end].copy_from_slice(data);
}

pub fn cuts(len: usize, near_end: bool) -> Vec<usize> {
	if len == 0 {
		return vec![];
	}
	if len <= 2048 || (near_end && len <= 20_000) {
		return (1..len).collect();
	}
	let mut v: Vec<usize> = (1..64.min(len)).collect();
	v.extend((64..len.saturating_sub(64)).step_by(97));
	v.extend(len.saturating_sub(64).max(64)..len);
	v
}

pub enum Outcome {
	Rejected,
	Panicked(guard::PanicRec),
	OpenedIntact,
	OpenedWrong(String),
}

/// images that opened with all tiles intact but another declared tile *format* (torn PMTiles header
/// between byte 99 and the end): counted, not judged — the statement speaks of tiles
pub static FORMAT_DIFFERS: std::sync::atomic::AtomicU64 = std::sync::atomic::AtomicU64::new(0);

pub fn try_image(format: &str, image: &[u8], ts: &TileSet) -> Outcome {
	let r = guard::catch_strict_thread(|| {
		guard::block_on(async {
			let reader = DataReaderBlob::from(image.to_vec());
			let opened: Result<Box<dyn TilesReaderTrait>> = if format == "versatiles" {
				VersaTilesReader::open_reader(Box::new(reader)).await.map(|r| r.boxed())
			} else {
				PMTilesReader::open_reader(Box::new(reader)).await.map(|r| r.boxed())
			};
			let reader = match opened {
				Err(_) => return Ok(false),
				Ok(r) => r,
			};
			// a tile is only intact if it also decodes: the container must declare the compression the
			// stored bytes really have
			let declared = reader.get_parameters().tile_compression;
			if declared != ts.comp.to_core() {
				return Err(format!("the container declares tile compression {declared:?}, the tiles are stored as {:?}", ts.comp.to_core()));
			}
			if reader.get_parameters().tile_format != ts.format {
				FORMAT_DIFFERS.fetch_add(1, std::sync::atomic::Ordering::Relaxed);
			}
			for (k, v) in &ts.tiles {
				match reader.get_tile_data(&coord_of(k)).await {
					Ok(Some(b)) if b.as_slice() == v.as_slice() => {}
					Ok(Some(_)) => return Err(format!("tile {}/{}/{} has wrong content", k.0, k.1, k.2)),
					Ok(None) => return Err(format!("tile {}/{}/{} is missing", k.0, k.1, k.2)),
					Err(e) => return Err(format!("tile {}/{}/{} cannot be read: {e}", k.0, k.1, k.2)),
				}
			}
			Ok(true)
		})
	});
	match r {
		Err(p) => Outcome::Panicked(p),
		Ok(Ok(false)) => Outcome::Rejected,
		Ok(Ok(true)) => Outcome::OpenedIntact,
		Ok(Err(e)) => Outcome::OpenedWrong(e),
	}
}

fn many_blocks_tileset(rng: &mut crate::rng::Rng, format: &str) -> crate::gen::TileSet {
	let (tf, tc) = *rng.pick(&pairs_for(format));
	let n = rng.range(30, 160);
	let mut tiles = std::collections::BTreeMap::new();
	// (blocks stay within a 4 x 4 block window per level: the writer walks every block of a level's box)
	let base: Vec<(u64, u64)> = (0..12).map(|_| (rng.below(24), rng.below(24))).collect();
	for i in 0..n {
		let z = 13 + (i % 12) as u8;
		let (bx, by) = base[(i % 12) as usize];
		let (x, y) = (((bx + rng.below(4)) * 256 + rng.below(256)) as u32, ((by + rng.below(4)) * 256 + rng.below(256)) as u32);
		tiles.insert((z, x, y), gen::payload_unique(z, x, y, 20, rng));
	}
	crate::gen::TileSet { format: tf, comp: tc, tiles, tilejson: "{\"tilejson\":\"3.0.0\"}".into(), shape: format!("{n} tiles in as many blocks"), really_compressed: false }
}

/// every byte cut of the last operation of a trace (the final header), nothing else
fn torn_final_operation_only(rep: &mut Report, format: &str, ts: &crate::gen::TileSet) {
	let t0 = ();
	let mut src = MemSource::new(ts);
	let mut tw = TraceWriter::new();
	let wr = guard::catch(|| {
		guard::block_on(async {
			if format == "versatiles" {
				VersaTilesWriter::write_to_writer(&mut src, &mut tw).await
			} else {
				PMTilesWriter::write_to_writer(&mut src, &mut tw).await
			}
		})
	});
	if !matches!(wr, Ok(Ok(()))) {
		return;
	}
	let ops = tw.ops;
	let Some((Op::Write { pos, data }, before)) = ops.split_last() else { return };
	let mut base = Vec::new();
	for Op::Write { pos, data } in before {
		apply(&mut base, *pos, data);
	}
	rep.count("traces_examined_for_the_torn_final_operation_only", 1);
	let _ = t0;
	for c in 1..data.len() {
		let mut img = base.clone();
		apply(&mut img, *pos, &data[..c]);
		rep.eval();
		rep.count("crash_points", 1);
		if let Outcome::OpenedWrong(e) = try_image(format, &img, ts) {
			rep.violation(&format!("{format}|opens-but-wrong|torn-final-operation"), "an interrupted write left a file that opens as a valid container but lacks / misreports tiles", json!({"format": format, "tileset": ts.describe(), "byte_cut_in_the_final_operation": c, "of": data.len(), "what": e}));
			return;
		}
	}
}

fn run_case(cx: &CaseCtx, rep: &mut Report) {
	FORMAT_DIFFERS.store(0, std::sync::atomic::Ordering::Relaxed);
	run_case_inner(cx, rep);
	rep.count("images_opened_with_intact_tiles_but_another_declared_tile_format", FORMAT_DIFFERS.swap(0, std::sync::atomic::Ordering::Relaxed));
}

fn run_case_inner(cx: &CaseCtx, rep: &mut Report) {
	let mut rng = cx.rng();
	let op_cases = cx.tier.pick(24, 200);
	if cx.case >= op_cases {
		let k = cx.case - op_cases;
		let format = if k % 2 == 0 { "versatiles" } else { "pmtiles" };
		crate::mon::c12sys::run_syscall_case(cx, rep, format, k % 4 >= 2, k >= 4);
		return;
	}
	let format = if cx.case % 2 == 0 { "versatiles" } else { "pmtiles" };
	let big = cx.case < 2;
	let ts = if big {
		big_tileset(&mut rng, format)
	} else if cx.case % 4 == 2 && cx.case >= 2 {
		// versatiles traces with many blocks: the compressed block index grows past a few hundred bytes, so a torn
		// length field of the final header can point at a proper prefix of it
		let t = many_blocks_tileset(&mut rng, format);
		rep.count("traces_with_many_blocks", 1);
		// ... and for a number of further tile sets of that kind only the torn final operation is examined
		for _ in 0..cx.tier.pick(40, 120) {
			let extra = many_blocks_tileset(&mut rng, format);
			torn_final_operation_only(rep, format, &extra);
		}
		t
	} else {
		let opts = GenOpts { max_tiles: cx.tier.pick(120, 400), max_level: 20, formats: pairs_for(format), unique_payloads: true, ..Default::default() };
		gen::gen_tileset(&mut rng, &opts)
	};
	cx.progress(&format!("{format} {}", ts.shape));
	let mut src = MemSource::new(&ts);
	let mut tw = TraceWriter::new();
	let wr = guard::catch(|| {
		guard::block_on(async {
			if format == "versatiles" {
				VersaTilesWriter::write_to_writer(&mut src, &mut tw).await
			} else {
				PMTilesWriter::write_to_writer(&mut src, &mut tw).await
			}
		})
	});
	match wr {
		Err(p) => {
			rep.violation(&p.signature(&format!("write-{format}")), "writer panicked", json!({"tileset": ts.describe(), "panic": p.describe()}));
			return;
		}
		Ok(Err(e)) => {
			rep.inconclusive(&format!("writer failed: {e:#}"));
			return;
		}
		Ok(Ok(())) => {}
	}
	let ops = tw.ops;
	let n = ops.len();
	rep.count(&format!("traces_{format}"), 1);
	rep.count("operations_traced", n as u64);
	let trace_fp = ts.fingerprint() ^ fnv(format.as_bytes());

	// the complete file: positive control
	let mut full = Vec::new();
	for Op::Write { pos, data } in &ops {
		apply(&mut full, *pos, data);
	}
	if format == "pmtiles" {
		if let Ok((_, info)) = crate::codec::ipm::decode_info(&full) {
			if info.leaf_dirs > 0 {
				rep.count("traces_with_leaf_directories", 1);
			}
		}
	}
	match try_image(format, &full, &ts) {
		Outcome::OpenedIntact => rep.count("complete_images_opened_and_intact", 1),
		Outcome::Rejected => rep.violation(&format!("{format}|complete-file-rejected"), "the completely written file does not open", json!({"tileset": ts.describe()})),
		Outcome::OpenedWrong(e) => rep.violation(&format!("{format}|complete-file-wrong"), "the completely written file misreports tiles", json!({"tileset": ts.describe(), "what": e})),
		Outcome::Panicked(p) => rep.violation(&p.signature(&format!("open-{format}")), "reader panicked on the complete file", json!({"panic": p.describe()})),
	}

	// enumerate crash points
	let mut image: Vec<u8> = Vec::new();
	let mut opened_partial = 0u64;
	let mut bad = 0;
	// for big traces the byte cuts of the (tiny) tile operations are thinned out
	let thin = n > 3000;
	for k in 0..=n {
		if bad > 8 {
			break;
		}
		// image after k complete operations
		if k % 500 == 0 {
			cx.progress(&format!("{format} op {k}/{n}"));
		}
		let mut points: Vec<(Option<usize>, Vec<u8>)> = vec![];
		// (the two traces with > 16384 tiles are thinned: every 50th prefix plus the first 20 and last 300)
		if (k < n || n == 0) && (!thin || k % 50 == 0 || k < 20 || k + 300 >= n) {
			points.push((None, image.clone()));
		}
		if k < n {
			let Op::Write { pos, data } = &ops[k];
			let near_end = k + 4 >= n;
			if !(thin && k + 300 < n) {
				for c in cuts(data.len(), near_end) {
					let mut img = image.clone();
					apply(&mut img, *pos, &data[..c]);
					points.push((Some(c), img));
				}
			}
		}
		for (cut, img) in points {
			rep.eval();
			rep.count("crash_points", 1);
			if !(k == 0 && cut.is_none()) {
				rep.nontrivial(trace_fp ^ fnv(format!("{k}/{cut:?}").as_bytes()));
			}
			let w = || {
				json!({"format": format, "tileset": ts.describe(), "operations_total": n, "completed_operations": k, "byte_cut_in_next_operation": cut,
				"next_operation": ops.get(k).map(|Op::Write{pos,data}| format!("write {} bytes at {}", data.len(), pos)), "image_len": img.len()})
			};
			match try_image(format, &img, &ts) {
				Outcome::Rejected => rep.count("images_rejected", 1),
				Outcome::OpenedIntact => {
					opened_partial += 1;
					rep.count("partial_images_opened_and_intact", 1);
				}
				Outcome::OpenedWrong(e) => {
					bad += 1;
					let class = if k + 1 >= n { "torn-final-operation" } else { "prefix" };
					let mut wj = w();
					wj["what"] = json!(e);
					rep.violation(&format!("{format}|opens-but-wrong|{class}"), "an interrupted write left a file that opens as a valid container but lacks / misreports tiles", wj);
				}
				Outcome::Panicked(p) => {
					// not a C12 violation (the file is not accepted), but recorded
					rep.count("images_on_which_the_reader_panicked", 1);
					rep.note(&format!("reader panic on a crash image: {}", p.signature("open")));
				}
			}
		}
		if k < n {
			let Op::Write { pos, data } = &ops[k];
			apply(&mut image, *pos, data);
		}
	}
	// writing stops because one operation fails (EIO, a momentarily full disk): the f-th operation returns an
	// error and writes nothing. Whatever the writer does next — give up, panic, carry on — the bytes it leaves
	// must not be accepted as a container that lacks tiles
	if n <= 3000 {
		let mut fs: Vec<usize> = if n <= 60 { (0..n).collect() } else { (0..60).map(|_| rng.usize_below(n)).collect() };
		fs.extend([0, n.saturating_sub(1), n.saturating_sub(2), n / 2]);
		fs.sort();
		fs.dedup();
		for f in fs {
			let mut src = MemSource::new(&ts);
			let mut fw = FaultWriter { image: vec![], pos: 0, count: 0, fail_at: f };
			let res = guard::catch_strict_thread(|| {
				guard::block_on(async {
					if format == "versatiles" {
						VersaTilesWriter::write_to_writer(&mut src, &mut fw).await
					} else {
						PMTilesWriter::write_to_writer(&mut src, &mut fw).await
					}
				})
			});
			rep.eval();
			rep.count("failed_operation_points", 1);
			rep.count(match &res { Ok(Ok(())) => "writer_reported_success_after_a_failed_operation", Ok(Err(_)) => "writer_returned_the_error", Err(_) => "writer_panicked_on_the_error" }, 1);
			match try_image(format, &fw.image, &ts) {
				Outcome::Rejected => rep.count("images_rejected", 1),
				Outcome::OpenedIntact => rep.count("images_after_a_failed_operation_opened_and_intact", 1),
				Outcome::OpenedWrong(e) => {
					rep.violation(&format!("{format}|opens-but-wrong|failed-operation"), "writing stopped being complete at a failed operation, yet the file opens as a valid container that lacks / misreports tiles",
						json!({"format": format, "tileset": ts.describe(), "operations_total": n, "failed_operation": f, "writer_result": match &res { Ok(Ok(())) => "Ok".to_string(), Ok(Err(e)) => format!("Err({e:#})"), Err(p) => format!("panic: {}", p.describe()) }, "what": e}));
					break;
				}
				Outcome::Panicked(p) => {
					rep.count("images_on_which_the_reader_panicked", 1);
					rep.note(&format!("reader panic on an image after a failed operation: {}", p.signature("open")));
				}
			}
		}
	}
	if rep.wants_sample() {
		rep.sample(json!({"format": format, "tileset": ts.describe(), "operations": n, "first_operations": ops.iter().take(5).map(|Op::Write{pos,data}| format!("write {} bytes at {}", data.len(), pos)).collect::<Vec<_>>(),
			"last_operations": ops.iter().rev().take(3).map(|Op::Write{pos,data}| format!("write {} bytes at {}", data.len(), pos)).collect::<Vec<_>>(), "partial_images_that_opened_intact": opened_partial}));
	}
}
