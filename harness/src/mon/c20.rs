//! C20 — the bounded cache is transparent and stays within its capacity.
//!
//! History monitor: random operation histories over small key spaces are applied to the real
//! `LimitedCache<u64,u64>` and to a map model; after every operation the observable state
//! (`Debug` output: length / max_length, return values) is checked.

use crate::guard;
use crate::report::{Plan, Report, Tier};
use crate::rng::fnv;
use crate::shard::{CaseCtx, MonitorDef};
use serde_json::json;
use std::collections::{HashMap, HashSet};
use versatiles_core::types::LimitedCache;

pub fn def() -> MonitorDef {
	MonitorDef { id: "C20", plan, run_case, finalize }
}

const CAPS: u64 = 64;

fn histories_per_cap(tier: Tier) -> u64 {
	tier.pick(4, 24)
}

fn plan(tier: Tier, _seed: u64) -> Plan {
	Plan {
		cases: CAPS * histories_per_cap(tier) + if matches!(tier, Tier::Thorough) { 1 } else { 0 },
		shards: 12,
		case_timeout_s: 300,
		level: "exploration",
		rule: "one case = (capacity 1..64, key-space size 2..3*capacity, operation mix, history of 10^3..10^5 operations from {add, get, get_or_set(Ok), get_or_set(Err)} with values unique per insertion). Non-trivial: the history passed through at least 3 evictions; distinct by (capacity, key space, seed of the history)".into(),
		assumptions: vec![
			"length and max_length are read from the cache's Debug output".into(),
			"'just used' = the entry most recently returned by a hit (get, get_or_set, or add of a key that is already cached) or created by an insertion; the survival clause is asserted for capacity >= 2 only (capacity 1 cannot keep it and admit a new entry)".into(),
		],
		min_evaluations: 50_000,
		exhaustive: false,
		timeouts_excluded: false,
	}
}

fn finalize(_t: Tier, _p: &Plan, rep: &mut Report) {
	if rep.counter("evictions") < 100 {
		rep.inconclusive("fewer than 100 evictions observed");
	}
	if rep.counter("survival_checks") < 100 {
		rep.inconclusive("fewer than 100 just-used-survives checks");
	}
}

/// The cache under test, keyed by a type whose `Hash` is coarser than its `Eq` (the hash sees only `key % 7`,
/// which the Hash / Eq contract allows): keys that differ must stay different entries whatever their hashes.
#[derive(Clone, Copy, PartialEq, Eq)]
struct CoarseKey(u64);
impl std::hash::Hash for CoarseKey {
	fn hash<H: std::hash::Hasher>(&self, h: &mut H) {
		(self.0 % 7).hash(h)
	}
}
struct Cache(LimitedCache<CoarseKey, u64>);
impl Cache {
	fn with_maximum_size(size: usize) -> Cache {
		Cache(LimitedCache::with_maximum_size(size))
	}
	fn get(&mut self, k: &u64) -> Option<u64> {
		self.0.get(&CoarseKey(*k))
	}
	fn add(&mut self, k: u64, v: u64) -> u64 {
		self.0.add(CoarseKey(k), v)
	}
	fn get_or_set<F: FnOnce() -> anyhow::Result<u64>>(&mut self, k: &u64, f: F) -> anyhow::Result<u64> {
		self.0.get_or_set(&CoarseKey(*k), f)
	}
}
impl std::fmt::Debug for Cache {
	fn fmt(&self, f: &mut std::fmt::Formatter<'_>) -> std::fmt::Result {
		self.0.fmt(f)
	}
}

fn debug_fields(c: &Cache) -> Option<(usize, usize)> {
	// "LimitedCache { length: 3, max_length: 4, last_index: 17 }"
	let s = format!("{c:?}");
	let grab = |key: &str| -> Option<usize> {
		let p = s.find(key)? + key.len();
		let rest = &s[p..];
		let end = rest.find(|ch: char| !ch.is_ascii_digit()).unwrap_or(rest.len());
		rest[..end].parse().ok()
	};
	Some((grab("length: ")?, grab("max_length: ")?))
}

#[derive(Clone, Copy, Debug)]
enum Op {
	Add(u64),
	Get(u64),
	LoadOk(u64),
	LoadErr(u64),
}

/// the first steps of every history run without any extra read on the cache under test: a read is a use, and
/// reads of the monitor's own would keep refreshing exactly the entries whose age matters. Whatever needs a
/// read (read-your-write, survival of the entry used last, absence after a failed load) is asked of a *twin*
/// rebuilt from the recorded operations.
const PURE_STEPS: usize = 12_000;
const MAX_TWINS: usize = 500;

fn twin(size: usize, ops: &[(Op, u64)]) -> Cache {
	let mut c: Cache = Cache::with_maximum_size(size);
	for (op, v) in ops {
		match op {
			Op::Add(k) => {
				c.add(*k, *v);
			}
			Op::Get(k) => {
				c.get(k);
			}
			Op::LoadOk(k) => {
				let _ = c.get_or_set(k, || Ok(*v));
			}
			Op::LoadErr(k) => {
				let _ = c.get_or_set(k, || Err(anyhow::anyhow!("loader failed on purpose")));
			}
		}
	}
	c
}

/// thorough only: a cache whose access clock has passed 2^32 (as it does in a long-lived server) still evicts,
/// keeps its bound and keeps the entry used last
fn long_clock_case(cx: &CaseCtx, rep: &mut Report) {
	cx.progress("access clock beyond 2^32");
	let r = guard::catch_strict_thread(|| {
		let mut cache: Cache = Cache::with_maximum_size(16 * 3);
		cache.add(1, 100);
		cache.add(2, 200);
		let mut n = 0u64;
		while n < (1u64 << 32) + 1000 {
			let _ = cache.get(&(1 + (n & 1)));
			n += 1;
		}
		let mut out: Vec<String> = vec![];
		for k in 3..40u64 {
			let prev = k - 1;
			let _ = cache.get(&prev);
			cache.add(k, k * 100);
			let (l, m) = debug_fields(&cache).unwrap_or((usize::MAX, 0));
			if l > m {
				out.push(format!("after add({k}): {l} entries, capacity {m}"));
				break;
			}
			if cache.get(&prev).is_none() {
				out.push(format!("key {prev} was read right before add({k}) and is gone"));
				break;
			}
			if cache.get(&k) != Some(k * 100) {
				out.push(format!("key {k} is not readable after add"));
				break;
			}
		}
		out
	});
	rep.evals(1u64 << 32);
	rep.count("histories_with_a_clock_beyond_2^32", 1);
	match r {
		Err(p) => rep.violation(&p.signature("limited_cache"), "cache operation panicked", json!({"panic": p.describe()})),
		Ok(v) => {
			if let Some(first) = v.first() {
				rep.violation("long-clock|bound-or-survival", "after 2^32 accesses the cache no longer keeps its bound / the entry used last", json!({"what": first}));
			}
		}
	}
}

fn run_case(cx: &CaseCtx, rep: &mut Report) {
	if cx.case >= CAPS * histories_per_cap(cx.tier) {
		long_clock_case(cx, rep);
		return;
	}
	let mut rng = cx.rng();
	let cap = (cx.case % CAPS) + 1;
	let variant = cx.case / CAPS;
	let keys = match variant % 4 {
		0 => 2.max(cap + 1),
		1 => 2 * cap + 1,
		2 => 3 * cap,
		_ => rng.range(2, 3 * cap),
	};
	let len = match variant % 3 {
		0 => 1_000,
		1 => 10_000,
		_ => cx.tier.pick(20_000, 100_000),
	};
	let len = if cx.tier.is_tiny() { 250 } else { len };
	let mix = (rng.range(1, 6), rng.range(1, 6), rng.range(1, 6), rng.range(0, 2)); // add, get, loadok, loaderr weights
	cx.progress(&format!("cap={cap} keys={keys} len={len}"));

	PREV.with(|p| *p.borrow_mut() = None);
	let r = guard::catch_strict_thread(|| {
		let slack = rng.below(16) as usize; // maximum_size need not be a multiple of the element size
		let size = 16 * cap as usize + slack;
		let mut cache: Cache = Cache::with_maximum_size(size);
		let mut pure_ops: Vec<(Op, u64)> = Vec::new();
		let mut twins = 0usize;
		let mut ever: HashMap<u64, HashSet<u64>> = HashMap::new();
		// the value of the live entry of a key, as far as the return values of the operations tell: whatever add /
		// get_or_set returned last. A later hit on that key has to return exactly it.
		let mut current: HashMap<u64, u64> = HashMap::new();
		let mut next_val = 1u64;
		let mut evictions = 0u64;
		let mut max_len_seen = 0usize;
		let mut last_used: Option<u64> = None;
		let mut hist: Vec<Op> = Vec::new();
		let (len0, maxl) = debug_fields(&cache).unwrap_or((usize::MAX, 0));
		if len0 != 0 || maxl != cap as usize {
			rep.violation("capacity|max_length", "max_length differs from maximum_size / element size", json!({"cap": cap, "debug": format!("{cache:?}")}));
		}
		let total_w = mix.0 + mix.1 + mix.2 + mix.3;
		let mut bad = 0;
		for step in 0..len {
			let k = rng.below(keys);
			let w = rng.below(total_w);
			let op = if w < mix.0 {
				Op::Add(k)
			} else if w < mix.0 + mix.1 {
				Op::Get(k)
			} else if w < mix.0 + mix.1 + mix.2 {
				Op::LoadOk(k)
			} else {
				Op::LoadErr(k)
			};
			if hist.len() < 40 {
				hist.push(op);
			}
			let before = debug_fields(&cache).map(|f| f.0).unwrap_or(0);
			let mut fail = |rep: &mut Report, sig: &str, what: &str| {
				rep.violation(sig, what, json!({"cap": cap, "keys": keys, "step": step, "op": format!("{op:?}"), "history_prefix": format!("{hist:?}")}));
				bad += 1;
			};
			let mut inserted_new = false;
			match op {
				Op::Add(k) => {
					let v = next_val;
					next_val += 1;
					ever.entry(k).or_default().insert(v);
					let r = cache.add(k, v);
					if !ever[&k].contains(&r) {
						fail(rep, "add|foreign-value", "add returned a value never stored under that key");
					}
					inserted_new = r == v;
					if !inserted_new && current.get(&k) != Some(&r) {
						fail(rep, "add|stale-value", "add on a cached key returned another value than the entry's");
					}
					current.insert(k, r);
					pure_ops.push((op, v));
					// read-your-write
					let ryw = if step >= PURE_STEPS {
						Some(cache.get(&k))
					} else if step % 53 == 0 && twins < MAX_TWINS {
						twins += 1;
						Some(twin(size, &pure_ops).get(&k))
					} else {
						None
					};
					match ryw {
						None => {}
						Some(Some(g)) if g == r => {}
						_ => fail(rep, "add|not-readable", "value returned by add is not readable immediately afterwards"),
					}
					last_used_update(&mut last_used, k);
				}
				Op::Get(k) => {
					pure_ops.push((op, 0));
					match cache.get(&k) {
						None => {}
						Some(v) => {
							if !ever.get(&k).map(|s| s.contains(&v)).unwrap_or(false) {
								fail(rep, "get|foreign-value", "get returned a value never stored under that key");
							} else if current.get(&k) != Some(&v) {
								fail(rep, "get|stale-value", "get returned a value of an earlier, replaced entry of that key");
							}
							last_used = Some(k);
						}
					}
				}
				Op::LoadOk(k) => {
					let v = next_val;
					next_val += 1;
					let mut called = false;
					pure_ops.push((op, v));
					let r = cache.get_or_set(&k, || {
						called = true;
						Ok(v)
					});
					match r {
						Ok(g) => {
							if called {
								ever.entry(k).or_default().insert(v);
								if g != v {
									fail(rep, "get_or_set|miss-value", "get_or_set did not return the loader's value on a miss");
								}
								current.insert(k, g);
								inserted_new = true;
							} else if !ever.get(&k).map(|s| s.contains(&g)).unwrap_or(false) {
								fail(rep, "get_or_set|foreign-value", "get_or_set hit returned a value never stored under that key");
							} else if current.get(&k) != Some(&g) {
								fail(rep, "get_or_set|stale-value", "get_or_set hit returned a value of an earlier, replaced entry of that key");
							}
							let ryw = if step >= PURE_STEPS {
								Some(cache.get(&k))
							} else if step % 53 == 1 && twins < MAX_TWINS {
								twins += 1;
								Some(twin(size, &pure_ops).get(&k))
							} else {
								None
							};
							match ryw {
								None => {}
								Some(Some(x)) if x == g => {}
								_ => fail(rep, "get_or_set|not-readable", "value returned by get_or_set is not readable immediately afterwards"),
							}
							last_used = Some(k);
						}
						Err(_) => fail(rep, "get_or_set|spurious-error", "get_or_set failed although the loader succeeded"),
					}
				}
				Op::LoadErr(k) => {
					let mut called = false;
					pure_ops.push((op, 0));
					let r = cache.get_or_set(&k, || {
						called = true;
						Err(anyhow::anyhow!("loader failed on purpose"))
					});
					match r {
						Ok(g) => {
							if called {
								fail(rep, "get_or_set|error-swallowed", "loader error was swallowed");
							} else if !ever.get(&k).map(|s| s.contains(&g)).unwrap_or(false) {
								fail(rep, "get_or_set|foreign-value", "get_or_set hit returned a value never stored under that key");
							} else {
								last_used = Some(k);
							}
						}
						Err(e) => {
							if !called || !e.to_string().contains("on purpose") {
								fail(rep, "get_or_set|wrong-error", "error returned is not the loader's");
							}
							let after = debug_fields(&cache).map(|f| f.0).unwrap_or(0);
							if after != before {
								fail(rep, "get_or_set|error-modified-cache", "a failing loader changed the number of entries");
							}
							let stored = if step >= PURE_STEPS {
								cache.get(&k).is_some()
							} else if twins < MAX_TWINS {
								twins += 1;
								twin(size, &pure_ops).get(&k).is_some()
							} else {
								false
							};
							if stored {
								fail(rep, "get_or_set|error-stored", "a failing loader left an entry behind");
							}
						}
					}
				}
			}
			if step < PURE_STEPS && step % 211 == 17 && twins < MAX_TWINS {
				// how many keys answer? (asked of a twin; a lookup creates nothing, so the count is a lower bound of what
				// the cache holds and may not exceed its capacity)
				twins += 1;
				let mut t = twin(size, &pure_ops);
				let present = (0..keys).filter(|k| t.get(k).is_some()).count();
				rep.count("presence_censuses", 1);
				if present > cap as usize {
					fail(rep, "bound|more-keys-answer-than-capacity", "more distinct keys are answered than the capacity allows");
				}
			}
			match debug_fields(&cache) {
				Some((l, m)) => {
					max_len_seen = max_len_seen.max(l);
					if l > m || m != cap as usize {
						fail(rep, "bound|length>max", "cache holds more entries than its capacity allows");
					}
					// an eviction happened: a new entry came in without the length growing, or the length shrank
					if (inserted_new && l <= before && before > 0) || l < before {
						evictions += 1;
						// the entry used immediately before this insertion must have survived
						if let Some(prev) = prev_used(&last_used, &op) {
							if cap >= 2 && (step >= PURE_STEPS || twins < MAX_TWINS) {
								rep.count("survival_checks", 1);
								let survived = if step >= PURE_STEPS {
									cache.get(&prev).is_some()
								} else {
									twins += 1;
									rep.count("survival_checks_without_touching_the_cache", 1);
									twin(size, &pure_ops).get(&prev).is_some()
								};
								if !survived {
									fail(rep, &format!("survival|cap={}", if cap == 2 { "2" } else { ">=3" }), "the entry that was just used did not survive the next eviction");
								} else if step >= PURE_STEPS {
									// the probe itself is a use: `prev` is now the most recently used entry
									last_used = Some(prev);
								}
							}
						}
					}
				}
				None => fail(rep, "debug|unparsable", "Debug output lacks length / max_length"),
			}
			if bad > 20 {
				break;
			}
			// remember what was used by this op for the next step's survival clause
			PREV.with(|p| *p.borrow_mut() = last_used);
		}
		// never-added keys are absent
		for k in keys..keys + 4 {
			if cache.get(&k).is_some() {
				rep.violation("get|phantom", "get returned a value for a key that was never added", json!({"cap": cap, "key": k}));
			}
		}
		rep.evals(len as u64);
		rep.count("evictions", evictions);
		rep.count("histories", 1);
		rep.max("length_seen", max_len_seen as u64);
		rep.label("capacities", &cap.to_string());
		if evictions >= 3 {
			rep.nontrivial(fnv(format!("{cap}/{keys}/{}/{}", cx.seed, cx.case).as_bytes()));
		}
		if rep.wants_sample() && evictions > 0 {
			rep.sample(json!({"capacity": cap, "key_space": keys, "operations": len, "evictions": evictions, "history_prefix": format!("{hist:?}")}));
		}
	});
	if let Err(p) = r {
		rep.violation(&p.signature("limited_cache"), "cache operation panicked", json!({"cap": cap, "keys": keys, "panic": p.describe()}));
	}
}

thread_local! {
	static PREV: std::cell::RefCell<Option<u64>> = std::cell::RefCell::new(None);
}

fn last_used_update(last_used: &mut Option<u64>, k: u64) {
	*last_used = Some(k);
}

/// the key that was "just used" before the current (inserting) operation
fn prev_used(_now: &Option<u64>, op: &Op) -> Option<u64> {
	let prev = PREV.with(|p| *p.borrow());
	let key = match op {
		Op::Add(k) | Op::Get(k) | Op::LoadOk(k) | Op::LoadErr(k) => *k,
	};
	match prev {
		Some(p) if p != key => Some(p),
		_ => None,
	}
}
