//! C03 — the advertised coverage pyramid contains every tile a source can return.
//!
//! Every tile obtained from a source — by lookups over stored coordinates, neighbours, rings
//! around the advertised boxes, all of zoom <= 3 and random coordinates, or by streams over boxes
//! larger than the advertised ones — must lie inside the advertised per-level boxes. For mbtiles,
//! pmtiles, tar and directory readers each level box must be exactly the bounding box of the
//! tiles stored on that level (own and foreign encodings).

use crate::check::kstr;
use crate::gen::{coord_of, key_of, Key};
use crate::guard;
use crate::report::{Plan, Report, Tier};
use crate::rng::{fnv, Rng};
use crate::shard::{CaseCtx, MonitorDef};
use crate::sources::{self, KINDS};
use serde_json::json;
use std::collections::{BTreeMap, BTreeSet};
use versatiles_core::types::*;

pub fn def() -> MonitorDef {
	MonitorDef { id: "C03", plan, run_case, finalize }
}

fn plan(tier: Tier, _seed: u64) -> Plan {
	Plan {
		cases: KINDS as u64 * tier.pick(10, 120),
		shards: 14,
		case_timeout_s: 600,
		level: "exploration",
		rule: "one case = one source (container readers over own and foreign encodings of irregular tile sets — off-centre extremes, rings, L shapes, single tiles, level 0 / 31 borders, zoom gaps — the converting reader, every pipeline operation). One evaluation = one lookup or one streamed tile tested against the advertised pyramid, or one level box compared exactly. Non-trivial: the source has >= 3 tiles whose bounding box is not completely filled; distinct by source fingerprint".into(),
		assumptions: vec!["'can return' is explored by lookups on a probe set and by streams over widened boxes, not by enumerating all 2^62 coordinates".into()],
		min_evaluations: 20_000,
		exhaustive: false,
		timeouts_excluded: false,
	}
}

fn finalize(_t: Tier, _p: &Plan, rep: &mut Report) {
	for f in ["mbtiles", "pmtiles", "tar", "directory"] {
		if rep.counter(&format!("level_boxes_compared_exactly_{f}")) == 0 {
			rep.inconclusive(&format!("no exact level box comparison for {f}"));
		}
	}
	if rep.counter("tiles_returned_and_tested") < 1000 {
		rep.inconclusive("fewer than 1000 returned tiles tested");
	}
}

fn run_case(cx: &CaseCtx, rep: &mut Report) {
	let mut rng = cx.rng();
	let kind = (cx.case % KINDS as u64) as usize;
	let kname = sources::kind_name(kind);
	cx.progress(&format!("build {kname}"));
	let dir = cx.fresh_dir("c03");
	let b = match guard::catch(|| sources::build_source(&mut rng, kind, &dir, cx.tier.pick(500, 1500))) {
		Err(p) => {
			rep.violation(&p.signature(&format!("build-{kname}")), "building / opening the source panicked", json!({"source": kname, "panic": p.describe()}));
			return;
		}
		Ok(Err(e)) => {
			rep.violation(&format!("{kname}|build-failed"), "a valid source could not be built / opened", json!({"source": kname, "error": e}));
			return;
		}
		Ok(Ok(b)) => b,
	};
	let pyramid = b.reader.get_parameters().bbox_pyramid.clone();
	let witness = |extra: serde_json::Value| json!({"source": kname, "source_detail": b.describe, "advertised": format!("{pyramid:?}"), "detail": extra});
	let heavy = kname.contains("from_debug");

	// lookups
	let known_map: BTreeMap<Key, Vec<u8>> = b.known.iter().map(|k| (*k, vec![])).collect();
	let mut probes = crate::check::probe_set(&known_map, &mut rng, if heavy { 3 } else { 40 });
	if heavy {
		probes = probes.into_iter().filter(|k| k.0 <= 2).collect();
		// a generating source has tiles on every level: its deepest ones are part of what it "can return"
		let m31 = u32::MAX >> 1;
		probes.extend([(31u8, 0u32, 0u32), (31, m31, m31), (31, 1153675936 & m31, 704474368), (30, 5, 7), (30, m31 >> 1, 0)]);
	}
	if kname.ends_with("pmtiles") {
		// PMTiles addresses tiles by one running id: coordinates whose id lies a multiple of 2^32 (2^16, 2^24) behind a
		// stored tile — far outside the coverage, but "near" in any arithmetic that narrows ids
		let ids: Vec<u64> = b.known.iter().map(|k| crate::codec::ipm::zxy_to_id(k.0, k.1, k.2)).collect();
		let mut picks: Vec<u64> = vec![];
		if let (Some(a), Some(z)) = (ids.iter().min(), ids.iter().max()) {
			picks.extend([*a, *z]);
		}
		for _ in 0..6 {
			if !ids.is_empty() {
				picks.push(*rng.pick(&ids));
			}
		}
		for id in picks {
			for d in [1u64 << 32, 2u64 << 32, 1u64 << 16, 1u64 << 24, (1u64 << 32) + 1, (1u64 << 33) - 1] {
				if let Some(k) = id.checked_add(d).and_then(crate::codec::ipm::id_to_zxy) {
					probes.insert(k);
				}
			}
		}
		rep.count("pmtiles_probes_at_far_ids", 1);
	}
	let reader = &b.reader;
	let fut = async {
		let mut v = vec![];
		for k in &probes {
			if let Ok(Some(_)) = reader.get_tile_data(&coord_of(k)).await {
				v.push(*k);
			}
		}
		v
	};
	let mut returned: BTreeSet<Key> = BTreeSet::new();
	match guard::catch(|| guard::block_on(fut)) {
		Err(p) => rep.violation(&p.signature(&format!("lookup-{kname}")), "a lookup panicked", witness(json!({"panic": p.describe()}))),
		Ok(v) => {
			rep.evals(probes.len() as u64);
			returned.extend(v);
		}
	}
	// streams over boxes wider than advertised, and over whole small levels
	let mut boxes: Vec<TileBBox> = vec![];
	for lb in pyramid.iter_levels() {
		let mut w = lb.clone();
		w.add_border(2, 2, 2, 2);
		if w.count_tiles() <= 70_000 && !(heavy && w.count_tiles() > 16) {
			boxes.push(w);
		}
	}
	let mut levels: BTreeSet<u8> = b.known.iter().map(|k| k.0).collect();
	levels.extend([0u8, 1, 2]);
	for z in levels {
		if z <= if heavy { 1 } else { 6 } {
			boxes.push(TileBBox::new_full(z).unwrap());
		} else if !heavy {
			// around the known tiles of a level the source may not advertise at all
			let ks: Vec<&Key> = b.known.iter().filter(|k| k.0 == z).collect();
			if let (Some(a), Some(c)) = (ks.first(), ks.last()) {
				let m = ((1u64 << z) - 1) as u32;
				let bb = TileBBox::new(z, a.1.min(c.1).saturating_sub(2), a.2.min(c.2).saturating_sub(2), (a.1.max(c.1) as u64 + 2).min(m as u64) as u32, (a.2.max(c.2) as u64 + 2).min(m as u64) as u32).unwrap();
				if bb.count_tiles() <= 70_000 {
					boxes.push(bb);
				}
			}
		}
	}
	for bbox in boxes {
		let fut = async { reader.get_bbox_tile_stream(bbox.clone()).await.collect().await };
		match guard::catch(|| guard::block_on(fut)) {
			Err(p) => {
				rep.violation(&p.signature(&format!("stream-{kname}")), "a stream panicked", witness(json!({"bbox": format!("{bbox:?}"), "panic": p.describe()})));
				break;
			}
			Ok(items) => {
				rep.evals(items.len() as u64 + 1);
				for (c, _) in items {
					returned.insert(key_of(&c));
				}
			}
		}
	}
	rep.count("tiles_returned_and_tested", returned.len() as u64);
	let mut outside = 0;
	for k in &returned {
		if !pyramid.contains_coord(&coord_of(k)) {
			outside += 1;
			if outside <= 3 {
				rep.violation(&format!("{kname}|returned-tile-outside-coverage"), "a source returned a tile that lies outside the coverage it advertises", witness(json!({"tile": kstr(k), "level_box": format!("{:?}", pyramid.get_level_bbox(k.0))})));
			}
		}
	}

	// exact level boxes for the formats that derive coverage from the stored tiles
	let derived = ["mbtiles", "pmtiles", "tar", "directory"].iter().find(|f| kind < 10 && kname.ends_with(*f));
	if let (Some(fmt), Some(model)) = (derived, &b.model) {
		let mut bounds: BTreeMap<u8, (u32, u32, u32, u32)> = BTreeMap::new();
		for k in model.keys() {
			let e = bounds.entry(k.0).or_insert((k.1, k.2, k.1, k.2));
			*e = (e.0.min(k.1), e.1.min(k.2), e.2.max(k.1), e.3.max(k.2));
		}
		for z in 0..32u8 {
			let lb = pyramid.get_level_bbox(z);
			rep.eval();
			let ok = match bounds.get(&z) {
				None => lb.is_empty(),
				Some(bb) => {
					rep.count(&format!("level_boxes_compared_exactly_{fmt}"), 1);
					!lb.is_empty() && (lb.x_min, lb.y_min, lb.x_max, lb.y_max) == *bb
				}
			};
			if !ok {
				rep.violation(&format!("{kname}|level-box-not-exact"), "advertised level box is not the bounding box of the tiles stored on that level", witness(json!({"level": z, "advertised": format!("{lb:?}"), "stored_bounds": format!("{:?}", bounds.get(&z))})));
			}
		}
		let area: u64 = bounds.values().map(|b| (b.2 - b.0 + 1) as u64 * (b.3 - b.1 + 1) as u64).sum();
		if model.len() >= 3 && (model.len() as u64) < area {
			rep.nontrivial(fnv(b.describe.to_string().as_bytes()));
		}
	} else if b.known.len() >= 3 {
		rep.nontrivial(fnv(b.describe.to_string().as_bytes()));
	}
	if rep.wants_sample() && returned.len() > 3 {
		rep.sample(json!({"source": kname, "advertised": format!("{pyramid:?}"), "tiles_returned": returned.len(), "detail": b.describe}));
	}
	if kind < 10 {
		drop(b.reader);
		regenerated(cx, rep, &mut rng, kind, &dir);
	}
	let _ = std::fs::remove_dir_all(&dir);
}

/// A container is regenerated under the name it already has (a repeated conversion into the same target, rows
/// moved by another SQLite client): generation g differs from g-1 by one tile per level that moved outside the
/// old level box — same payloads, same encoder choices, so the file keeps its size. Every generation is opened
/// by a new reader in this process; what that reader advertises has to fit the file as it is now.
fn regenerated(cx: &CaseCtx, rep: &mut Report, rng: &mut Rng, kind: usize, dir: &std::path::Path) {
	let target = crate::mon::c01::TARGETS[kind % 5];
	let kname = sources::kind_name(kind);
	let sub = dir.join("regen");
	let mut ts = sources::gen_for(rng, target, cx.tier.pick(200, 500), false, false);
	let enc_rng = rng.clone();
	let mut sizes: Vec<u64> = vec![];
	for generation in 0..3u32 {
		if generation > 0 {
			// one tile per level leaves the old box
			let mut moved = 0;
			for (z, bb) in ts.bounds() {
				let m = ((1u64 << z) - 1) as u32;
				let Some(k) = ts.tiles.keys().filter(|k| k.0 == z).next_back().cloned() else { continue };
				let to = if bb.2 < m { (z, bb.2 + 1, k.2) } else if bb.0 > 0 { (z, bb.0 - 1, k.2) } else if bb.3 < m { (z, k.1, bb.3 + 1) } else { continue };
				if let Some(v) = ts.tiles.remove(&k) {
					ts.tiles.insert(to, v);
					moved += 1;
				}
			}
			if moved == 0 {
				return;
			}
		}
		let path = crate::mon::c01::container_path(&sub, target);
		if target == "directory" {
			let _ = std::fs::remove_dir_all(&path);
		}
		let _ = std::fs::create_dir_all(&sub);
		let mut r = enc_rng.clone();
		let written = guard::catch(|| if kind < 5 { sources::write_own(&ts, target, &sub) } else { sources::write_foreign(&ts, target, &sub, &mut r) });
		let path = match written {
			Ok(Ok(p)) => p,
			Ok(Err(e)) => {
				if generation == 0 {
					rep.inconclusive(&format!("regeneration fixture could not be written: {e}"));
				} else {
					rep.violation(&format!("{kname}|regenerate|write-failed"), "writing a container over an older generation of itself failed", json!({"source": kname, "generation": generation, "error": e}));
				}
				return;
			}
			Err(p) => {
				rep.violation(&p.signature(&format!("regenerate-{kname}")), "writing a container over an older generation of itself panicked", json!({"source": kname, "generation": generation, "panic": p.describe()}));
				return;
			}
		};
		sizes.push(if path.is_file() { std::fs::metadata(&path).map(|m| m.len()).unwrap_or(0) } else { 0 });
		let reader = match guard::catch(|| sources::open(&path)) {
			Ok(Ok(r)) => r,
			Ok(Err(e)) => {
				rep.violation(&format!("{kname}|regenerate|open-failed"), "a regenerated container cannot be opened", json!({"source": kname, "generation": generation, "error": e}));
				return;
			}
			Err(p) => {
				rep.violation(&p.signature(&format!("regenerate-open-{kname}")), "opening a regenerated container panicked", json!({"source": kname, "generation": generation, "panic": p.describe()}));
				return;
			}
		};
		let pyramid = reader.get_parameters().bbox_pyramid.clone();
		let witness = |extra: serde_json::Value| json!({"source": kname, "generation": generation, "file_sizes_so_far": sizes, "tileset": ts.describe(), "advertised": format!("{pyramid:?}"), "detail": extra});
		let keys: Vec<Key> = ts.tiles.keys().cloned().collect();
		let rd = &reader;
		let fut = async {
			let mut v = vec![];
			for k in &keys {
				if let Ok(Some(_)) = rd.get_tile_data(&coord_of(k)).await {
					v.push(*k);
				}
			}
			v
		};
		match guard::catch(|| guard::block_on(fut)) {
			Err(p) => rep.violation(&p.signature(&format!("regenerate-lookup-{kname}")), "a lookup panicked", witness(json!({"panic": p.describe()}))),
			Ok(v) => {
				rep.evals(keys.len() as u64);
				rep.count("tiles_returned_and_tested", v.len() as u64);
				if generation > 0 {
					rep.count("regenerated_containers_checked", 1);
				}
				let mut n = 0;
				for k in v {
					if !pyramid.contains_coord(&coord_of(&k)) {
						n += 1;
						if n <= 2 {
							rep.violation(&format!("{kname}|regenerated|returned-tile-outside-coverage"), "a reader opened on a regenerated container returned a tile outside the coverage it advertises", witness(json!({"tile": kstr(&k), "level_box": format!("{:?}", pyramid.get_level_bbox(k.0))})));
						}
					}
				}
			}
		}
		if ["mbtiles", "pmtiles", "tar", "directory"].contains(&target) {
			let bounds = ts.bounds();
			for z in 0..32u8 {
				let lb = pyramid.get_level_bbox(z);
				rep.eval();
				let ok = match bounds.get(&z) {
					None => lb.is_empty(),
					Some(bb) => !lb.is_empty() && (lb.x_min, lb.y_min, lb.x_max, lb.y_max) == *bb,
				};
				if !ok {
					rep.violation(&format!("{kname}|regenerated|level-box-not-exact"), "a reader opened on a regenerated container advertises a level box that is not the bounding box of the tiles now stored", witness(json!({"level": z, "advertised": format!("{lb:?}"), "stored_bounds": format!("{:?}", bounds.get(&z))})));
					break;
				}
			}
		}
		drop(reader);
	}
	if sizes.len() == 3 && sizes[1] == sizes[2] && sizes[1] > 0 {
		rep.count("regenerations_with_unchanged_file_size", 1);
	}
}
