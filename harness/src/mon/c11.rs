//! C11 — updating vector-tile properties leaves everything else in the tile untouched;
//! decoding and re-encoding a valid vector tile preserves its content.
//!
//! (a) `VectorTile::from_blob -> to_blob` on tiles from the independent encoder (duplicate /
//! unused table entries, all integer encodings incl. extreme values, unknown geometry types, ids
//! up to 2^64-1, extents / versions); canonical forms must be equal.
//! (b) `vectortiles_update_properties` with a generated CSV: model of the join on the canonical form.

use crate::check::kstr;
use crate::codec::imvt::{self, CFeature, CLayer, CTile, CVal};
use crate::comp;
use crate::gen::{coord_of, key_of, Key};
use crate::guard;
use crate::mvtsrc::{gen_csv, gen_vector_sets, update_vpl, CsvSpec, UpdateArgs};
use crate::pipe::{self, Sources, Src};
use crate::report::{Plan, Report, Tier};
use crate::rng::{fnv, Rng};
use crate::shard::{CaseCtx, MonitorDef};
use serde_json::json;
use std::collections::BTreeMap;
use versatiles_core::types::*;
use versatiles_geometry::vector_tile::VectorTile;

pub fn def() -> MonitorDef {
	MonitorDef { id: "C11", plan, run_case, finalize }
}

fn plan(tier: Tier, _seed: u64) -> Plan {
	Plan {
		cases: tier.pick(240, 3000),
		shards: 14,
		case_timeout_s: 600,
		level: "exploration",
		rule: "even cases: decode/re-encode round trip of ~40 generated tiles each (1..4 layers, 0..6 features, every value type, int64 / sint64 / uint64 incl. |v| >= 2^62 and 2^64-1, float / double incl. -0.0, strings over Unicode, duplicate and unused key / value table entries, foreign field order, unknown geometry type, ids up to 2^64-1, extents / versions, empty geometry, features without tags). Odd cases: vectortiles_update_properties over a source of such tiles with a generated CSV (ids as strings or integers) x {merge, replace} x remove_non_matching x include_id, compared with the join model through lookups and streams. Non-trivial: a tile with >= 2 features in the named layer of which some match and some do not, or a round-trip tile with duplicate table entries / extreme integers; distinct by tile content".into(),
		assumptions: vec![
			"CSV cells are typed as the data-file reader documents: true/false -> bool, decimal -> double, integer -> (u)int, everything else string; integers are compared by value".into(),
			"a feature is matched through the text form of its id property (string as is, integer in decimal)".into(),
		],
		min_evaluations: 3_000,
		exhaustive: false,
		timeouts_excluded: false,
	}
}

fn finalize(_t: Tier, _p: &Plan, rep: &mut Report) {
	for k in ["roundtrip_tiles", "roundtrip_tiles_with_duplicate_table_entries", "roundtrip_tiles_with_extreme_integers", "update_tiles_checked", "update_features_matched", "update_features_unmatched", "update_features_removed", "update_tiles_without_any_match"] {
		if rep.counter(k) == 0 {
			rep.inconclusive(&format!("nothing observed for {k}"));
		}
	}
}

fn diff(got: &CTile, want: &CTile) -> Option<(String, serde_json::Value)> {
	if got.layers.len() != want.layers.len() || got.layer_names() != want.layer_names() {
		return Some(("layers".into(), json!({"got": got.layer_names(), "expected": want.layer_names()})));
	}
	for (g, w) in got.layers.iter().zip(&want.layers) {
		if let Some(d) = diff_layer(g, w, true) {
			return Some(d);
		}
	}
	None
}

fn diff_layer(g: &CLayer, w: &CLayer, header: bool) -> Option<(String, serde_json::Value)> {
	if header && (g.extent != w.extent || g.version != w.version) {
		return Some(("extent-or-version".into(), json!({"layer": w.name, "got": [g.extent, g.version], "expected": [w.extent, w.version]})));
	}
	if g.features.len() != w.features.len() {
		return Some(("feature-count".into(), json!({"layer": w.name, "got": g.features.len(), "expected": w.features.len(), "got_ids": g.features.iter().map(|f| f.id).collect::<Vec<_>>(), "expected_ids": w.features.iter().map(|f| f.id).collect::<Vec<_>>()})));
	}
	for (i, (a, b)) in g.features.iter().zip(&w.features).enumerate() {
		if a.id != b.id {
			return Some(("feature-id-or-order".into(), json!({"layer": w.name, "index": i, "got_ids": g.features.iter().map(|f| f.id).collect::<Vec<_>>(), "expected_ids": w.features.iter().map(|f| f.id).collect::<Vec<_>>()})));
		}
		if a.gtype != b.gtype {
			return Some(("geometry-type".into(), json!({"layer": w.name, "index": i, "got": a.gtype, "expected": b.gtype})));
		}
		if a.geom != b.geom {
			return Some(("geometry-bytes".into(), json!({"layer": w.name, "index": i})));
		}
		if a.props != b.props {
			return Some(("properties".into(), json!({"layer": w.name, "index": i, "got": format!("{:?}", a.props), "expected": format!("{:?}", b.props)})));
		}
	}
	None
}

fn roundtrip(cx: &CaseCtx, rep: &mut Report, rng: &mut Rng) {
	cx.progress("round trip");
	for _ in 0..(if cx.tier.is_tiny() { 3 } else { 40 }) {
		let enc = imvt::EncOpts { dup_keys: rng.chance(0.5), dup_vals: rng.chance(0.5), unused_entries: rng.chance(0.4), foreign_field_order: rng.chance(0.5), split_packed: rng.chance(0.25) };
		let go = imvt::GenOpts { extreme_values: rng.chance(0.6), wide_tables: if cx.tier.is_tiny() { 0.0 } else { 0.02 }, ..Default::default() };
		let layers = imvt::gen_layers(rng, &go);
		let bytes = imvt::encode_tile(&layers, &enc, rng);
		let want = imvt::canonical(&layers);
		// the independent codec must agree with itself (harness self-check)
		if imvt::decode(&bytes).ok().as_ref() != Some(&want) {
			rep.inconclusive("independent MVT codec does not round trip");
			return;
		}
		rep.eval();
		rep.count("roundtrip_tiles", 1);
		if imvt::has_wide_table(&layers) {
			rep.count("tiles_with_tables_beyond_16384_entries", 1);
		}
		let dup = enc.dup_keys || enc.dup_vals;
		if dup {
			rep.count("roundtrip_tiles_with_duplicate_table_entries", 1);
		}
		let extreme = want.layers.iter().any(|l| l.features.iter().any(|f| f.props.values().any(|v| matches!(v, CVal::Int(i) if i.unsigned_abs() >= 1u128 << 62))));
		if extreme {
			rep.count("roundtrip_tiles_with_extreme_integers", 1);
		}
		if dup || extreme {
			rep.nontrivial(fnv(&bytes));
		}
		let witness = |extra: serde_json::Value| json!({"encoder": format!("{enc:?}"), "tile_hex": hex(&bytes, 400), "canonical": format!("{want:?}").chars().take(1200).collect::<String>(), "detail": extra});
		let r = guard::catch(|| -> Result<Vec<u8>, String> {
			let t = VectorTile::from_blob(&Blob::from(bytes.clone())).map_err(|e| format!("from_blob: {e:#}"))?;
			Ok(t.to_blob().map_err(|e| format!("to_blob: {e:#}"))?.into_vec())
		});
		match r {
			Err(p) => rep.violation(&p.signature("vector-tile-roundtrip"), "decoding / re-encoding a valid vector tile panicked", witness(json!({"panic": p.describe()}))),
			Ok(Err(e)) => {
				let class = if e.contains("from_blob") { "valid-tile-rejected" } else { "cannot-re-encode" };
				rep.violation(&format!("roundtrip|{class}"), "a valid vector tile cannot be decoded / re-encoded", witness(json!({"error": e})));
			}
			Ok(Ok(out)) => match imvt::decode(&out) {
				Err(e) => rep.violation("roundtrip|output-not-decodable", "re-encoded tile is not a valid vector tile", witness(json!({"error": e}))),
				Ok(got) => {
					if let Some((kind, d)) = diff(&got, &want) {
						let class = if dup { "duplicate-table-entries" } else if extreme { "extreme-integers" } else { "plain" };
						rep.violation(&format!("roundtrip|{kind}|{class}"), "decoding and re-encoding changed the content of a valid vector tile", witness(d));
					}
				}
			},
		}
		if rep.wants_sample() && dup && extreme {
			rep.sample(json!({"kind": "roundtrip", "encoder": format!("{enc:?}"), "layers": want.layers.iter().map(|l| format!("{} v{} extent {} : {} features", l.name, l.version, l.extent, l.features.len())).collect::<Vec<_>>()}));
		}
	}
}

fn hex(b: &[u8], max: usize) -> String {
	b.iter().take(max).map(|x| format!("{x:02x}")).collect()
}

/// the data-file reader's typing of a CSV cell
fn csv_value(s: &str) -> CVal {
	let is_digits = |t: &str| !t.is_empty() && t.bytes().all(|c| c.is_ascii_digit());
	match s {
		"" => CVal::Str(String::new()),
		"true" => CVal::Bool(true),
		"false" => CVal::Bool(false),
		_ => {
			let body = s.strip_prefix('-').unwrap_or(s);
			if let Some((a, b)) = body.split_once('.') {
				if (a.is_empty() || is_digits(a)) && is_digits(b) {
					return CVal::F64(s.parse::<f64>().unwrap().to_bits());
				}
			}
			if s.starts_with('-') && is_digits(body) {
				return s.parse::<i64>().map(|v| CVal::Int(v as i128)).unwrap_or(CVal::Str(s.to_string()));
			}
			if is_digits(s) {
				return s.parse::<u64>().map(|v| CVal::Int(v as i128)).unwrap_or(CVal::Str(s.to_string()));
			}
			CVal::Str(s.to_string())
		}
	}
}

fn id_text(v: &CVal) -> Option<String> {
	match v {
		CVal::Str(s) => Some(s.clone()),
		CVal::Int(i) => Some(i.to_string()),
		CVal::Bool(b) => Some(b.to_string()),
		// numbers print the shortest way: 5.0 is "5"
		CVal::F64(b) => Some(format!("{}", f64::from_bits(*b))),
		CVal::F32(b) => Some(format!("{}", f32::from_bits(*b))),
	}
}

struct Stats {
	matched: u64,
	unmatched: u64,
	removed: u64,
}

fn model_update(src: &CTile, a: &UpdateArgs, csv: &CsvSpec, st: &mut Stats) -> CTile {
	let mut out = src.clone();
	for l in out.layers.iter_mut() {
		if l.name != a.layer {
			continue;
		}
		let mut kept: Vec<CFeature> = vec![];
		for f in l.features.drain(..) {
			let id = f.props.get(&a.id_field_tiles).and_then(id_text);
			let Some(id) = id else {
				kept.push(f); // no id field: left as it is
				continue;
			};
			match csv.rows.get(&id) {
				Some(row) => {
					st.matched += 1;
					let mut newp: BTreeMap<String, CVal> = row.iter().filter(|(k, _)| a.include_id || **k != csv.id_col).map(|(k, v)| (k.clone(), csv_value(v))).collect();
					let mut f = f;
					if a.replace {
						f.props = newp;
					} else {
						f.props.append(&mut newp);
					}
					kept.push(f);
				}
				None => {
					st.unmatched += 1;
					if a.remove_non_matching {
						st.removed += 1;
					} else {
						kept.push(f);
					}
				}
			}
		}
		l.features = kept;
	}
	out
}

fn update(cx: &CaseCtx, rep: &mut Report, rng: &mut Rng) {
	let dir = cx.fresh_dir("c11");
	let enc = imvt::EncOpts { dup_keys: rng.chance(0.3), dup_vals: rng.chance(0.3), unused_entries: rng.chance(0.3), foreign_field_order: rng.chance(0.5), split_packed: rng.chance(0.25) };
	let go = imvt::GenOpts { extreme_values: rng.chance(0.3), id_field: Some("osm_id".into()), max_features: 7, wide_tables: if cx.tier.is_tiny() { 0.0 } else { 0.02 }, ..Default::default() };
	let mut sets = gen_vector_sets(rng, 1, &go, false, &enc);
	if cx.tier.is_tiny() {
		sets[0].truncate(3);
	}
	let set = &sets[0];
	rep.count("tiles_with_tables_beyond_16384_entries", set.layers.values().filter(|l| imvt::has_wide_table(l)).count() as u64);
	let mut csv = gen_csv(rng);
	// now and then the data file is a named pipe whose writer delivers the table in two bursts (a table piped in
	// from another program): a read that returns less than was asked for is not the end of the file
	let piped = !cx.tier.is_tiny() && rng.chance(0.12);
	let mut pipe_writer: Option<std::thread::JoinHandle<()>> = None;
	if piped {
		let fifo = dir.join("data.csv");
		let c = std::ffi::CString::new(fifo.to_str().unwrap()).unwrap();
		// SAFETY: plain libc call with a valid C string
		if unsafe { libc::mkfifo(c.as_ptr(), 0o600) } != 0 {
			rep.inconclusive("cannot create the named pipe");
			return;
		}
		let text = csv.text.clone();
		pipe_writer = Some(std::thread::spawn(move || {
			use std::io::Write;
			let Ok(mut f) = std::fs::OpenOptions::new().write(true).open(&fifo) else { return };
			// (bytes, not characters: the middle of the text may lie inside a multi-byte character)
			let bytes = text.as_bytes();
			let cut = bytes[..bytes.len() / 2].iter().rposition(|b| *b == b'\n').map(|i| i + 1).unwrap_or(bytes.len() / 2);
			let _ = f.write_all(&bytes[..cut]);
			let _ = f.flush();
			std::thread::sleep(std::time::Duration::from_millis(300));
			let _ = f.write_all(&bytes[cut..]);
		}));
		rep.count("update_cases_with_the_table_from_a_named_pipe", 1);
	} else if std::fs::write(dir.join("data.csv"), &csv.text).is_err() {
		rep.inconclusive("cannot write the CSV fixture");
		return;
	}
	let a = UpdateArgs { layer: (*rng.pick(&["roads", "water", "places"])).to_string(), id_field_tiles: "osm_id".into(), replace: rng.bool(), remove_non_matching: rng.bool(), include_id: rng.bool() };
	let mut sources = Sources::new();
	sources.add("v0.x", Src::Mem { ts: set.tileset("v0"), pyramid: None, default_stream: rng.chance(0.3), yields: if rng.chance(0.3) { 1 } else { 0 }, open_yields: 0 });
	let vpl = update_vpl("v0.x", &a);
	cx.progress(&vpl);
	// generation 1: the data file is rewritten under the same name with other values of exactly the same byte
	// length (same ids, value cells moved to the next row) and the pipeline is built again in this process — the
	// join has to follow the file as it is when the pipeline is built
	let generations = if cx.tier.is_tiny() || piped { 1 } else { 2 };
	for generation in 0..generations {
	if generation == 1 {
		let Some(c2) = crate::mvtsrc::csv_second_generation(&csv) else { break };
		if std::fs::write(dir.join("data.csv"), &c2.text).is_err() {
			rep.inconclusive("cannot rewrite the CSV fixture");
			return;
		}
		csv = c2;
		rep.count("update_cases_with_rewritten_table", 1);
	}
	let gen_tag = if generation == 1 { "regen-" } else { "" };
	let witness = |extra: serde_json::Value| json!({"vpl": vpl, "generation": generation, "csv_head": csv.text.lines().take(6).collect::<Vec<_>>(), "source_compression": set.comp.name(), "encoder": format!("{enc:?}"), "detail": extra});
	let (reader, _) = match guard::catch(|| guard::block_on(pipe::build(&vpl, &sources, Some(&dir)))) {
		Err(p) => {
			rep.violation(&p.signature("build-update-properties"), "building the pipeline panicked", witness(json!({"panic": p.describe()})));
			return;
		}
		Ok(Err(e)) => {
			rep.violation("update|build-failed", "a valid vectortiles_update_properties stage was rejected", witness(json!({"error": format!("{e:#}")})));
			return;
		}
		Ok(Ok(x)) => x,
	};
	if let Some(h) = pipe_writer.take() {
		// (if nobody opened the pipe for reading the writer still waits in open(): let it through)
		use std::os::unix::fs::OpenOptionsExt;
		let _unblock = std::fs::OpenOptions::new().read(true).custom_flags(libc::O_NONBLOCK).open(dir.join("data.csv"));
		let _ = h.join();
	}
	let declared = crate::comp::Comp::from_core(reader.get_parameters().tile_compression);
	let mut check = |k: &Key, data: &[u8], path: &str, rep: &mut Report| {
		rep.eval();
		rep.count("update_tiles_checked", 1);
		let src = imvt::canonical(&set.layers[k]);
		let mut st = Stats { matched: 0, unmatched: 0, removed: 0 };
		let want = model_update(&src, &a, &csv, &mut st);
		rep.count("update_features_matched", st.matched);
		rep.count("update_features_unmatched", st.unmatched);
		rep.count("update_features_removed", st.removed);
		if st.matched == 0 && st.unmatched > 0 {
			rep.count("update_tiles_without_any_match", 1);
		}
		if st.matched > 0 && st.unmatched > 0 {
			rep.nontrivial(fnv(format!("{vpl}{k:?}{}", cx.case).as_bytes()));
		}
		let raw = match comp::decompress(data, declared) {
			Ok(r) => r,
			Err(e) => {
				rep.violation(&format!("update|{path}|not-decodable-with-declared-compression"), "output tile does not decode with the declared compression", witness(json!({"tile": kstr(k), "error": e})));
				return;
			}
		};
		match imvt::decode(&raw) {
			Err(e) => rep.violation(&format!("update|{path}|not-a-vector-tile"), "output is not a valid vector tile", witness(json!({"tile": kstr(k), "error": e}))),
			Ok(got) => {
				// other layers: untouched (as a set of layers; header included)
				if got.layers.len() != want.layers.len() {
					rep.violation(&format!("update|{path}|layer-count"), "a layer was lost or added", witness(json!({"tile": kstr(k), "got": got.layer_names(), "expected": want.layer_names()})));
					return;
				}
				for w in &want.layers {
					let Some(g) = got.layer(&w.name) else {
						rep.violation(&format!("update|{path}|layer-missing"), "a layer is missing from the output", witness(json!({"tile": kstr(k), "layer": w.name})));
						return;
					};
					if let Some((kind, d)) = diff_layer(g, w, true) {
						let which = if w.name == a.layer { "named-layer" } else { "other-layer" };
						rep.violation(&format!("update|{path}|{which}|{kind}"), "the output differs from the join model", witness(json!({"tile": kstr(k), "matched": st.matched, "unmatched": st.unmatched, "d": d})));
						return;
					}
				}
			}
		}
	};
	let keys: Vec<Key> = set.blobs.keys().cloned().collect();
	let fut = async {
		let mut v = vec![];
		for k in &keys {
			v.push((*k, reader.get_tile_data(&coord_of(k)).await.map(|o| o.map(|b| b.into_vec())).map_err(|e| format!("{e:#}"))));
		}
		v
	};
	match guard::catch(|| guard::block_on(fut)) {
		Err(p) => rep.violation(&p.signature("lookup-update-properties"), "lookup through vectortiles_update_properties panicked", witness(json!({"panic": p.describe()}))),
		Ok(v) => {
			for (k, r) in v {
				match r {
					Ok(Some(d)) => check(&k, &d, &format!("{gen_tag}lookup"), rep),
					Ok(None) => rep.violation("update|lookup|tile-missing", "a source tile is missing from the output", witness(json!({"tile": kstr(&k)}))),
					Err(e) => rep.violation("update|lookup|error", "lookup failed on a valid tile", witness(json!({"tile": kstr(&k), "error": e}))),
				}
			}
		}
	}
	for lb in reader.get_parameters().bbox_pyramid.iter_levels().cloned().collect::<Vec<_>>() {
		if lb.count_tiles() > 20_000 {
			continue;
		}
		let fut = async { reader.get_bbox_tile_stream(lb.clone()).await.collect().await };
		match guard::catch(|| guard::block_on_mt(4, fut)) {
			Err(p) => rep.violation(&p.signature("stream-update-properties"), "stream through vectortiles_update_properties panicked", witness(json!({"panic": p.describe()}))),
			Ok(items) => {
				let mut n = 0;
				for (c, b) in &items {
					let k = key_of(c);
					if set.blobs.contains_key(&k) {
						n += 1;
						check(&k, b.as_slice(), &format!("{gen_tag}stream"), rep);
					} else {
						rep.violation("update|stream|tile-from-nowhere", "stream delivered a tile the source does not have", witness(json!({"tile": kstr(&k)})));
					}
				}
				let expect = set.blobs.keys().filter(|k| k.0 == lb.level).count();
				if n != expect {
					rep.violation("update|stream|tile-count", "stream does not deliver every source tile once", witness(json!({"level": lb.level, "got": n, "expected": expect})));
				}
			}
		}
	}
	}
	if rep.wants_sample() {
		rep.sample(json!({"kind": "update", "vpl": vpl, "csv_rows": csv.rows.len(), "tiles": set.blobs.len()}));
	}
	let _ = std::fs::remove_dir_all(&dir);
}

fn run_case(cx: &CaseCtx, rep: &mut Report) {
	let mut rng = cx.rng();
	if cx.case % 2 == 0 {
		roundtrip(cx, rep, &mut rng);
	} else {
		update(cx, rep, &mut rng);
	}
}
