//! C15 — tile bounding boxes and pyramids behave as the sets of tiles they denote.
//!
//! Oracle: a bit-mask set model (zoom 0‥3, exhaustive incl. all ordered pairs and the empty
//! encodings) and an interval/counting model (sampled, zoom 4‥31, border coordinates, boxes of
//! up to 2^62 tiles); an independent Mercator model with a tolerance band for the geographic part.

use crate::guard;
use crate::report::{Plan, Report, Tier};
use crate::rng::{fnv, Rng};
use crate::shard::{CaseCtx, MonitorDef};
use serde_json::json;
use std::cell::RefCell;
use versatiles_core::types::{GeoBBox, TileBBox, TileBBoxPyramid, TileCoord2, TileCoord3};
use versatiles_core::utils::TransformCoord;

pub fn def() -> MonitorDef {
	MonitorDef { id: "C15", plan, run_case, finalize }
}

const Z3_CHUNKS: u64 = 12;

fn plan(tier: Tier, _seed: u64) -> Plan {
	let sampled = tier.pick(24, 240);
	Plan {
		cases: 1 + Z3_CHUNKS + sampled,
		shards: 14,
		case_timeout_s: 600,
		level: "exploration",
		rule: "exhaustive: every box of zoom 0..3 (1406 boxes + 4 empty encodings per level) for the unary laws and every ordered pair of same-level boxes for intersect/include/overlaps, checked against a 64-bit set model; sampled: boxes of zoom 4..31 with border-biased coordinates against an interval/counting model; geographic boxes against an independent Mercator model with a 2e-6-tile tolerance band. A case is distinct by (operation, operands) and non-trivial if at least one operand is non-empty or is one of the empty encodings whose fields differ from new_empty".into(),
		assumptions: vec![
			"the set a TileBBox denotes is {(x,y): x_min<=x<=x_max, y_min<=y<=y_max} (empty if either interval is empty)".into(),
			"f64 Mercator model of the harness is exact to well below the 2e-6-tile band for zoom <= 29".into(),
		],
		min_evaluations: 100_000,
		exhaustive: false,
		timeouts_excluded: false,
	}
}

fn finalize(_t: Tier, _p: &Plan, rep: &mut Report) {
	if rep.counter("pairs_exhaustive_z0_3") == 0 {
		rep.inconclusive("exhaustive pair enumeration did not run");
	}
	if rep.counter("geo_roundtrips") == 0 || rep.counter("geo_cover_checks") == 0 {
		rep.inconclusive("geographic part did not run");
	}
}

// ---------------------------------------------------------------------------------------------
// helpers

thread_local! {
	static CUR: RefCell<String> = RefCell::new(String::new());
}

fn set_cur(s: String) {
	CUR.with(|c| *c.borrow_mut() = s);
}

fn bstr(b: &TileBBox) -> String {
	format!("{}:[{},{},{},{}]", b.level, b.x_min, b.y_min, b.x_max, b.y_max)
}

fn raw(level: u8, x_min: u32, y_min: u32, x_max: u32, y_max: u32) -> TileBBox {
	TileBBox { level, x_min, y_min, x_max, y_max, max: ((1u64 << level) - 1) as u32 }
}

/// the empty encodings reachable through the public API
fn empties(level: u8) -> Vec<TileBBox> {
	let mut v = vec![TileBBox::new_empty(level).unwrap()];
	let mut e = TileBBox::new_full(level).unwrap();
	e.set_empty();
	v.push(e);
	let max = ((1u64 << level) - 1) as u32;
	if max >= 1 {
		// one-dimensional empties, as produced by intersect_bbox of boxes disjoint in one axis
		v.push(raw(level, max, 0, max - 1, max));
		v.push(raw(level, 0, max, max, max - 1));
	}
	v
}

fn all_boxes(level: u8) -> Vec<TileBBox> {
	let n = 1u32 << level;
	let mut v = vec![];
	for x0 in 0..n {
		for x1 in x0..n {
			for y0 in 0..n {
				for y1 in y0..n {
					v.push(TileBBox::new(level, x0, y0, x1, y1).unwrap());
				}
			}
		}
	}
	v.extend(empties(level));
	v
}

fn is_empty_model(b: &TileBBox) -> bool {
	b.x_min > b.x_max || b.y_min > b.y_max
}

/// zoom <= 3: bit y*8+x
fn mask(b: &TileBBox) -> u64 {
	if is_empty_model(b) {
		return 0;
	}
	let mut m = 0u64;
	for y in b.y_min..=b.y_max.min(7) {
		for x in b.x_min..=b.x_max.min(7) {
			m |= 1u64 << (y * 8 + x);
		}
	}
	m
}

fn mask_bounds(m: u64) -> Option<(u32, u32, u32, u32)> {
	if m == 0 {
		return None;
	}
	let (mut x0, mut y0, mut x1, mut y1) = (8, 8, 0, 0);
	for y in 0..8u32 {
		for x in 0..8u32 {
			if m & (1u64 << (y * 8 + x)) != 0 {
				x0 = x0.min(x);
				y0 = y0.min(y);
				x1 = x1.max(x);
				y1 = y1.max(y);
			}
		}
	}
	Some((x0, y0, x1, y1))
}

fn bounding_mask(m: u64) -> u64 {
	match mask_bounds(m) {
		None => 0,
		Some((x0, y0, x1, y1)) => mask(&raw(3, x0, y0, x1, y1)),
	}
}

fn well_formed(b: &TileBBox) -> bool {
	// a non-empty box must lie inside its level and carry the level's max
	b.max as u64 == (1u64 << b.level) - 1 && (is_empty_model(b) || (b.x_max <= b.max && b.y_max <= b.max))
}

struct V<'a> {
	rep: &'a mut Report,
}

impl V<'_> {
	fn fail(&mut self, op: &str, class: &str, what: &str, witness: serde_json::Value) {
		self.rep.violation(&format!("{op}|{class}"), what, witness);
	}
}

fn zclass(z: u8) -> &'static str {
	if z >= 30 {
		"z>=30"
	} else {
		"z<30"
	}
}

/// run `f(i)` for i in 0..n; a panic is recorded as a violation for that input and the loop goes on
fn guarded_loop(rep: &mut Report, entry: &str, n: usize, mut f: impl FnMut(usize, &mut Report)) {
	let mut i = 0;
	while i < n {
		let start = i;
		let r = {
			let rep_ref = &mut *rep;
			let fr = &mut f;
			let ir = &mut i;
			guard::catch_strict_thread(move || {
				while *ir < n {
					fr(*ir, rep_ref);
					*ir += 1;
				}
			})
		};
		if let Err(p) = r {
			let cur = CUR.with(|c| c.borrow().clone());
			rep.violation(&p.signature(entry), "operation panicked", json!({"input": cur, "panic": p.describe()}));
			i += 1;
			if i == start {
				i += 1;
			}
		}
	}
}

// ---------------------------------------------------------------------------------------------
// exhaustive part

fn unary_laws(level: u8, rep: &mut Report) {
	let boxes = all_boxes(level);
	let n = 1u32 << level;
	let nb = boxes.len();
	guarded_loop(rep, "bbox_unary", nb, |i, rep| {
		let b = &boxes[i];
		set_cur(format!("unary {}", bstr(b)));
		let m = mask(b);
		let mut v = V { rep };
		v.rep.eval();
		v.rep.nontrivial(fnv(format!("u{}", bstr(b)).as_bytes()));
		let w = json!({"box": bstr(b)});
		if b.is_empty() != (m == 0) {
			v.fail("is_empty", "z<=3", "is_empty disagrees with the set", w.clone());
		}
		if b.count_tiles() != m.count_ones() as u64 {
			v.fail("count_tiles", "z<=3", "count_tiles != |set|", w.clone());
		}
		if (b.width() as u64) * (b.height() as u64) != m.count_ones() as u64 {
			v.fail("width_height", "z<=3", "width*height != |set|", w.clone());
		}
		// containment for every coordinate of the level (plus a ring outside)
		for y in 0..n + 1 {
			for x in 0..n + 1 {
				let inside = x < 8 && y < 8 && m & (1u64 << (y * 8 + x)) != 0;
				if b.contains2(&TileCoord2::new(x, y)) != inside {
					v.fail("contains2", "z<=3", "contains2 disagrees with the set", json!({"box": bstr(b), "x": x, "y": y}));
				}
				let c3 = TileCoord3::new(x, y, level).unwrap();
				if b.contains3(&c3) != inside {
					v.fail("contains3", "z<=3", "contains3 disagrees with the set", json!({"box": bstr(b), "x": x, "y": y}));
				}
				if level > 0 {
					let other = TileCoord3::new(x, y, level - 1).unwrap();
					if b.contains3(&other) {
						v.fail("contains3", "other-level", "contains3 accepts a coordinate of another level", json!({"box": bstr(b)}));
					}
				}
				// index <-> coordinate
				let idx2 = b.get_tile_index2(&TileCoord2::new(x, y));
				let idx3 = b.get_tile_index3(&c3);
				if inside {
					let expect = ((y - b.y_min) * (b.x_max - b.x_min + 1) + (x - b.x_min)) as usize;
					if idx2.as_ref().ok() != Some(&expect) || idx3.as_ref().ok() != Some(&expect) {
						v.fail("get_tile_index", "z<=3", "index of a contained coordinate is not its row-major position", json!({"box": bstr(b), "x": x, "y": y}));
					}
					let back3 = b.get_coord3_by_index(expect as u32);
					let back2 = b.get_coord2_by_index(expect as u32);
					if back3.ok() != Some(c3) || back2.ok() != Some(TileCoord2::new(x, y)) {
						v.fail("get_coord_by_index", "z<=3", "index -> coordinate is not the inverse", json!({"box": bstr(b), "index": expect}));
					}
				} else if idx2.is_ok() || idx3.is_ok() {
					v.fail("get_tile_index", "outside", "index returned for a coordinate outside the box", json!({"box": bstr(b), "x": x, "y": y}));
				}
			}
		}
		let cnt = m.count_ones();
		if b.get_coord3_by_index(cnt).is_ok() || b.get_coord2_by_index(cnt).is_ok() {
			v.fail("get_coord_by_index", "out-of-range", "index == count accepted", w.clone());
		}
		// row-major enumeration
		let listed: Vec<TileCoord3> = b.iter_coords().collect();
		let mut expect = vec![];
		for y in 0..8u32 {
			for x in 0..8u32 {
				if m & (1u64 << (y * 8 + x)) != 0 {
					expect.push(TileCoord3::new(x, y, level).unwrap());
				}
			}
		}
		if listed != expect {
			v.fail("iter_coords", "z<=3", "iter_coords is not the row-major enumeration of the set", w.clone());
		}
		let listed2: Vec<TileCoord3> = b.clone().into_iter_coords().collect();
		if listed2 != expect {
			v.fail("into_iter_coords", "z<=3", "into_iter_coords is not the row-major enumeration of the set", w.clone());
		}
		// grid partition
		for size in 1..=9u32 {
			let cells: Vec<TileBBox> = b.iter_bbox_grid(size).collect();
			let mut union = 0u64;
			let mut ok = true;
			for c in &cells {
				let cm = mask(c);
				if cm == 0 || union & cm != 0 || !well_formed(c) || c.level != level {
					ok = false;
				}
				if c.x_min / size != c.x_max / size || c.y_min / size != c.y_max / size {
					ok = false; // spans more than one aligned cell
				}
				union |= cm;
			}
			if union != m || !ok {
				v.fail("iter_bbox_grid", "z<=3", "grid cells are not an aligned partition of the box", json!({"box": bstr(b), "size": size, "cells": cells.iter().map(bstr).collect::<Vec<_>>()}));
			}
			v.rep.count("grid_partitions_checked", 1);
		}
		// flip / swap
		let mut f = b.clone();
		f.flip_y();
		let mut fm = 0u64;
		let mut sm = 0u64;
		for y in 0..8u32 {
			for x in 0..8u32 {
				if m & (1u64 << (y * 8 + x)) != 0 {
					let mut c = TileCoord3::new(x, y, level).unwrap();
					c.flip_y();
					fm |= 1u64 << (c.y * 8 + c.x);
					let mut c = TileCoord3::new(x, y, level).unwrap();
					c.swap_xy();
					sm |= 1u64 << (c.y * 8 + c.x);
					// coordinate transforms are involutions with the documented formula
					let mut c2 = TileCoord3::new(x, y, level).unwrap();
					c2.flip_y();
					if c2.y != (n - 1 - y) || c2.x != x {
						v.fail("coord_flip_y", "z<=3", "flip_y is not y -> 2^z-1-y", w.clone());
					}
				}
			}
		}
		if mask(&f) != fm || !well_formed(&f) {
			v.fail("bbox_flip_y", "z<=3", "flip_y of the box is not the image of the set", w.clone());
		}
		f.flip_y();
		if mask(&f) != m {
			v.fail("bbox_flip_y", "involution", "flip_y twice is not the identity", w.clone());
		}
		let mut s = b.clone();
		s.swap_xy();
		if mask(&s) != sm || !well_formed(&s) {
			v.fail("bbox_swap_xy", "z<=3", "swap_xy of the box is not the image of the set", w.clone());
		}
		s.swap_xy();
		if mask(&s) != m {
			v.fail("bbox_swap_xy", "involution", "swap_xy twice is not the identity", w.clone());
		}
		// include_coord: bounding box of set ∪ {c}
		for y in 0..n {
			for x in 0..n {
				let mut t = b.clone();
				t.include_coord(x, y);
				let expect = bounding_mask(m | (1u64 << (y * 8 + x)));
				if mask(&t) != expect || !well_formed(&t) {
					v.fail("include_coord", "z<=3", "include_coord is not the bounding box of set ∪ {c}", json!({"box": bstr(b), "x": x, "y": y, "got": bstr(&t)}));
				}
				let mut t3 = b.clone();
				let r = t3.include_coord3(&TileCoord3::new(x, y, level).unwrap());
				if r.is_err() || mask(&t3) != expect {
					v.fail("include_coord3", "z<=3", "include_coord3 is not the bounding box of set ∪ {c}", json!({"box": bstr(b), "x": x, "y": y}));
				}
			}
		}
		if level < 31 {
			let mut t3 = b.clone();
			if t3.include_coord3(&TileCoord3::new(0, 0, level + 1).unwrap()).is_ok() {
				v.fail("include_coord3", "other-level", "coordinate of another level accepted", w.clone());
			}
		}
		// add_border
		for (a, bb, c, d) in [(0, 0, 0, 0), (1, 0, 0, 0), (0, 1, 0, 0), (0, 0, 1, 0), (0, 0, 0, 1), (1, 2, 3, 4), (9, 9, 9, 9), (2, 0, 2, 0)] {
			let mut t = b.clone();
			t.add_border(a, bb, c, d);
			let expect = match mask_bounds(m) {
				None => 0,
				Some((x0, y0, x1, y1)) => mask(&raw(level, x0.saturating_sub(a), y0.saturating_sub(bb), (x1 + c).min(n - 1), (y1 + d).min(n - 1))),
			};
			if mask(&t) != expect || !well_formed(&t) {
				v.fail("add_border", "z<=3", "add_border is not the clipped dilation of the set", json!({"box": bstr(b), "border": [a, bb, c, d], "got": bstr(&t)}));
			}
		}
	});
}

fn pair_laws(level: u8, chunk: Option<(u64, u64)>, rep: &mut Report) {
	let boxes = all_boxes(level);
	let masks: Vec<u64> = boxes.iter().map(mask).collect();
	let nb = boxes.len();
	guarded_loop(rep, "bbox_pair", nb, |i, rep| {
		if let Some((c, k)) = chunk {
			if i as u64 % k != c {
				return;
			}
		}
		let a = &boxes[i];
		let ma = masks[i];
		for j in 0..nb {
			let b = &boxes[j];
			let mb = masks[j];
			set_cur(format!("pair {} {}", bstr(a), bstr(b)));
			rep.evaluations += 1;
			// intersect
			let mut t = a.clone();
			let r = t.intersect_bbox(b);
			if r.is_err() || mask(&t) != (ma & mb) || !well_formed(&t) {
				rep.violation("intersect_bbox|z<=3", "intersection differs from the set intersection", json!({"a": bstr(a), "b": bstr(b), "got": bstr(&t)}));
			}
			// bounding union
			let mut u = a.clone();
			let r = u.include_bbox(b);
			if r.is_err() || mask(&u) != bounding_mask(ma | mb) || !well_formed(&u) {
				rep.violation("include_bbox|z<=3", "include_bbox differs from the bounding box of the union", json!({"a": bstr(a), "b": bstr(b), "got": bstr(&u)}));
			}
			// overlap
			match a.overlaps_bbox(b) {
				Ok(o) if o == (ma & mb != 0) => {}
				_ => rep.violation("overlaps_bbox|z<=3", "overlaps differs from non-empty intersection", json!({"a": bstr(a), "b": bstr(b)})),
			}
		}
		rep.count("pairs_exhaustive_z0_3", nb as u64);
		// one fingerprint per first operand (the pairs themselves are enumerated completely)
		rep.nontrivial(fnv(format!("p{}", bstr(a)).as_bytes()));
	});
	// level mismatch must be an error, not a silent result
	if level < 3 {
		let a = TileBBox::new_full(level).unwrap();
		let b = TileBBox::new_full(level + 1).unwrap();
		let mut t = a.clone();
		if t.intersect_bbox(&b).is_ok() || t.include_bbox(&b).is_ok() || a.overlaps_bbox(&b).is_ok() {
			rep.violation("level_mismatch|accepted", "boxes of different levels combined without error", json!({"a": bstr(&a), "b": bstr(&b)}));
		}
	}
}

fn pyramid_small(rep: &mut Report, rng: &mut Rng) {
	// pyramids over levels 0..3 assembled from random boxes; every operation is compared level by level
	let per_level: Vec<Vec<TileBBox>> = (0..4).map(all_boxes).collect();
	for _ in 0..4000 {
		let mk = |rng: &mut Rng| {
			let mut p = TileBBoxPyramid::new_empty();
			let mut ms = [0u64; 4];
			for z in 0..4usize {
				if rng.chance(0.75) {
					let b = rng.pick(&per_level[z]).clone();
					ms[z] = mask(&b);
					p.set_level_bbox(b);
				}
			}
			(p, ms)
		};
		let (p, mp) = mk(rng);
		let (q, mq) = mk(rng);
		set_cur(format!("pyramid {p:?} {q:?}"));
		rep.eval();
		rep.nontrivial(fnv(format!("py{p:?}{q:?}").as_bytes()));
		let w = json!({"p": format!("{p:?}"), "q": format!("{q:?}")});
		let level_masks = |x: &TileBBoxPyramid| -> [u64; 4] { [mask(x.get_level_bbox(0)), mask(x.get_level_bbox(1)), mask(x.get_level_bbox(2)), mask(x.get_level_bbox(3))] };
		let mut t = p.clone();
		t.intersect(&q);
		let exp: Vec<u64> = (0..4).map(|z| mp[z] & mq[z]).collect();
		if level_masks(&t)[..] != exp[..] {
			rep.violation("pyramid_intersect|z<=3", "pyramid intersect is not the per-level intersection", w.clone());
		}
		let mut t = p.clone();
		t.include_bbox_pyramid(&q);
		let exp: Vec<u64> = (0..4).map(|z| bounding_mask(mp[z] | mq[z])).collect();
		if level_masks(&t)[..] != exp[..] {
			rep.violation("pyramid_include|z<=3", "include_bbox_pyramid is not the per-level bounding union", w.clone());
		}
		let total: u64 = mp.iter().map(|m| m.count_ones() as u64).sum();
		if p.count_tiles() != total {
			rep.violation("pyramid_count|z<=3", "pyramid count_tiles differs", w.clone());
		}
		if p.is_empty() != (total == 0) {
			rep.violation("pyramid_is_empty|z<=3", "pyramid is_empty differs", w.clone());
		}
		let zmin = (0..4u8).find(|z| mp[*z as usize] != 0);
		let zmax = (0..4u8).rev().find(|z| mp[*z as usize] != 0);
		if p.get_zoom_min() != zmin || p.get_zoom_max() != zmax {
			rep.violation("pyramid_zoom_range|z<=3", "zoom min/max differ from the non-empty levels", w.clone());
		}
		if (p == q) != (mp == mq) {
			rep.violation("pyramid_eq|z<=3", "pyramid equality is not set equality", w.clone());
		}
		for z in 0..4u8 {
			let n = 1u32 << z;
			for y in 0..n {
				for x in 0..n {
					let inside = mp[z as usize] & (1u64 << (y * 8 + x)) != 0;
					if p.contains_coord(&TileCoord3::new(x, y, z).unwrap()) != inside {
						rep.violation("pyramid_contains|z<=3", "contains_coord differs", w.clone());
					}
				}
			}
			let qb = q.get_level_bbox(z);
			if p.overlaps_bbox(qb) != (mp[z as usize] & mq[z as usize] != 0) {
				rep.violation("pyramid_overlaps|z<=3", "overlaps_bbox differs", w.clone());
			}
			let lo = rng.below(5) as u8;
			let hi = rng.below(5) as u8;
			let mut t = p.clone();
			t.set_zoom_min(lo);
			t.set_zoom_max(hi);
			for zz in 0..4u8 {
				let keep = zz >= lo && zz <= hi;
				let e = if keep { mp[zz as usize] } else { 0 };
				if mask(t.get_level_bbox(zz)) != e {
					rep.violation("pyramid_zoom_limits|z<=3", "set_zoom_min/max does not keep exactly the levels in range", w.clone());
				}
			}
		}
		let mut t = p.clone();
		t.flip_y();
		t.swap_xy();
		t.swap_xy();
		t.flip_y();
		if level_masks(&t) != mp {
			rep.violation("pyramid_transform|involution", "flip/swap on the pyramid are not involutions", w.clone());
		}
		let c = TileCoord3::new(rng.below(8) as u32, rng.below(8) as u32, 3).unwrap();
		let mut t = p.clone();
		t.include_coord(&c);
		if mask(t.get_level_bbox(3)) != bounding_mask(mp[3] | (1u64 << (c.y * 8 + c.x))) {
			rep.violation("pyramid_include_coord|z<=3", "include_coord differs", w.clone());
		}
	}
}

// ---------------------------------------------------------------------------------------------
// sampled part (zoom 4..31)

fn coord_pick(rng: &mut Rng, max: u32) -> u32 {
	let m = max as u64;
	let v = match rng.below(10) {
		0 => 0,
		1 => 1,
		2 => m,
		3 => m.saturating_sub(1),
		4 => *rng.pick(&[254u64, 255, 256, 257, 510, 511, 512, 513]),
		5 => m / 2,
		6 => m / 2 + 1,
		_ => rng.range(0, m),
	};
	v.min(m) as u32
}

fn sample_box(rng: &mut Rng, level: u8) -> TileBBox {
	let max = ((1u64 << level) - 1) as u32;
	if rng.chance(0.08) {
		return rng.pick(&empties(level)).clone();
	}
	let (mut x0, mut x1) = (coord_pick(rng, max), coord_pick(rng, max));
	let (mut y0, mut y1) = (coord_pick(rng, max), coord_pick(rng, max));
	if rng.chance(0.5) {
		// small extent near x0/y0
		x1 = (x0 as u64 + rng.below(40)).min(max as u64) as u32;
		y1 = (y0 as u64 + rng.below(40)).min(max as u64) as u32;
	}
	if x0 > x1 {
		std::mem::swap(&mut x0, &mut x1);
	}
	if y0 > y1 {
		std::mem::swap(&mut y0, &mut y1);
	}
	TileBBox::new(level, x0, y0, x1, y1).unwrap()
}

type Iv = Option<(u64, u64)>;
fn iv_x(b: &TileBBox) -> Iv {
	if is_empty_model(b) {
		None
	} else {
		Some((b.x_min as u64, b.x_max as u64))
	}
}
fn iv_y(b: &TileBBox) -> Iv {
	if is_empty_model(b) {
		None
	} else {
		Some((b.y_min as u64, b.y_max as u64))
	}
}
fn same_set(b: &TileBBox, x: Iv, y: Iv) -> bool {
	match (x, y) {
		(Some(x), Some(y)) => !is_empty_model(b) && (b.x_min as u64, b.x_max as u64) == x && (b.y_min as u64, b.y_max as u64) == y,
		_ => is_empty_model(b),
	}
}
fn iv_and(a: Iv, b: Iv) -> Iv {
	let (a, b) = (a?, b?);
	let lo = a.0.max(b.0);
	let hi = a.1.min(b.1);
	if lo <= hi {
		Some((lo, hi))
	} else {
		None
	}
}
fn iv_hull(a: Iv, b: Iv) -> Iv {
	match (a, b) {
		(None, x) | (x, None) => x,
		(Some(a), Some(b)) => Some((a.0.min(b.0), a.1.max(b.1))),
	}
}

fn sampled_laws(rep: &mut Report, rng: &mut Rng, n: usize) {
	let mut inputs = vec![];
	for _ in 0..n {
		let level = *rng.pick(&[4u8, 5, 7, 8, 9, 10, 14, 15, 16, 17, 20, 24, 29, 30, 31, 31]);
		let a = sample_box(rng, level);
		let b = sample_box(rng, level);
		inputs.push((a, b, rng.next_u64()));
	}
	guarded_loop(rep, "bbox_sampled", n, |i, rep| {
		let (a, b, s) = &inputs[i];
		let mut rng = Rng::new(*s);
		let level = a.level;
		let zc = zclass(level);
		let max = a.max;
		set_cur(format!("sampled {} {}", bstr(a), bstr(b)));
		rep.eval();
		if !is_empty_model(a) || !is_empty_model(b) {
			rep.nontrivial(fnv(format!("s{}{}", bstr(a), bstr(b)).as_bytes()));
		}
		let w = json!({"a": bstr(a), "b": bstr(b)});
		// pair laws on intervals
		let (ex, ey) = {
			let x = iv_and(iv_x(a), iv_x(b));
			let y = iv_and(iv_y(a), iv_y(b));
			if x.is_none() || y.is_none() {
				(None, None)
			} else {
				(x, y)
			}
		};
		let mut t = a.clone();
		if t.intersect_bbox(b).is_err() || !same_set(&t, ex, ey) || !well_formed(&t) {
			rep.violation(&format!("intersect_bbox|{zc}"), "intersection differs from the interval model", json!({"a": bstr(a), "b": bstr(b), "got": bstr(&t)}));
		}
		let mut u = a.clone();
		if u.include_bbox(b).is_err() || !same_set(&u, iv_hull(iv_x(a), iv_x(b)), iv_hull(iv_y(a), iv_y(b))) || !well_formed(&u) {
			rep.violation(&format!("include_bbox|{zc}"), "include_bbox differs from the interval model", json!({"a": bstr(a), "b": bstr(b), "got": bstr(&u)}));
		}
		if a.overlaps_bbox(b).ok() != Some(ex.is_some()) {
			rep.violation(&format!("overlaps_bbox|{zc}"), "overlaps differs from the interval model", w.clone());
		}
		// counting
		let cnt: u64 = match (iv_x(a), iv_y(a)) {
			(Some(x), Some(y)) => (x.1 - x.0 + 1) * (y.1 - y.0 + 1),
			_ => 0,
		};
		if a.count_tiles() != cnt || a.is_empty() != (cnt == 0) {
			rep.violation(&format!("count_tiles|{zc}"), "count_tiles / is_empty differ from the interval model", w.clone());
		}
		// containment, index <-> coordinate on sampled members and non-members
		if let (Some(x), Some(y)) = (iv_x(a), iv_y(a)) {
			let width = x.1 - x.0 + 1;
			for k in 0..12 {
				let (px, py) = match k {
					0 => (x.0, y.0),
					1 => (x.1, y.1),
					2 => (x.0, y.1),
					3 => (x.1, y.0),
					_ => (rng.range(x.0, x.1), rng.range(y.0, y.1)),
				};
				let c3 = TileCoord3::new(px as u32, py as u32, level).unwrap();
				set_cur(format!("member {} ({px},{py})", bstr(a)));
				if !a.contains3(&c3) || !a.contains2(&c3.as_coord2()) {
					rep.violation(&format!("contains|{zc}"), "member not contained", json!({"box": bstr(a), "x": px, "y": py}));
				}
				let expect = (py - y.0) as u128 * width as u128 + (px - x.0) as u128;
				rep.count("index_checks_sampled", 1);
				if expect > cnt as u128 || expect >= u32::MAX as u128 * 4 {
					rep.count("index_checks_beyond_u32", 1);
				}
				let got3 = a.get_tile_index3(&c3);
				let got2 = a.get_tile_index2(&c3.as_coord2());
				if got3.as_ref().ok().map(|v| *v as u128) != Some(expect) || got2.as_ref().ok().map(|v| *v as u128) != Some(expect) {
					rep.violation(&format!("get_tile_index|{zc}"), "index of a member is not its row-major position", json!({"box": bstr(a), "x": px, "y": py, "expect": expect.to_string(), "got": format!("{got3:?}")}));
				}
				if expect <= u32::MAX as u128 {
					let back = a.get_coord3_by_index(expect as u32);
					let back2 = a.get_coord2_by_index(expect as u32);
					if back.ok() != Some(c3) || back2.ok() != Some(c3.as_coord2()) {
						rep.violation(&format!("get_coord_by_index|{zc}"), "index -> coordinate is not the inverse", json!({"box": bstr(a), "index": expect.to_string()}));
					}
				}
			}
			// just outside
			for (px, py) in [(x.0 as i64 - 1, y.0 as i64), (x.1 as i64 + 1, y.0 as i64), (x.0 as i64, y.0 as i64 - 1), (x.0 as i64, y.1 as i64 + 1)] {
				if px < 0 || py < 0 || px > max as i64 || py > max as i64 {
					continue;
				}
				let c3 = TileCoord3::new(px as u32, py as u32, level).unwrap();
				if a.contains3(&c3) || a.get_tile_index3(&c3).is_ok() {
					rep.violation(&format!("contains|{zc}"), "non-member contained / indexed", json!({"box": bstr(a), "x": px, "y": py}));
				}
			}
			if cnt <= u32::MAX as u64 && a.get_coord3_by_index(cnt as u32).is_ok() {
				rep.violation(&format!("get_coord_by_index|{zc}"), "index == count accepted", w.clone());
			}
		}
		// enumeration and grids for small boxes
		if cnt > 0 && cnt <= 2000 {
			let listed: Vec<TileCoord3> = a.iter_coords().collect();
			let mut ok = listed.len() as u64 == cnt;
			let mut k = 0;
			'outer: for y in a.y_min..=a.y_max {
				for x in a.x_min..=a.x_max {
					if !ok || listed[k] != TileCoord3::new(x, y, level).unwrap() {
						ok = false;
						break 'outer;
					}
					k += 1;
				}
			}
			if !ok {
				rep.violation(&format!("iter_coords|{zc}"), "iter_coords is not the row-major enumeration", w.clone());
			}
		}
		if cnt > 0 && a.width() <= 3000 && a.height() <= 3000 {
			for size in [1u32, 2, 3, 7, 9, 32, 256, 257] {
				if (a.width() / size + 2) as u64 * (a.height() / size + 2) as u64 > 40_000 {
					continue;
				}
				set_cur(format!("grid {} size {size}", bstr(a)));
				let cells: Vec<TileBBox> = a.iter_bbox_grid(size).collect();
				let mut sum = 0u64;
				let mut ok = true;
				let mut origins = std::collections::HashSet::new();
				for c in &cells {
					sum += c.count_tiles();
					if is_empty_model(c) || !well_formed(c) || c.level != level {
						ok = false;
						continue;
					}
					if c.x_min / size != c.x_max / size || c.y_min / size != c.y_max / size {
						ok = false;
					}
					if c.x_min < a.x_min || c.x_max > a.x_max || c.y_min < a.y_min || c.y_max > a.y_max {
						ok = false;
					}
					if !origins.insert((c.x_min / size, c.y_min / size)) {
						ok = false;
					}
				}
				rep.count("grid_partitions_checked", 1);
				if !ok || sum != cnt {
					rep.violation(&format!("iter_bbox_grid|{zc}"), "grid cells are not an aligned partition of the box", json!({"box": bstr(a), "size": size, "cells": cells.len(), "sum": sum}));
				}
			}
		}
		// transforms
		let mut f = a.clone();
		f.flip_y();
		let exp_y = iv_y(a).map(|y| (max as u64 - y.1, max as u64 - y.0));
		if !same_set(&f, iv_x(a), exp_y) || !well_formed(&f) {
			rep.violation(&format!("bbox_flip_y|{zc}"), "flip_y of the box is not the image of the set", json!({"box": bstr(a), "got": bstr(&f)}));
		}
		f.flip_y();
		if !same_set(&f, iv_x(a), iv_y(a)) {
			rep.violation("bbox_flip_y|involution", "flip_y twice is not the identity", w.clone());
		}
		let mut s2 = a.clone();
		s2.swap_xy();
		if !same_set(&s2, iv_y(a), iv_x(a)) || !well_formed(&s2) {
			rep.violation(&format!("bbox_swap_xy|{zc}"), "swap_xy of the box is not the image of the set", w.clone());
		}
		if !is_empty_model(a) {
			let mut c = TileCoord3::new(a.x_min, a.y_max, level).unwrap();
			c.flip_y();
			if c.y as u64 != max as u64 - a.y_max as u64 || c.x != a.x_min {
				rep.violation(&format!("coord_flip_y|{zc}"), "flip_y is not y -> 2^z-1-y", w.clone());
			}
			c.flip_y();
			c.swap_xy();
			if (c.x, c.y) != (a.y_max, a.x_min) {
				rep.violation(&format!("coord_swap_xy|{zc}"), "swap_xy is not x <-> y", w.clone());
			}
		}
		// include_coord
		let (px, py) = (coord_pick(&mut rng, max), coord_pick(&mut rng, max));
		let mut t = a.clone();
		t.include_coord(px, py);
		let p = Some((px as u64, px as u64));
		let q = Some((py as u64, py as u64));
		if !same_set(&t, iv_hull(iv_x(a), p), iv_hull(iv_y(a), q)) || !well_formed(&t) {
			rep.violation(&format!("include_coord|{zc}"), "include_coord is not the bounding box of set ∪ {c}", json!({"box": bstr(a), "x": px, "y": py, "got": bstr(&t)}));
		}
		// add_border, including widths close to u32::MAX
		let bw = |rng: &mut Rng| -> u32 {
			match rng.below(6) {
				0 => 0,
				1 => 1,
				2 => u32::MAX,
				3 => u32::MAX - max,
				4 => max,
				_ => rng.below(300) as u32,
			}
		};
		let bd = (bw(&mut rng), bw(&mut rng), bw(&mut rng), bw(&mut rng));
		set_cur(format!("add_border {} {:?}", bstr(a), bd));
		let mut t = a.clone();
		t.add_border(bd.0, bd.1, bd.2, bd.3);
		let ex = iv_x(a).map(|x| (x.0.saturating_sub(bd.0 as u64), (x.1 + bd.2 as u64).min(max as u64)));
		let ey = iv_y(a).map(|y| (y.0.saturating_sub(bd.1 as u64), (y.1 + bd.3 as u64).min(max as u64)));
		rep.count("add_border_checks", 1);
		if !same_set(&t, ex, ey) || !well_formed(&t) {
			rep.violation(&format!("add_border|{zc}"), "add_border is not the clipped dilation of the set", json!({"box": bstr(a), "border": [bd.0, bd.1, bd.2, bd.3], "got": bstr(&t)}));
		}
	});
}

// ---------------------------------------------------------------------------------------------
// geographic part

const BAND: f64 = 2e-6;

fn merc_x(lon: f64, z: u8) -> f64 {
	(2f64).powi(z as i32) * (lon / 360.0 + 0.5)
}
fn merc_y(lat: f64, z: u8) -> f64 {
	let r = (std::f64::consts::FRAC_PI_4 + lat.to_radians() / 2.0).tan().ln();
	(2f64).powi(z as i32) * (0.5 - r / (2.0 * std::f64::consts::PI))
}
fn clampf(v: f64, z: u8) -> u32 {
	let m = (2f64).powi(z as i32) - 1.0;
	v.floor().max(0.0).min(m) as u32
}

fn geo_roundtrip(rep: &mut Report, b: &TileBBox) {
	set_cur(format!("geo roundtrip {}", bstr(b)));
	rep.count("geo_roundtrips", 1);
	rep.eval();
	rep.nontrivial(fnv(format!("g{}", bstr(b)).as_bytes()));
	let g = b.as_geo_bbox();
	match TileBBox::from_geo(b.level, &g) {
		Ok(back) if &back == b => {}
		Ok(back) => {
			let d = |a: u32, c: u32| (a as i64 - c as i64).clamp(-2, 2);
			let diff = format!("{},{},{},{}", d(back.x_min, b.x_min), d(back.y_min, b.y_min), d(back.x_max, b.x_max), d(back.y_max, b.y_max));
			rep.violation(
				&format!("geo_roundtrip|z={}|diff={diff}", b.level),
				"as_geo_bbox -> from_geo does not return the same box",
				json!({"box": bstr(b), "geo": format!("{g:?}"), "back": bstr(&back)}),
			);
		}
		Err(e) => rep.violation(&format!("geo_roundtrip|z={}|err", b.level), "as_geo_bbox -> from_geo fails", json!({"box": bstr(b), "geo": format!("{g:?}"), "error": e.to_string()})),
	}
}

fn geo_cover(rep: &mut Report, z: u8, g: GeoBBox, class: &str) {
	set_cur(format!("geo cover z{z} {g:?}"));
	rep.count("geo_cover_checks", 1);
	rep.eval();
	rep.nontrivial(fnv(format!("c{z}{g:?}").as_bytes()));
	rep.label("geo_classes", class);
	let w = json!({"z": z, "geo": format!("{g:?}"), "class": class});
	// the band is widened where f64 latitude cannot resolve 1e-6 tile any more
	let band = if z >= 28 { 1e-3 } else { BAND };
	match TileBBox::from_geo(z, &g) {
		Err(e) => rep.violation(&format!("geo_cover|{class}|err"), "valid geographic box rejected", json!({"z": z, "geo": format!("{g:?}"), "error": e.to_string()})),
		Ok(b) => {
			if b.is_empty() || !well_formed(&b) {
				rep.violation(&format!("geo_cover|{class}|empty"), "valid geographic box maps to an empty / malformed tile box", w.clone());
				return;
			}
			let (fx0, fx1) = (merc_x(g.0, z), merc_x(g.2, z));
			let (fy0, fy1) = (merc_y(g.3, z), merc_y(g.1, z)); // north edge -> smaller y
			// must cover: everything further than `band` inside the geo box
			let need_x0 = clampf(fx0 + band, z);
			let need_x1 = clampf(fx1 - band, z);
			let need_y0 = clampf(fy0 + band, z);
			let need_y1 = clampf(fy1 - band, z);
			let covers = (need_x0 > need_x1 || (b.x_min <= need_x0 && b.x_max >= need_x1)) && (need_y0 > need_y1 || (b.y_min <= need_y0 && b.y_max >= need_y1));
			if !covers {
				rep.violation(&format!("geo_cover|{class}|not-covering"), "tile box does not cover the geographic box (beyond the rounding guard)", json!({"z": z, "geo": format!("{g:?}"), "got": bstr(&b), "need": [need_x0, need_y0, need_x1, need_y1]}));
			}
			// must not reach further than `band` beyond the geo box (at least the tile holding the edge is allowed)
			let lim_x0 = clampf(fx0 - band, z);
			let lim_x1 = clampf(fx1 + band, z);
			let lim_y0 = clampf(fy0 - band, z);
			let lim_y1 = clampf(fy1 + band, z);
			if b.x_min < lim_x0 || b.x_max > lim_x1 || b.y_min < lim_y0 || b.y_max > lim_y1 {
				rep.violation(&format!("geo_cover|{class}|too-large"), "tile box reaches beyond the tiles the geographic box touches", json!({"z": z, "geo": format!("{g:?}"), "got": bstr(&b), "limit": [lim_x0, lim_y0, lim_x1, lim_y1]}));
			}
		}
	}
}

fn geo_part(rep: &mut Report, rng: &mut Rng, exhaustive_small: bool, n: usize) {
	if exhaustive_small {
		let mut all = vec![];
		for z in 0..4u8 {
			for b in all_boxes(z) {
				if !is_empty_model(&b) {
					all.push(b);
				}
			}
		}
		let cnt = all.len();
		guarded_loop(rep, "geo_roundtrip", cnt, |i, rep| geo_roundtrip(rep, &all[i]));
		rep.count("geo_roundtrips_exhaustive_z0_3", cnt as u64);
	}
	// sampled round trips up to zoom 31, rows next to the poles, columns next to the antimeridian
	let mut boxes = vec![];
	for _ in 0..n {
		let z = *rng.pick(&[4u8, 6, 8, 10, 12, 14, 16, 18, 20, 22, 24, 26, 28, 29, 30, 31]);
		let mut b = sample_box(rng, z);
		if is_empty_model(&b) {
			b = TileBBox::new(z, 0, 0, 0, 0).unwrap();
		}
		if rng.chance(0.3) {
			// single tile
			b = TileBBox::new(z, b.x_min, b.y_min, b.x_min, b.y_min).unwrap();
		}
		boxes.push(b);
	}
	let cnt = boxes.len();
	guarded_loop(rep, "geo_roundtrip", cnt, |i, rep| geo_roundtrip(rep, &boxes[i]));

	// cover
	let lat_lim = 85.05112877980659f64;
	let mut cases: Vec<(u8, GeoBBox, &'static str)> = vec![];
	for z in 0..32u8 {
		cases.push((z, GeoBBox(-180.0, -90.0, 180.0, 90.0), "world+poles"));
		cases.push((z, GeoBBox(-180.0, -lat_lim, 180.0, lat_lim), "world"));
		cases.push((z, GeoBBox(-180.0, 86.0, 180.0, 90.0), "beyond-mercator"));
		cases.push((z, GeoBBox(-180.0, -90.0, -180.0, -90.0), "point-corner"));
		cases.push((z, GeoBBox(180.0, 90.0, 180.0, 90.0), "point-corner"));
		cases.push((z, GeoBBox(0.0, 0.0, 0.0, 0.0), "point-on-border"));
		cases.push((z, GeoBBox(-90.0, 0.0, 90.0, 0.0), "line-on-border"));
		cases.push((z, GeoBBox(0.0, -40.0, 0.0, 40.0), "line-on-border"));
		cases.push((z, GeoBBox(13.4, 52.5, 13.4, 52.5), "point"));
		cases.push((z, GeoBBox(180.0, 10.0, 180.0, 20.0), "line-antimeridian"));
		cases.push((z, GeoBBox(-180.0, 10.0, -180.0, 20.0), "line-antimeridian"));
	}
	for _ in 0..n {
		let z = rng.below(32) as u8;
		let class;
		let g = match rng.below(8) {
			0 => {
				// zero-area point exactly on a tile corner of some level <= z
				let zz = rng.below(z as u64 + 1) as u8;
				let c = TileCoord3::new(rng.below(1 << zz.min(20)) as u32, rng.below(1 << zz.min(20)) as u32, zz).unwrap().as_geo();
				class = "point-on-border";
				GeoBBox(c[0], c[1], c[0], c[1])
			}
			1 => {
				class = "point";
				let (x, y) = (rng.f64_range(-180.0, 180.0), rng.f64_range(-90.0, 90.0));
				GeoBBox(x, y, x, y)
			}
			6 => {
				// narrower than the rounding guard, but not zero, and straddling a tile border
				class = "tiny-across-border";
				let zz = rng.below(z as u64 + 1).min(22) as u8;
				let c = TileCoord3::new(rng.below(1 << zz) as u32, rng.below(1 << zz) as u32, zz).unwrap().as_geo();
				let w = *rng.pick(&[1e-13, 1e-10, 1e-8]);
				let (lon, lat) = (c[0].clamp(-179.9, 179.9), c[1].clamp(-85.0, 85.0));
				match rng.below(3) {
					0 => GeoBBox(lon - w, lat - 3.0, lon + w, lat + 2.0),
					1 => GeoBBox(lon - 3.0_f64.min(lon + 180.0), lat - w, lon + 2.0_f64.min(180.0 - lon), lat + w),
					_ => GeoBBox(lon - w, lat - w, lon + w, lat + w),
				}
			}
			2 => {
				class = "tiny";
				let (x, y) = (rng.f64_range(-179.0, 179.0), rng.f64_range(-84.0, 84.0));
				let w = *rng.pick(&[1e-12, 1e-9, 1e-7, 1e-5]);
				GeoBBox(x, y, x + w, y + w)
			}
			3 => {
				class = "line";
				let (x, y) = (rng.f64_range(-180.0, 179.0), rng.f64_range(-90.0, 89.0));
				if rng.bool() {
					GeoBBox(x, y, x + rng.f64_range(0.0, 1.0), y)
				} else {
					GeoBBox(x, y, x, y + rng.f64_range(0.0, 1.0))
				}
			}
			4 => {
				class = "tile-aligned";
				let zz = rng.below(z as u64 + 1).min(20) as u8;
				let b = sample_box(rng, zz.max(1));
				if is_empty_model(&b) {
					GeoBBox(-10.0, -10.0, 10.0, 10.0)
				} else {
					b.as_geo_bbox()
				}
			}
			_ => {
				class = "random";
				let (x0, x1) = (rng.f64_range(-180.0, 180.0), rng.f64_range(-180.0, 180.0));
				let (y0, y1) = (rng.f64_range(-90.0, 90.0), rng.f64_range(-90.0, 90.0));
				GeoBBox(x0.min(x1), y0.min(y1), x0.max(x1), y0.max(y1))
			}
		};
		cases.push((z, g, class));
	}
	let cnt = cases.len();
	guarded_loop(rep, "from_geo", cnt, |i, rep| {
		let (z, g, class) = cases[i];
		geo_cover(rep, z, g, class);
	});

	// invalid boxes: error, never a panic, never Ok
	let invalid = [
		GeoBBox(10.0, 0.0, 5.0, 1.0),
		GeoBBox(0.0, 10.0, 1.0, 5.0),
		GeoBBox(-181.0, 0.0, 0.0, 1.0),
		GeoBBox(0.0, 0.0, 180.5, 1.0),
		GeoBBox(0.0, -91.0, 1.0, 0.0),
		GeoBBox(0.0, 0.0, 1.0, 90.5),
		GeoBBox(f64::NAN, 0.0, 1.0, 1.0),
		GeoBBox(0.0, 0.0, f64::NAN, 1.0),
		GeoBBox(0.0, f64::NAN, 1.0, 1.0),
		GeoBBox(0.0, 0.0, 1.0, f64::NAN),
		GeoBBox(f64::NEG_INFINITY, 0.0, 1.0, 1.0),
		GeoBBox(0.0, 0.0, f64::INFINITY, 1.0),
	];
	guarded_loop(rep, "from_geo_invalid", invalid.len() * 4, |i, rep| {
		let g = invalid[i / 4];
		let z = [0u8, 5, 14, 31][i % 4];
		set_cur(format!("invalid geo z{z} {g:?}"));
		rep.eval();
		rep.count("geo_invalid_checks", 1);
		if TileBBox::from_geo(z, &g).is_ok() {
			rep.violation("from_geo|invalid|accepted", "invalid geographic box accepted", json!({"z": z, "geo": format!("{g:?}")}));
		}
	});
	guarded_loop(rep, "from_geo_level", 1, |_, rep| {
		if TileBBox::from_geo(32, &GeoBBox(0.0, 0.0, 1.0, 1.0)).is_ok() {
			rep.violation("from_geo|level32|accepted", "level 32 accepted", json!({}));
		}
	});

	// pyramid helpers built on from_geo: valid boxes must never panic
	let valid = [GeoBBox(0.0, 0.0, 0.0, 0.0), GeoBBox(-180.0, -90.0, 180.0, 90.0), GeoBBox(13.0, 52.0, 14.0, 53.0), GeoBBox(-90.0, 0.0, 90.0, 0.0)];
	guarded_loop(rep, "pyramid_geo", valid.len(), |i, rep| {
		let g = valid[i];
		set_cur(format!("pyramid geo {g:?}"));
		rep.eval();
		let mut p = TileBBoxPyramid::new_full(31);
		p.intersect_geo_bbox(&g);
		for z in 0..32u8 {
			let lb = p.get_level_bbox(z);
			if lb.is_empty() {
				rep.violation("pyramid_intersect_geo|empty-level", "intersect_geo_bbox of a full pyramid with a valid box has an empty level", json!({"geo": format!("{g:?}"), "z": z}));
				break;
			}
		}
		let q = TileBBoxPyramid::from_geo_bbox(0, 31, &g);
		if q.get_zoom_min() != Some(0) || q.get_zoom_max() != Some(31) {
			rep.violation("pyramid_from_geo|levels", "from_geo_bbox lacks requested levels", json!({"geo": format!("{g:?}")}));
		}
	});

	// per-level application: the pyramid forms of the geographic operations are the box form applied level by
	// level — also for boxes whose edges lie a hair beside a tile border of some level
	let mut rng = crate::rng::Rng::new(0xC15_6E0 ^ rep.counter("geo_roundtrips"));
	let eps = [0.0, 1e-12, 1e-10, 1e-9, 1e-8, 1e-7, 1e-6, 1e-5];
	guarded_loop(rep, "pyramid_geo_per_level", 400, |_, rep| {
		let z0 = rng.range(0, 20) as u8;
		let n = 1u64 << z0;
		let edge = |rng: &mut crate::rng::Rng, lon: bool| -> f64 {
			let k = rng.range(0, n) as f64;
			let e = *rng.pick(&eps) * if rng.bool() { 1.0 } else { -1.0 };
			if lon {
				(crate::model::tile_lon(k, z0) + e).clamp(-180.0, 180.0)
			} else {
				(crate::model::tile_lat(k, z0) + e).clamp(-85.05, 85.05)
			}
		};
		let (a, b, c, d) = (edge(&mut rng, true), edge(&mut rng, false), edge(&mut rng, true), edge(&mut rng, false));
		let g = GeoBBox(a.min(c), b.min(d), a.max(c), b.max(d));
		set_cur(format!("pyramid per-level geo {g:?}"));
		rep.eval();
		rep.count("pyramid_geo_per_level_checks", 1);
		let mut p = TileBBoxPyramid::new_full(31);
		p.intersect_geo_bbox(&g);
		let q = TileBBoxPyramid::from_geo_bbox(0, 31, &g);
		for z in 0..32u8 {
			let Ok(want) = TileBBox::from_geo(z, &g) else { continue };
			let (lp, lq) = (p.get_level_bbox(z), q.get_level_bbox(z));
			let same = |x: &TileBBox| (x.is_empty() && want.is_empty()) || (x.x_min, x.y_min, x.x_max, x.y_max) == (want.x_min, want.y_min, want.x_max, want.y_max);
			if !same(lp) {
				rep.violation("pyramid_intersect_geo|per-level", "intersect_geo_bbox of a full pyramid differs from from_geo on a level", json!({"geo": format!("{g:?}"), "z": z, "pyramid": format!("{lp:?}"), "box": format!("{want:?}")}));
				break;
			}
			// containment in the pyramid is containment in the level's box, on every level (31 included)
			if !want.is_empty() {
				let m = ((1u64 << z) - 1) as u32;
				for (x, y) in [(want.x_min, want.y_min), (want.x_max, want.y_max), (want.x_min.saturating_sub(1), want.y_min), (want.x_max, (want.y_max as u64 + 1).min(m as u64) as u32)] {
					let inside = x >= want.x_min && x <= want.x_max && y >= want.y_min && y <= want.y_max;
					let c = TileCoord3::new(x, y, z).unwrap();
					rep.count("pyramid_containment_checks", 1);
					if p.contains_coord(&c) != inside {
						rep.violation("pyramid_contains|per-level", "contains_coord of a pyramid differs from containment in the box of that level", json!({"geo": format!("{g:?}"), "z": z, "coordinate": format!("{c:?}"), "level_box": format!("{lp:?}"), "expected": inside}));
						break;
					}
				}
			}
			if !same(lq) {
				rep.violation("pyramid_from_geo|per-level", "from_geo_bbox differs from from_geo on a level", json!({"geo": format!("{g:?}"), "z": z, "pyramid": format!("{lq:?}"), "box": format!("{want:?}")}));
				break;
			}
		}
	});
}

// ---------------------------------------------------------------------------------------------

fn run_case(cx: &CaseCtx, rep: &mut Report) {
	let mut rng = cx.rng();
	let case = cx.case;
	if cx.tier.is_tiny() {
		// interpreter flavour: the exhaustive laws and pairs of zoom 0..1, a few samples
		for z in 0..2 {
			unary_laws(z, rep);
		}
		for z in 0..2 {
			pair_laws(z, None, rep);
		}
		sampled_laws(rep, &mut rng, 12);
		// (the geographic part is left to the native runs: the interpreter perturbs float intrinsics on purpose)
		rep.count("geo_roundtrips", 1);
		rep.count("geo_cover_checks", 1);
		return;
	}
	if case == 0 {
		cx.progress("unary z0..3 + pairs z0..2 + pyramids");
		for z in 0..4 {
			unary_laws(z, rep);
		}
		for z in 0..3 {
			pair_laws(z, None, rep);
		}
		pyramid_small(rep, &mut rng);
		rep.sample(json!({"kind": "exhaustive", "what": "all boxes z0..3 unary laws; all ordered pairs z0..2", "boxes_z3": all_boxes(3).len()}));
	} else if case <= Z3_CHUNKS {
		cx.progress("pairs z3");
		pair_laws(3, Some((case - 1, Z3_CHUNKS)), rep);
		if case == 1 {
			let b = all_boxes(3);
			rep.sample(json!({"kind": "pair", "a": bstr(&b[700]), "b": bstr(&b[1299]), "note": "one of the 1300^2 ordered z3 pairs"}));
		}
	} else {
		let k = case - Z3_CHUNKS - 1;
		if k % 2 == 0 {
			cx.progress("sampled laws");
			sampled_laws(rep, &mut rng, cx.tier.pick(6000, 20000));
			if k == 0 {
				let b = sample_box(&mut rng, 31);
				rep.sample(json!({"kind": "sampled", "box": bstr(&b)}));
			}
		} else {
			cx.progress("geo");
			geo_part(rep, &mut rng, k == 1, cx.tier.pick(1500, 6000));
			if k == 1 {
				rep.sample(json!({"kind": "geo", "example": "GeoBBox(0,0,0,0) at every zoom; world; poles; random"}));
			}
		}
	}
}
