//! Server fixture: the real `versatiles serve` binary as a child process.

use std::io::Read;
use std::net::TcpListener;
use std::path::{Path, PathBuf};
use std::process::{Child, Command, Stdio};
use std::time::{Duration, Instant};

pub fn binary() -> Option<PathBuf> {
	let p = std::env::var("VTV_VERSATILES_BIN").map(PathBuf::from).unwrap_or_else(|_| crate::report::verif_dir().join("target/bin/debug/versatiles"));
	if p.exists() {
		Some(p)
	} else {
		None
	}
}

pub fn free_port() -> u16 {
	TcpListener::bind(("127.0.0.1", 0)).and_then(|l| l.local_addr()).map(|a| a.port()).unwrap_or(50999)
}

static VERBOSE: std::sync::atomic::AtomicBool = std::sync::atomic::AtomicBool::new(false);

pub struct Server {
	pub port: u16,
	child: Child,
	stderr_file: PathBuf,
}

impl Server {
	/// `args` are appended to `versatiles serve -i 127.0.0.1 -p <port>`
	pub fn start(args: &[String], cwd: &Path) -> Result<Server, String> {
		Self::start_in(args, cwd, cwd)
	}
	/// like `start`, with `-vvvv` (trace logging) in front of the subcommand
	pub fn start_verbose(args: &[String], cwd: &Path) -> Result<Server, String> {
		VERBOSE.store(true, std::sync::atomic::Ordering::SeqCst);
		let r = Self::start_in(args, cwd, cwd);
		VERBOSE.store(false, std::sync::atomic::Ordering::SeqCst);
		r
	}
	/// like `start`, but the server's log goes to `log_dir` (for servers whose working directory is served)
	pub fn start_in(args: &[String], cwd: &Path, log_dir: &Path) -> Result<Server, String> {
		let bin = binary().ok_or("versatiles binary not built")?;
		for attempt in 0..4 {
			let port = free_port();
			let stderr_file = log_dir.join(format!("server_{port}.stderr"));
			let f = std::fs::File::create(&stderr_file).map_err(|e| e.to_string())?;
			let mut c = Command::new(&bin);
			if VERBOSE.load(std::sync::atomic::Ordering::SeqCst) {
				c.arg("-vvvv");
			}
			c.arg("serve").arg("-i").arg("127.0.0.1").arg("-p").arg(port.to_string());
			for a in args {
				c.arg(a);
			}
			c.current_dir(cwd).stdin(Stdio::null()).stdout(Stdio::null()).stderr(Stdio::from(f));
			c.env("RUST_BACKTRACE", "0");
			let mut child = c.spawn().map_err(|e| format!("spawn: {e}"))?;
			let t0 = Instant::now();
			let mut up = false;
			while t0.elapsed() < Duration::from_secs(30) {
				if let Ok(Some(_)) = child.try_wait() {
					break;
				}
				let r = crate::http::get(port, "/status", &[]);
				if r.status == 200 {
					up = true;
					break;
				}
				std::thread::sleep(Duration::from_millis(40));
			}
			if up {
				return Ok(Server { port, child, stderr_file });
			}
			let _ = child.kill();
			let _ = child.wait();
			let err = std::fs::read_to_string(&stderr_file).unwrap_or_default();
			if attempt == 3 || !err.contains("ddress already in use") {
				return Err(format!("server did not come up: {}", err.chars().take(600).collect::<String>()));
			}
		}
		Err("server did not come up".into())
	}
	pub fn alive(&mut self) -> bool {
		matches!(self.child.try_wait(), Ok(None))
	}
	pub fn stderr(&self) -> String {
		let mut s = String::new();
		if let Ok(mut f) = std::fs::File::open(&self.stderr_file) {
			let _ = f.read_to_string(&mut s);
		}
		s
	}
	/// panic messages the server printed so far
	pub fn panics(&self) -> Vec<String> {
		self.stderr().lines().filter(|l| l.contains("panicked at")).map(|l| l.to_string()).collect()
	}
}

impl Drop for Server {
	fn drop(&mut self) {
		let _ = self.child.kill();
		let _ = self.child.wait();
	}
}
