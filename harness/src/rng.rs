//! Deterministic PRNG (xoshiro256** seeded through SplitMix64). No external crates.

#[derive(Clone, Debug)]
pub struct Rng {
	s: [u64; 4],
}

pub fn splitmix(x: &mut u64) -> u64 {
	*x = x.wrapping_add(0x9E3779B97F4A7C15);
	let mut z = *x;
	z = (z ^ (z >> 30)).wrapping_mul(0xBF58476D1CE4E5B9);
	z = (z ^ (z >> 27)).wrapping_mul(0x94D049BB133111EB);
	z ^ (z >> 31)
}

/// FNV-1a, used for fingerprints and for deriving per-case seeds.
pub fn fnv(bytes: &[u8]) -> u64 {
	let mut h: u64 = 0xcbf29ce484222325;
	for b in bytes {
		h ^= *b as u64;
		h = h.wrapping_mul(0x100000001b3);
	}
	h
}

pub fn case_seed(seed: u64, property: &str, case: u64) -> u64 {
	let mut x = seed ^ fnv(property.as_bytes()).rotate_left(17) ^ case.wrapping_mul(0xD6E8FEB86659FD93);
	splitmix(&mut x)
}

impl Rng {
	pub fn new(seed: u64) -> Rng {
		let mut x = seed;
		let s = [splitmix(&mut x), splitmix(&mut x), splitmix(&mut x), splitmix(&mut x)];
		Rng { s }
	}
	pub fn for_case(seed: u64, property: &str, case: u64) -> Rng {
		Rng::new(case_seed(seed, property, case))
	}
	pub fn next_u64(&mut self) -> u64 {
		let result = self.s[1].wrapping_mul(5).rotate_left(7).wrapping_mul(9);
		let t = self.s[1] << 17;
		self.s[2] ^= self.s[0];
		self.s[3] ^= self.s[1];
		self.s[1] ^= self.s[2];
		self.s[0] ^= self.s[3];
		self.s[2] ^= t;
		self.s[3] = self.s[3].rotate_left(45);
		result
	}
	pub fn next_u32(&mut self) -> u32 {
		(self.next_u64() >> 32) as u32
	}
	/// uniform in 0..n (n > 0)
	pub fn below(&mut self, n: u64) -> u64 {
		if n <= 1 {
			return 0;
		}
		// multiply-shift; bias is irrelevant here
		(((self.next_u64() as u128) * (n as u128)) >> 64) as u64
	}
	pub fn usize_below(&mut self, n: usize) -> usize {
		self.below(n as u64) as usize
	}
	/// uniform in lo..=hi
	pub fn range(&mut self, lo: u64, hi: u64) -> u64 {
		if hi <= lo {
			return lo;
		}
		if lo == 0 && hi == u64::MAX {
			return self.next_u64();
		}
		lo + self.below(hi - lo + 1)
	}
	pub fn range_i(&mut self, lo: i64, hi: i64) -> i64 {
		lo.wrapping_add(self.below((hi - lo + 1) as u64) as i64)
	}
	pub fn chance(&mut self, p: f64) -> bool {
		self.f64() < p
	}
	pub fn bool(&mut self) -> bool {
		self.next_u64() & 1 == 1
	}
	/// uniform in [0,1)
	pub fn f64(&mut self) -> f64 {
		(self.next_u64() >> 11) as f64 / (1u64 << 53) as f64
	}
	pub fn f64_range(&mut self, lo: f64, hi: f64) -> f64 {
		lo + (hi - lo) * self.f64()
	}
	pub fn pick<'a, T>(&mut self, list: &'a [T]) -> &'a T {
		&list[self.usize_below(list.len())]
	}
	pub fn bytes(&mut self, n: usize) -> Vec<u8> {
		let mut v = Vec::with_capacity(n);
		while v.len() + 8 <= n {
			v.extend_from_slice(&self.next_u64().to_le_bytes());
		}
		while v.len() < n {
			v.push(self.next_u64() as u8);
		}
		v
	}
	/// `lo..=hi` random bytes
	pub fn bytes_between(&mut self, lo: u64, hi: u64) -> Vec<u8> {
		let n = self.range(lo, hi) as usize;
		self.bytes(n)
	}
	pub fn shuffle<T>(&mut self, v: &mut [T]) {
		for i in (1..v.len()).rev() {
			let j = self.usize_below(i + 1);
			v.swap(i, j);
		}
	}
}
