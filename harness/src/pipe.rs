//! Pipeline fixture: a `PipelineFactory` whose `from_container` resolves names to in-memory
//! sources (optionally recording the requests they receive) or to real container files.

use crate::gen::{MemSource, Req, TileSet};
use anyhow::{anyhow, Result};
use futures::future::BoxFuture;
use std::collections::HashMap;
use std::path::{Path, PathBuf};
use std::sync::{Arc, Mutex};
use versatiles_container::{get_reader, PipelineReader};
use versatiles_core::types::*;
use versatiles_pipeline::PipelineFactory;

#[derive(Clone)]
pub enum Src {
	Mem { ts: TileSet, pyramid: Option<TileBBoxPyramid>, default_stream: bool, yields: u32, open_yields: u32 },
	File(PathBuf),
}

pub type Logs = Arc<Mutex<HashMap<String, Arc<Mutex<Vec<Req>>>>>>;

#[derive(Clone, Default)]
pub struct Sources {
	pub map: HashMap<String, Src>,
	/// per in-memory source: coordinates at which a single-tile lookup fails (a damaged region, an unreadable file)
	pub failing: HashMap<String, Arc<std::collections::BTreeSet<crate::gen::Key>>>,
}

impl Sources {
	pub fn new() -> Sources {
		Sources::default()
	}
	pub fn add_mem(&mut self, name: &str, ts: &TileSet) {
		self.map.insert(name.to_string(), Src::Mem { ts: ts.clone(), pyramid: None, default_stream: false, yields: 0, open_yields: 0 });
	}
	pub fn add(&mut self, name: &str, s: Src) {
		self.map.insert(name.to_string(), s);
	}
}

pub const DIR: &str = "/vtv-mem";

pub fn factory(sources: &Sources, data_dir: Option<&Path>) -> (PipelineFactory, Logs) {
	let logs: Logs = Arc::new(Mutex::new(HashMap::new()));
	let map = Arc::new(sources.map.clone());
	let failing = Arc::new(sources.failing.clone());
	let logs2 = logs.clone();
	let cb = Box::new(move |filename: String| -> BoxFuture<'static, Result<Box<dyn TilesReaderTrait>>> {
		let map = map.clone();
		let failing = failing.clone();
		let logs = logs2.clone();
		Box::pin(async move {
			let key = Path::new(&filename).file_name().map(|s| s.to_string_lossy().to_string()).unwrap_or_default();
			match map.get(&key) {
				None => Err(anyhow!("no such source: {filename}")),
				Some(Src::File(p)) => get_reader(p.to_str().unwrap()).await,
				Some(Src::Mem { ts, pyramid, default_stream, yields, open_yields }) => {
					for _ in 0..*open_yields {
						tokio::task::yield_now().await;
					}
					let mut m = match pyramid {
						Some(p) => MemSource::with_pyramid(ts, p.clone()),
						None => MemSource::new(ts),
					};
					m.default_stream = *default_stream;
					m.yields = *yields;
					m.name = key.clone();
					m.failing = failing.get(&key).cloned();
					let (m, log) = m.recording();
					logs.lock().unwrap().insert(key, log);
					Ok(m.boxed())
				}
			}
		})
	});
	let dir = data_dir.map(|p| p.to_path_buf()).unwrap_or_else(|| PathBuf::from(DIR));
	(PipelineFactory::default(&dir, cb), logs)
}

/// build a pipeline and wrap it as a `TilesReaderTrait`
pub async fn build(vpl: &str, sources: &Sources, data_dir: Option<&Path>) -> Result<(PipelineReader, Logs)> {
	let (f, logs) = factory(sources, data_dir);
	let operation = f.operation_from_vpl(vpl).await?;
	let parameters = operation.get_parameters().clone();
	Ok((PipelineReader { name: format!("vpl:{vpl}"), operation, parameters }, logs))
}
