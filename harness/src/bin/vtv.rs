use vtv::report::Tier;
use vtv::shard::{run_monitor, Args};

#[global_allocator]
static ALLOC: vtv::alloc::Counting = vtv::alloc::Counting;

fn main() {
	let argv: Vec<String> = std::env::args().collect();
	if let Some(n) = std::env::var("VTV_ALLOC_TRAP").ok().and_then(|s| s.parse().ok()) {
		vtv::alloc::set_trap(n);
	}
	if argv.len() < 2 {
		eprintln!("usage: vtv <property> [--tier quick|thorough] [--seed N] [--case N]");
		std::process::exit(2);
	}
	let id = argv[1].clone();
	if !id.starts_with('C') {
		match vtv::mon::special(&id, &argv[2..]) {
			Some(code) => std::process::exit(code),
			None => {
				eprintln!("unknown sub-command {id}");
				std::process::exit(2);
			}
		}
	}
	let mut a = Args {
		tier: Tier::parse(&std::env::var("VERIF_TIER").unwrap_or_default()),
		seed: std::env::var("VERIF_SEED").ok().and_then(|s| s.parse().ok()).unwrap_or(1),
		shard: None,
		from: 0,
		skip: vec![],
		case: None,
		part: 0,
	};
	let mut i = 2;
	while i < argv.len() {
		let v = argv.get(i + 1).cloned().unwrap_or_default();
		match argv[i].as_str() {
			"--tier" => a.tier = Tier::parse(&v),
			"--seed" => a.seed = v.parse().unwrap_or(1),
			"--case" => a.case = v.parse().ok(),
			"--from" => a.from = v.parse().unwrap_or(0),
			"--part" => a.part = v.parse().unwrap_or(0),
			"--skip" => a.skip = v.split(',').filter_map(|s| s.parse().ok()).collect(),
			"--shard" => {
				let mut it = v.split('/');
				let x = it.next().and_then(|s| s.parse().ok()).unwrap_or(0);
				let k = it.next().and_then(|s| s.parse().ok()).unwrap_or(1);
				a.shard = Some((x, k));
			}
			other => {
				eprintln!("unknown argument {other}");
				std::process::exit(2);
			}
		}
		i += 2;
	}
	let defs = vtv::mon::all();
	match defs.iter().find(|d| d.id == id) {
		Some(def) => std::process::exit(run_monitor(def, &a)),
		None => {
			if let Some(code) = vtv::mon::special(&id, &argv[2..]) {
				std::process::exit(code);
			}
			eprintln!("unknown property {id}");
			std::process::exit(2);
		}
	}
}
