//! MBTiles through own SQL (rusqlite): tables `metadata(name,value)` and `tiles(zoom_level,
//! tile_column,tile_row,tile_data)` with TMS rows (row = 2^z-1-y).

use super::Decoded;
use crate::comp::Comp;
use crate::gen::TileSet;
use crate::rng::Rng;
use r2d2_sqlite::rusqlite::{params, Connection, OpenFlags};
use std::collections::BTreeMap;
use std::path::Path;

pub fn decode(path: &Path) -> Result<(Decoded, BTreeMap<String, String>), String> {
	let conn = Connection::open_with_flags(path, OpenFlags::SQLITE_OPEN_READ_ONLY).map_err(|e| e.to_string())?;
	let mut d = Decoded::default();
	let mut meta = BTreeMap::new();
	{
		let mut st = conn.prepare("SELECT name, value FROM metadata").map_err(|e| e.to_string())?;
		let rows = st.query_map([], |r| Ok((r.get::<_, String>(0)?, r.get::<_, String>(1)?))).map_err(|e| e.to_string())?;
		for r in rows {
			let (k, v) = r.map_err(|e| e.to_string())?;
			meta.insert(k, v);
		}
	}
	match meta.get("format").map(|s| s.as_str()) {
		Some("pbf") => {
			d.format = Some("pbf".into());
			d.comp = Some(Comp::Gzip);
		}
		Some(f @ ("jpg" | "png" | "webp")) => {
			d.format = Some(f.to_string());
			d.comp = Some(Comp::None);
		}
		other => d.notes.push(format!("format row: {other:?}")),
	}
	{
		let mut st = conn.prepare("SELECT zoom_level, tile_column, tile_row, tile_data FROM tiles").map_err(|e| e.to_string())?;
		let rows = st.query_map([], |r| Ok((r.get::<_, i64>(0)?, r.get::<_, i64>(1)?, r.get::<_, i64>(2)?, r.get::<_, Vec<u8>>(3)?))).map_err(|e| e.to_string())?;
		for r in rows {
			let (z, x, row, data) = r.map_err(|e| e.to_string())?;
			if !(0..=31).contains(&z) {
				return Err(format!("zoom {z}"));
			}
			let n = 1i64 << z;
			if x < 0 || x >= n || row < 0 || row >= n {
				return Err(format!("tile {z}/{x}/{row} outside its level"));
			}
			let y = n - 1 - row;
			if d.tiles.insert((z as u8, x as u32, y as u32), data).is_some() {
				return Err(format!("tile {z}/{x}/{y} stored twice"));
			}
		}
	}
	Ok((d, meta))
}

#[derive(Clone, Debug)]
pub struct EncOpts {
	pub extra_metadata: bool,
	pub with_bounds: bool,
	pub shuffle: bool,
	pub with_index: bool,
	/// `tiles` is a view over `map` + `images` (as written by tilelive / mapbox tools)
	pub tiles_as_view: bool,
	/// with `tiles_as_view`: a few `map` rows whose image is missing (the view is a LEFT JOIN, the row shows up
	/// with tile_data NULL). They lie inside the bounds of the real tiles and denote no tile.
	pub dangling_rows: bool,
	/// order in which `tiles` declares its columns (the specification fixes their names, not their order):
	/// 0 zoom_level, tile_column, tile_row, tile_data; 1 tile_data first; 2 tile_column, tile_row, zoom_level,
	/// tile_data; 3 tile_row, zoom_level, tile_data, tile_column
	pub column_order: u8,
	/// a flat `tiles` table next to a `map` table another tool left behind (a few stale rows of other levels /
	/// coordinates): only `tiles` is the tile set
	pub leftover_map: bool,
}
impl EncOpts {
	pub fn random(rng: &mut Rng) -> EncOpts {
		EncOpts { extra_metadata: rng.chance(0.5), with_bounds: rng.chance(0.5), shuffle: rng.chance(0.5), with_index: rng.chance(0.7), tiles_as_view: rng.chance(0.35), dangling_rows: rng.chance(0.4), column_order: if rng.chance(0.6) { 0 } else { 1 + rng.below(3) as u8 }, leftover_map: rng.chance(0.2) }
	}
}

fn ordered<'a>(o: &EncOpts, cols: [&'a str; 4]) -> Vec<&'a str> {
	// cols = [zoom_level, tile_column, tile_row, tile_data]
	match o.column_order {
		1 => vec![cols[3], cols[0], cols[1], cols[2]],
		2 => vec![cols[1], cols[2], cols[0], cols[3]],
		3 => vec![cols[2], cols[0], cols[3], cols[1]],
		_ => cols.to_vec(),
	}
}

pub fn encode(ts: &TileSet, path: &Path, o: &EncOpts, rng: &mut Rng) -> Result<(), String> {
	let _ = std::fs::remove_file(path);
	let mut conn = Connection::open(path).map_err(|e| e.to_string())?;
	if o.tiles_as_view {
		conn.execute_batch(
			"CREATE TABLE metadata (name TEXT, value TEXT);
			 CREATE TABLE map (zoom_level INTEGER, tile_column INTEGER, tile_row INTEGER, tile_id TEXT);
			 CREATE TABLE images (tile_data BLOB, tile_id TEXT);
			 CREATE UNIQUE INDEX map_index ON map (zoom_level, tile_column, tile_row);
			 CREATE UNIQUE INDEX images_id ON images (tile_id);
			 CREATE UNIQUE INDEX images_id2 ON images (tile_id, tile_data);",
		)
		.and_then(|_| {
			let cols = ordered(o, ["map.zoom_level AS zoom_level", "map.tile_column AS tile_column", "map.tile_row AS tile_row", "images.tile_data AS tile_data"]).join(", ");
			conn.execute_batch(&format!("CREATE VIEW tiles AS SELECT {cols} FROM map {} JOIN images ON images.tile_id = map.tile_id;", if o.dangling_rows { "LEFT" } else { "" }))
		})
		.map_err(|e| e.to_string())?;
	} else {
		let cols = ordered(o, ["zoom_level INTEGER", "tile_column INTEGER", "tile_row INTEGER", "tile_data BLOB"]).join(", ");
		conn.execute_batch(&format!("CREATE TABLE metadata (name TEXT, value TEXT); CREATE TABLE tiles ({cols});")).map_err(|e| e.to_string())?;
	}
	if o.leftover_map && !o.tiles_as_view {
		conn.execute_batch(
			"CREATE TABLE map (zoom_level INTEGER, tile_column INTEGER, tile_row INTEGER, tile_id TEXT);
			 INSERT INTO map VALUES (3, 2, 5, 'stale-a'); INSERT INTO map VALUES (3, 3, 4, 'stale-b'); INSERT INTO map VALUES (17, 70000, 60000, 'stale-c');",
		)
		.map_err(|e| e.to_string())?;
	}
	if o.with_index && !o.tiles_as_view {
		conn.execute_batch("CREATE UNIQUE INDEX tile_index ON tiles (zoom_level, tile_column, tile_row);").map_err(|e| e.to_string())?;
	}
	let format = super::format_name(ts.format);
	let tx = conn.transaction().map_err(|e| e.to_string())?;
	tx.execute("INSERT INTO metadata VALUES ('format', ?1)", params![format]).map_err(|e| e.to_string())?;
	tx.execute("INSERT INTO metadata VALUES ('name', 'independent encoder')", []).map_err(|e| e.to_string())?;
	if o.with_bounds {
		let b = super::ivt::geo_bounds(ts);
		tx.execute("INSERT INTO metadata VALUES ('bounds', ?1)", params![format!("{},{},{},{}", b[0], b[1], b[2], b[3])]).map_err(|e| e.to_string())?;
		let l = ts.levels();
		tx.execute("INSERT INTO metadata VALUES ('minzoom', ?1)", params![l.iter().next().unwrap().to_string()]).map_err(|e| e.to_string())?;
		tx.execute("INSERT INTO metadata VALUES ('maxzoom', ?1)", params![l.iter().next_back().unwrap().to_string()]).map_err(|e| e.to_string())?;
	}
	if o.extra_metadata {
		tx.execute("INSERT INTO metadata VALUES ('generator', 'vtv')", []).map_err(|e| e.to_string())?;
		tx.execute("INSERT INTO metadata VALUES ('scheme', 'tms')", []).map_err(|e| e.to_string())?;
		tx.execute("INSERT INTO metadata VALUES ('attribution', '(c) someone')", []).map_err(|e| e.to_string())?;
	}
	let mut keys: Vec<_> = ts.tiles.iter().collect();
	if o.shuffle {
		rng.shuffle(&mut keys);
	}
	for (k, v) in keys {
		let row = (1i64 << k.0) - 1 - k.2 as i64;
		if o.tiles_as_view {
			// identical contents share one image row
			let id = format!("{:016x}{:x}", crate::rng::fnv(v), v.len());
			tx.execute("INSERT OR IGNORE INTO images VALUES (?1, ?2)", params![v, id]).map_err(|e| e.to_string())?;
			tx.execute("INSERT INTO map VALUES (?1, ?2, ?3, ?4)", params![k.0 as i64, k.1 as i64, row, id]).map_err(|e| e.to_string())?;
		} else {
			tx.execute("INSERT INTO tiles (zoom_level, tile_column, tile_row, tile_data) VALUES (?1, ?2, ?3, ?4)", params![k.0 as i64, k.1 as i64, row, v]).map_err(|e| e.to_string())?;
		}
	}
	if o.tiles_as_view && o.dangling_rows {
		let bounds = ts.bounds();
		let mut added = 0;
		let mut scanned = 0u32;
		for (z, b) in &bounds {
			for x in b.0..=b.2 {
				for y in b.1..=b.3 {
					scanned += 1;
					if scanned > 3000 {
						break;
					}
					if added < 3 && !ts.tiles.contains_key(&(*z, x, y)) && rng.chance(0.3) {
						let row = (1i64 << z) - 1 - y as i64;
						tx.execute("INSERT INTO map VALUES (?1, ?2, ?3, ?4)", params![*z as i64, x as i64, row, format!("missing-{added}")]).map_err(|e| e.to_string())?;
						added += 1;
					}
				}
				if added >= 3 || scanned > 3000 {
					break;
				}
			}
		}
	}
	tx.commit().map_err(|e| e.to_string())?;
	Ok(())
}
