//! directory container: `{z}/{x}/{y}.{ext}[.gz|.br]` below a root, metadata file next to the level directories.

use super::{split_tile_filename, Decoded};
use crate::comp::{self, Comp};
use crate::gen::TileSet;
use crate::rng::Rng;
use std::path::Path;

pub fn decode(root: &Path) -> Result<Decoded, String> {
	let mut d = Decoded::default();
	let rd = std::fs::read_dir(root).map_err(|e| format!("{root:?}: {e}"))?;
	for e1 in rd.flatten() {
		let n1 = e1.file_name().to_string_lossy().to_string();
		if e1.path().is_dir() {
			let z: u8 = match n1.parse() {
				Ok(z) => z,
				Err(_) => {
					d.notes.push(format!("unknown directory {n1}"));
					continue;
				}
			};
			for e2 in std::fs::read_dir(e1.path()).map_err(|e| e.to_string())?.flatten() {
				let n2 = e2.file_name().to_string_lossy().to_string();
				let x: u32 = match n2.parse() {
					Ok(x) => x,
					Err(_) => continue,
				};
				for e3 in std::fs::read_dir(e2.path()).map_err(|e| e.to_string())?.flatten() {
					let n3 = e3.file_name().to_string_lossy().to_string();
					if let Some((stem, f, c)) = split_tile_filename(&n3) {
						if let Ok(y) = stem.parse::<u32>() {
							match (&d.format, d.comp) {
								(None, _) => {
									d.format = Some(f.to_string());
									d.comp = Some(c);
								}
								(Some(f0), Some(c0)) if f0 == f && c0 == c => {}
								_ => return Err(format!("mixed tile formats / compressions ({n1}/{n2}/{n3})")),
							}
							let data = std::fs::read(e3.path()).map_err(|e| e.to_string())?;
							if d.tiles.insert((z, x, y), data).is_some() {
								return Err(format!("tile {z}/{x}/{y} stored twice"));
							}
						}
					}
				}
			}
		} else {
			let (base, c) = if let Some(b) = n1.strip_suffix(".gz") {
				(b.to_string(), Comp::Gzip)
			} else if let Some(b) = n1.strip_suffix(".br") {
				(b.to_string(), Comp::Brotli)
			} else {
				(n1.clone(), Comp::None)
			};
			if ["tiles.json", "meta.json", "metadata.json"].contains(&base.as_str()) {
				let data = std::fs::read(e1.path()).map_err(|e| e.to_string())?;
				d.meta = Some(comp::decompress(&data, c).map_err(|e| format!("metadata file {n1}: {e}"))?);
			}
		}
	}
	Ok(d)
}

#[derive(Clone, Debug)]
pub struct EncOpts {
	pub meta_name: &'static str,
	pub no_meta: bool,
	pub stray_files: bool,
	/// spell some numbers of the path with a leading zero or plus sign (`03/`, `+7/`, `012.png`): the reader
	/// parses the names as numbers, so one level / column may be spread over several folders. Not claimed
	/// to be part of the published layout — only used where consistency of what the reader returns is checked.
	pub alt_spellings: bool,
	/// a de-duplicating tile cache: some tiles are symbolic links to a blob stored elsewhere under the root
	/// (every tile still reads under its own z/x/y name)
	pub symlinks: bool,
}
impl EncOpts {
	pub fn random(rng: &mut Rng) -> EncOpts {
		EncOpts { meta_name: *rng.pick(&["tiles.json", "meta.json", "metadata.json"]), no_meta: rng.chance(0.2), stray_files: rng.chance(0.4), alt_spellings: false, symlinks: rng.chance(0.3) }
	}
}

fn spell(n: u32, variant: u32) -> String {
	match variant % 4 {
		1 => format!("0{n}"),
		2 => format!("+{n}"),
		_ => n.to_string(),
	}
}

pub fn encode(ts: &TileSet, root: &Path, o: &EncOpts) -> Result<(), String> {
	let ext = super::ext_of(super::format_name(ts.format));
	std::fs::create_dir_all(root).map_err(|e| e.to_string())?;
	// middle column of every level
	let mut mid: std::collections::BTreeMap<u8, u32> = Default::default();
	for z in ts.levels() {
		let xs: Vec<u32> = ts.tiles.keys().filter(|k| k.0 == z).map(|k| k.1).collect();
		let (lo, hi) = (*xs.iter().min().unwrap(), *xs.iter().max().unwrap());
		mid.insert(z, lo + (hi - lo) / 2);
	}
	for (k, v) in &ts.tiles {
		// the spelling of z depends on the column, that of x on the row: every tile still has exactly one path
		// (the lower half of a level's columns goes into one folder, the upper half into another one, so each
		// folder on its own covers less than the level)
		let (vz, vx, vy) = if o.alt_spellings { (if k.1 <= mid.get(&k.0).cloned().unwrap_or(0) { 0 } else { 1 + k.1 % 2 }, k.2 % 5, (k.1 + k.2) % 7) } else { (0, 0, 0) };
		let dir = root.join(spell(k.0 as u32, vz)).join(spell(k.1, if vx == 1 { 1 } else { 0 }));
		std::fs::create_dir_all(&dir).map_err(|e| e.to_string())?;
		let file = dir.join(format!("{}{}{}", spell(k.2, if vy == 1 { 1 } else { 0 }), ext, ts.comp.ext()));
		#[cfg(unix)]
		if o.symlinks && (k.1 as u64 + k.2 as u64 * 3) % 4 != 2 {
			// the blob lives in a pool folder, the tile name is a link to it (absolute target)
			let pool = root.join("pool");
			std::fs::create_dir_all(&pool).map_err(|e| e.to_string())?;
			let blob = pool.join(format!("{:016x}", crate::rng::fnv(v) ^ (v.len() as u64)));
			if !blob.exists() {
				std::fs::write(&blob, v).map_err(|e| e.to_string())?;
			}
			let target = std::fs::canonicalize(&blob).map_err(|e| e.to_string())?;
			let same = std::fs::read(&target).map(|b| &b == v).unwrap_or(false);
			if same && std::os::unix::fs::symlink(&target, &file).is_ok() {
				continue;
			}
		}
		std::fs::write(file, v).map_err(|e| e.to_string())?;
	}
	if !o.no_meta {
		std::fs::write(root.join(format!("{}{}", o.meta_name, ts.comp.ext())), comp::compress(ts.tilejson.as_bytes(), ts.comp)).map_err(|e| e.to_string())?;
	}
	if o.stray_files {
		std::fs::write(root.join("README.txt"), b"not a tile").map_err(|e| e.to_string())?;
		// neighbours of the metadata file that merely begin with its name: an editor's backup holding an older
		// revision, a checksum, a note — none of them is the metadata
		if !o.no_meta {
			let stale = "{\"tilejson\":\"2.2.0\",\"name\":\"older revision\",\"bounds\":[-170,-80,170,80],\"stale_key\":\"left behind\"}";
			std::fs::write(root.join(format!("{}~", o.meta_name)), stale).map_err(|e| e.to_string())?;
			std::fs::write(root.join(format!("{}.bak", o.meta_name)), stale).map_err(|e| e.to_string())?;
			std::fs::write(root.join(format!("{}.sha256", o.meta_name)), b"0f3a  tiles.json\n").map_err(|e| e.to_string())?;
		}
		std::fs::create_dir_all(root.join("assets")).map_err(|e| e.to_string())?;
		std::fs::write(root.join("assets").join("style.json"), b"{}").map_err(|e| e.to_string())?;
	}
	Ok(())
}
