//! PMTiles v3, written from the published specification: 127-byte little-endian header, root
//! directory inside the first 16 KiB, metadata, optional leaf directories, tile data.
//! Directories: varint count, delta-coded tile ids, run lengths, lengths, offsets (0 = contiguous).

use super::{put_varint, slice, Decoded, Rd};
use crate::comp::{self, Comp};
use crate::gen::{Key, TileSet};
use crate::rng::Rng;
use std::collections::BTreeMap;

// ---- Hilbert tile ids (own implementation) ---------------------------------------------------

pub fn zxy_to_id(z: u8, x: u32, y: u32) -> u64 {
	let mut acc: u64 = 0;
	for t in 0..z as u32 {
		acc += 1u64 << (2 * t);
	}
	let n: u64 = 1u64 << z;
	let (mut x, mut y) = (x as u64, y as u64);
	let mut d: u64 = 0;
	let mut s = n / 2;
	while s > 0 {
		let rx = if x & s > 0 { 1u64 } else { 0 };
		let ry = if y & s > 0 { 1u64 } else { 0 };
		d += s * s * ((3 * rx) ^ ry);
		if ry == 0 {
			if rx == 1 {
				x = n - 1 - x;
				y = n - 1 - y;
			}
			std::mem::swap(&mut x, &mut y);
		}
		s /= 2;
	}
	acc + d
}

pub fn id_to_zxy(id: u64) -> Option<Key> {
	let mut acc: u64 = 0;
	for z in 0..32u8 {
		let num = 1u64 << (2 * z as u32);
		if acc + num > id {
			let n = 1u64 << z;
			let mut t = id - acc;
			let (mut x, mut y) = (0u64, 0u64);
			let mut s = 1u64;
			while s < n {
				let rx = 1 & (t / 2);
				let ry = 1 & (t ^ rx);
				if ry == 0 {
					if rx == 1 {
						x = s - 1 - x;
						y = s - 1 - y;
					}
					std::mem::swap(&mut x, &mut y);
				}
				x += s * rx;
				y += s * ry;
				t /= 4;
				s *= 2;
			}
			return Some((z, x as u32, y as u32));
		}
		acc += num;
	}
	None
}

// ---- header ---------------------------------------------------------------------------------

#[derive(Debug, Clone, Default)]
pub struct Header {
	pub root: (u64, u64),
	pub meta: (u64, u64),
	pub leaves: (u64, u64),
	pub data: (u64, u64),
	pub addressed: u64,
	pub entries: u64,
	pub contents: u64,
	pub clustered: bool,
	pub internal_comp: u8,
	pub tile_comp: u8,
	pub tile_type: u8,
	pub min_zoom: u8,
	pub max_zoom: u8,
	pub bounds: [i32; 4],
	pub center_zoom: u8,
	pub center: [i32; 2],
}

pub fn parse_header(b: &[u8]) -> Result<Header, String> {
	if b.len() < 127 {
		return Err("shorter than the 127-byte header".into());
	}
	let mut r = Rd::new(&b[..127]);
	if r.take(7)? != b"PMTiles" {
		return Err("bad magic".into());
	}
	if r.u8()? != 3 {
		return Err("not version 3".into());
	}
	let mut h = Header::default();
	h.root = (r.u64_le()?, r.u64_le()?);
	h.meta = (r.u64_le()?, r.u64_le()?);
	h.leaves = (r.u64_le()?, r.u64_le()?);
	h.data = (r.u64_le()?, r.u64_le()?);
	h.addressed = r.u64_le()?;
	h.entries = r.u64_le()?;
	h.contents = r.u64_le()?;
	h.clustered = r.u8()? == 1;
	h.internal_comp = r.u8()?;
	h.tile_comp = r.u8()?;
	h.tile_type = r.u8()?;
	h.min_zoom = r.u8()?;
	h.max_zoom = r.u8()?;
	h.bounds = [r.i32_le()?, r.i32_le()?, r.i32_le()?, r.i32_le()?];
	h.center_zoom = r.u8()?;
	h.center = [r.i32_le()?, r.i32_le()?];
	Ok(h)
}

fn comp_of(code: u8) -> Result<Comp, String> {
	match code {
		1 => Ok(Comp::None),
		2 => Ok(Comp::Gzip),
		3 => Ok(Comp::Brotli),
		0 => Err("compression unknown".into()),
		4 => Err("zstd".into()),
		c => Err(format!("compression code {c}")),
	}
}
fn comp_code(c: Comp) -> u8 {
	match c {
		Comp::None => 1,
		Comp::Gzip => 2,
		Comp::Brotli => 3,
	}
}
fn type_name(code: u8) -> Option<&'static str> {
	match code {
		1 => Some("pbf"),
		2 => Some("png"),
		3 => Some("jpg"),
		4 => Some("webp"),
		5 => Some("avif"),
		_ => None,
	}
}
fn type_code(name: &str) -> u8 {
	match name {
		"pbf" => 1,
		"png" => 2,
		"jpg" => 3,
		"webp" => 4,
		"avif" => 5,
		_ => 0,
	}
}

// ---- directories ----------------------------------------------------------------------------

#[derive(Debug, Clone, Copy, PartialEq)]
pub struct Entry {
	pub id: u64,
	pub offset: u64,
	pub length: u64,
	pub run: u32,
}

pub fn parse_dir(raw: &[u8]) -> Result<Vec<Entry>, String> {
	let mut r = Rd::new(raw);
	let n = r.varint()? as usize;
	if n > raw.len() {
		return Err("directory announces more entries than bytes".into());
	}
	let mut e = vec![Entry { id: 0, offset: 0, length: 0, run: 0 }; n];
	let mut last = 0u64;
	for x in e.iter_mut() {
		last = last.checked_add(r.varint()?).ok_or("id overflow")?;
		x.id = last;
	}
	for x in e.iter_mut() {
		x.run = r.varint()? as u32;
	}
	for x in e.iter_mut() {
		x.length = r.varint()?;
	}
	for i in 0..n {
		let v = r.varint()?;
		e[i].offset = if v == 0 && i > 0 { e[i - 1].offset + e[i - 1].length } else { v.checked_sub(1).ok_or("offset 0 in first entry")? };
	}
	Ok(e)
}

pub fn ser_dir(entries: &[Entry]) -> Vec<u8> {
	let mut o = vec![];
	put_varint(&mut o, entries.len() as u64);
	let mut last = 0;
	for e in entries {
		put_varint(&mut o, e.id - last);
		last = e.id;
	}
	for e in entries {
		put_varint(&mut o, e.run as u64);
	}
	for e in entries {
		put_varint(&mut o, e.length);
	}
	for (i, e) in entries.iter().enumerate() {
		if i > 0 && e.offset == entries[i - 1].offset + entries[i - 1].length {
			put_varint(&mut o, 0);
		} else {
			put_varint(&mut o, e.offset + 1);
		}
	}
	o
}

pub struct DecodeInfo {
	pub leaf_dirs: usize,
	pub max_depth: usize,
	pub runs_gt1: usize,
	pub header: Header,
}

pub fn decode(bytes: &[u8]) -> Result<Decoded, String> {
	decode_info(bytes).map(|x| x.0)
}

pub fn decode_info(bytes: &[u8]) -> Result<(Decoded, DecodeInfo), String> {
	let h = parse_header(bytes)?;
	let ic = comp_of(h.internal_comp).map_err(|e| format!("internal compression: {e}"))?;
	let mut d = Decoded::default();
	d.format = type_name(h.tile_type).map(String::from);
	d.comp = comp_of(h.tile_comp).ok();
	if h.root.0 + h.root.1 > 16384 {
		d.notes.push("root directory reaches beyond the first 16 KiB".into());
	}
	if h.meta.1 > 0 {
		d.meta = Some(comp::decompress(slice(bytes, h.meta.0, h.meta.1)?, ic).map_err(|e| format!("metadata: {e}"))?);
	}
	let mut info = DecodeInfo { leaf_dirs: 0, max_depth: 0, runs_gt1: 0, header: h.clone() };
	let root = comp::decompress(slice(bytes, h.root.0, h.root.1)?, ic).map_err(|e| format!("root directory: {e}"))?;
	fn walk(bytes: &[u8], h: &Header, ic: Comp, dir: &[u8], depth: usize, d: &mut Decoded, info: &mut DecodeInfo) -> Result<(), String> {
		if depth > 4 {
			return Err("directories nested deeper than 4".into());
		}
		info.max_depth = info.max_depth.max(depth);
		for e in parse_dir(dir)? {
			if e.run == 0 {
				info.leaf_dirs += 1;
				let leaf = comp::decompress(slice(bytes, h.leaves.0 + e.offset, e.length)?, ic).map_err(|x| format!("leaf directory: {x}"))?;
				walk(bytes, h, ic, &leaf, depth + 1, d, info)?;
			} else {
				if e.run > 1 {
					info.runs_gt1 += 1;
				}
				let data = slice(bytes, h.data.0 + e.offset, e.length)?;
				for i in 0..e.run as u64 {
					let k = id_to_zxy(e.id + i).ok_or("tile id beyond zoom 31")?;
					if d.tiles.insert(k, data.to_vec()).is_some() {
						return Err(format!("tile {k:?} addressed twice"));
					}
				}
			}
		}
		Ok(())
	}
	walk(bytes, &h, ic, &root, 0, &mut d, &mut info)?;
	Ok((d, info))
}

// ---- encoder --------------------------------------------------------------------------------

#[derive(Clone, Debug)]
pub struct EncOpts {
	pub internal: Comp,
	/// merge consecutive ids with identical content into runs
	pub runs: bool,
	/// store identical contents once (shared offsets)
	pub dedup: bool,
	/// tile data in random order
	pub unclustered: bool,
	/// 0 = root only, 1 = one leaf level, 2 = two leaf levels
	pub leaf_levels: u8,
	pub leaf_size: usize,
	pub no_meta: bool,
	/// order of the metadata / leaf directories / tile data sections after the root directory, with padding between them
	pub section_order: [u8; 3],
	pub padding: bool,
	/// leave the three tile counts of the header at 0 — the specification's value for "unknown"
	pub unknown_counts: bool,
}

impl EncOpts {
	pub fn random(rng: &mut Rng, n_tiles: usize) -> EncOpts {
		EncOpts {
			internal: *rng.pick(&comp::ALL),
			runs: rng.chance(0.6),
			dedup: rng.chance(0.6),
			unclustered: rng.chance(0.4),
			leaf_levels: if n_tiles < 3 { 0 } else { rng.below(3) as u8 },
			leaf_size: rng.range(1, 40) as usize,
			no_meta: rng.chance(0.2),
			section_order: *rng.pick(&[[0u8, 1, 2], [0, 1, 2], [2, 1, 0], [1, 2, 0], [2, 0, 1], [0, 2, 1], [1, 0, 2]]),
			padding: rng.chance(0.3),
			unknown_counts: rng.chance(0.25),
		}
	}
}

pub fn encode(ts: &TileSet, o: &EncOpts, rng: &mut Rng) -> Vec<u8> {
	// any window size is the encoder's choice
	comp::set_brotli_window(rng.range(10, 24) as u32);
	let out = encode_inner(ts, o, rng);
	comp::set_brotli_window(22);
	out
}

fn encode_inner(ts: &TileSet, o: &EncOpts, rng: &mut Rng) -> Vec<u8> {
	// tile data section
	let mut ids: Vec<(u64, &Vec<u8>)> = ts.tiles.iter().map(|(k, v)| (zxy_to_id(k.0, k.1, k.2), v)).collect();
	ids.sort_by_key(|e| e.0);
	let mut data: Vec<u8> = vec![];
	let mut where_is: std::collections::HashMap<&Vec<u8>, (u64, u64)> = std::collections::HashMap::new();
	let mut place_order: Vec<usize> = (0..ids.len()).collect();
	if o.unclustered {
		rng.shuffle(&mut place_order);
	}
	let mut placed: Vec<(u64, u64)> = vec![(0, 0); ids.len()];
	let mut contents = 0u64;
	for i in place_order {
		let v = ids[i].1;
		if o.dedup {
			if let Some(r) = where_is.get(v) {
				placed[i] = *r;
				continue;
			}
		}
		let r = (data.len() as u64, v.len() as u64);
		data.extend_from_slice(v);
		contents += 1;
		where_is.insert(v, r);
		placed[i] = r;
	}
	// entries, with optional runs
	let mut entries: Vec<Entry> = vec![];
	for (i, (id, v)) in ids.iter().enumerate() {
		if o.runs && i > 0 {
			if let Some(last) = entries.last_mut() {
				// consecutive ids with identical content form a run (the content is addressed once)
				if last.id + last.run as u64 == *id && ids[i - 1].1 == *v {
					last.run += 1;
					continue;
				}
			}
		}
		entries.push(Entry { id: *id, offset: placed[i].0, length: placed[i].1, run: 1 });
	}
	let n_entries = entries.len() as u64;
	// directories
	let mut leaves: Vec<u8> = vec![];
	let mut level_entries = entries;
	for _ in 0..o.leaf_levels {
		let mut parents: Vec<Entry> = vec![];
		for chunk in level_entries.chunks(o.leaf_size.max(1)) {
			let ser = comp::compress(&ser_dir(chunk), o.internal);
			parents.push(Entry { id: chunk[0].id, offset: leaves.len() as u64, length: ser.len() as u64, run: 0 });
			leaves.extend_from_slice(&ser);
		}
		level_entries = parents;
	}
	let root = comp::compress(&ser_dir(&level_entries), o.internal);
	let meta = if o.no_meta { comp::compress(b"{}", o.internal) } else { comp::compress(ts.tilejson.as_bytes(), o.internal) };

	// the root directory follows the header (it has to lie in the first 16 KiB); the other sections in any order
	let root_off = 127u64;
	let mut cursor = root_off + root.len() as u64;
	let mut offs = [0u64; 3];
	let lens = [meta.len() as u64, leaves.len() as u64, data.len() as u64];
	let mut layout: Vec<(u8, u64)> = vec![];
	for sec in o.section_order {
		if o.padding {
			cursor += 1 + (cursor * 7 + sec as u64) % 61;
		}
		offs[sec as usize] = cursor;
		layout.push((sec, cursor));
		cursor += lens[sec as usize];
	}
	let (meta_off, leaves_off, data_off) = (offs[0], offs[1], offs[2]);

	let b = super::ivt::geo_bounds(ts);
	let levels = ts.levels();
	let mut h = vec![];
	h.extend_from_slice(b"PMTiles");
	h.push(3);
	for v in [root_off, root.len() as u64, meta_off, meta.len() as u64, leaves_off, leaves.len() as u64, data_off, data.len() as u64, if o.unknown_counts { 0 } else { ts.tiles.len() as u64 }, if o.unknown_counts { 0 } else { n_entries }, if o.unknown_counts { 0 } else { contents }] {
		h.extend_from_slice(&v.to_le_bytes());
	}
	h.push(if o.unclustered { 0 } else { 1 });
	h.push(comp_code(o.internal));
	h.push(comp_code(ts.comp));
	h.push(type_code(super::format_name(ts.format)));
	h.push(*levels.iter().next().unwrap_or(&0));
	h.push(*levels.iter().next_back().unwrap_or(&0));
	for v in b {
		h.extend_from_slice(&((v * 1e7) as i32).to_le_bytes());
	}
	h.push(*levels.iter().next().unwrap_or(&0));
	h.extend_from_slice(&(((b[0] + b[2]) * 5e6) as i32).to_le_bytes());
	h.extend_from_slice(&(((b[1] + b[3]) * 5e6) as i32).to_le_bytes());
	assert_eq!(h.len(), 127);
	let mut out = h;
	out.extend_from_slice(&root);
	for (sec, off) in layout {
		while (out.len() as u64) < off {
			out.push(0xAA);
		}
		match sec {
			0 => out.extend_from_slice(&meta),
			1 => out.extend_from_slice(&leaves),
			_ => out.extend_from_slice(&data),
		}
	}
	out
}

/// size of header + root directory (the specification wants it within 16 KiB)
pub fn root_end(bytes: &[u8]) -> u64 {
	parse_header(bytes).map(|h| h.root.0 + h.root.1).unwrap_or(0)
}

pub fn _unused(_: &BTreeMap<Key, Vec<u8>>) {}
