//! versatiles_v02, written from the published container specification:
//! 66-byte big-endian header | metadata (pre-compressed) | blocks (tile blobs + brotli tile index) | brotli block index.

use super::{slice, Decoded, Rd};
use crate::comp::{self, Comp};
use crate::gen::{Key, TileSet};
use crate::rng::Rng;
use std::collections::BTreeMap;

fn format_code(name: &str) -> u8 {
	match name {
		"bin" => 0x00,
		"png" => 0x10,
		"jpg" => 0x11,
		"webp" => 0x12,
		"avif" => 0x13,
		"svg" => 0x14,
		"pbf" => 0x20,
		"geojson" => 0x21,
		"topojson" => 0x22,
		"json" => 0x23,
		_ => 0xff,
	}
}
fn format_from_code(c: u8) -> Option<&'static str> {
	Some(match c {
		0x00 => "bin",
		0x10 => "png",
		0x11 => "jpg",
		0x12 => "webp",
		0x13 => "avif",
		0x14 => "svg",
		0x20 => "pbf",
		0x21 => "geojson",
		0x22 => "topojson",
		0x23 => "json",
		_ => return None,
	})
}

#[derive(Debug, Clone)]
pub struct Header {
	pub format: String,
	pub comp: Comp,
	pub zoom: (u8, u8),
	pub bbox: [i32; 4],
	pub meta: (u64, u64),
	pub blocks: (u64, u64),
}

pub fn parse_header(bytes: &[u8]) -> Result<Header, String> {
	if bytes.len() < 66 {
		return Err("shorter than the 66-byte header".into());
	}
	let mut r = Rd::new(&bytes[..66]);
	if r.take(14)? != b"versatiles_v02" {
		return Err("bad magic".into());
	}
	let format = format_from_code(r.u8()?).ok_or("unknown tile format code")?.to_string();
	let comp = match r.u8()? {
		0 => Comp::None,
		1 => Comp::Gzip,
		2 => Comp::Brotli,
		_ => return Err("unknown compression code".into()),
	};
	let zoom = (r.u8()?, r.u8()?);
	let bbox = [r.i32_be()?, r.i32_be()?, r.i32_be()?, r.i32_be()?];
	let meta = (r.u64_be()?, r.u64_be()?);
	let blocks = (r.u64_be()?, r.u64_be()?);
	Ok(Header { format, comp, zoom, bbox, meta, blocks })
}

#[derive(Debug, Clone)]
pub struct BlockRec {
	pub level: u8,
	pub col: u32,
	pub row: u32,
	pub col_min: u8,
	pub row_min: u8,
	pub col_max: u8,
	pub row_max: u8,
	pub offset: u64,
	pub blobs_len: u64,
	pub index_len: u32,
}

pub fn parse_block_index(raw: &[u8]) -> Result<Vec<BlockRec>, String> {
	if raw.len() % 33 != 0 {
		return Err(format!("block index length {} is not a multiple of 33", raw.len()));
	}
	let mut r = Rd::new(raw);
	let mut v = vec![];
	while !r.done() {
		v.push(BlockRec {
			level: r.u8()?,
			col: r.u32_be()?,
			row: r.u32_be()?,
			col_min: r.u8()?,
			row_min: r.u8()?,
			col_max: r.u8()?,
			row_max: r.u8()?,
			offset: r.u64_be()?,
			blobs_len: r.u64_be()?,
			index_len: r.u32_be()?,
		});
	}
	Ok(v)
}

pub struct DecodeInfo {
	pub blocks: usize,
	pub shared_ranges: usize,
}

pub fn decode(bytes: &[u8]) -> Result<Decoded, String> {
	decode_info(bytes).map(|x| x.0)
}

pub fn decode_info(bytes: &[u8]) -> Result<(Decoded, DecodeInfo), String> {
	let h = parse_header(bytes)?;
	let mut d = Decoded { format: Some(h.format.clone()), comp: Some(h.comp), ..Default::default() };
	if h.meta.1 > 0 {
		let m = slice(bytes, h.meta.0, h.meta.1)?;
		d.meta = Some(comp::decompress(m, h.comp).map_err(|e| format!("metadata is not {} data: {e}", h.comp.name()))?);
	}
	let mut info = DecodeInfo { blocks: 0, shared_ranges: 0 };
	if h.blocks.1 == 0 {
		return Ok((d, info));
	}
	let raw = comp::unbrotli(slice(bytes, h.blocks.0, h.blocks.1)?).map_err(|e| format!("block index: {e}"))?;
	let mut seen_ranges = std::collections::HashSet::new();
	for b in parse_block_index(&raw)? {
		info.blocks += 1;
		if b.level > 31 {
			return Err(format!("block level {}", b.level));
		}
		if b.col_min > b.col_max || b.row_min > b.row_max {
			return Err("block with inverted coverage".into());
		}
		let idx_raw = comp::unbrotli(slice(bytes, b.offset + b.blobs_len, b.index_len as u64)?).map_err(|e| format!("tile index: {e}"))?;
		let w = (b.col_max - b.col_min) as usize + 1;
		let hgt = (b.row_max - b.row_min) as usize + 1;
		if idx_raw.len() != w * hgt * 12 {
			return Err(format!("tile index has {} bytes, expected {}", idx_raw.len(), w * hgt * 12));
		}
		let mut r = Rd::new(&idx_raw);
		for j in 0..hgt {
			for i in 0..w {
				let off = r.u64_be()?;
				let len = r.u32_be()? as u64;
				if len == 0 {
					continue;
				}
				let x = b.col as u64 * 256 + b.col_min as u64 + i as u64;
				let y = b.row as u64 * 256 + b.row_min as u64 + j as u64;
				if x >= (1u64 << b.level) || y >= (1u64 << b.level) {
					return Err(format!("tile {}/{x}/{y} outside its level", b.level));
				}
				// a tile's blob lies inside its block: offsets are relative to the block start and non-negative
				let abs = b.offset.checked_add(off).ok_or_else(|| format!("tile {}/{x}/{y}: blob offset {off} is not inside its block", b.level))?;
				if off.checked_add(len).map(|e| e > b.blobs_len).unwrap_or(true) {
					return Err(format!("tile {}/{x}/{y}: blob [{off}, +{len}] is not inside its block of {} bytes", b.level, b.blobs_len));
				}
				if !seen_ranges.insert((abs, len)) {
					info.shared_ranges += 1;
				}
				let data = slice(bytes, abs, len)?;
				if d.tiles.insert((b.level, x as u32, y as u32), data.to_vec()).is_some() {
					return Err(format!("tile {}/{x}/{y} defined twice", b.level));
				}
			}
		}
	}
	Ok((d, info))
}

/// freedoms the specification leaves to an encoder
#[derive(Clone, Debug)]
pub struct EncOpts {
	/// block coverage = exact bounding box of the tiles in the block (instead of the clipped level box)
	pub partial_blocks: bool,
	pub shuffle_blocks: bool,
	pub shuffle_tiles: bool,
	pub dedup: bool,
	pub no_meta: bool,
	/// bytes of padding between tile blobs
	pub gaps: bool,
	/// a tile whose bytes occur inside a blob already stored in the block is addressed as a range inside that blob
	pub nested_ranges: bool,
	/// the block index sits right behind the header, in front of metadata and tile data (the header names every
	/// section by offset, so any order is legal; a streaming reader likes the index first)
	pub index_first: bool,
	/// some blocks keep their tile index right at the block offset (declared tile-blob length 0) and the blobs in
	/// a pool behind it; index entries are relative to the block offset, so the reader serves them all the same.
	/// Not claimed to be the published layout (the harness's own decoder refuses it) — only used where the
	/// consistency of what the real reader returns is checked.
	pub pooled_blobs: bool,
	/// the two zoom bytes of the header say less than the block index (an encoder that leaves them 0 / records
	/// only its first level / appends levels later): like `pooled_blobs` only used where the reader is compared
	/// with itself — what it serves comes from the block index
	pub sloppy_zoom_bytes: bool,
}

impl EncOpts {
	pub fn random(rng: &mut Rng) -> EncOpts {
		EncOpts { partial_blocks: rng.chance(0.6), shuffle_blocks: rng.chance(0.6), shuffle_tiles: rng.chance(0.5), dedup: rng.chance(0.5), no_meta: rng.chance(0.25), gaps: rng.chance(0.3), nested_ranges: rng.chance(0.4), index_first: rng.chance(0.3), pooled_blobs: false, sloppy_zoom_bytes: false }
	}
	pub fn plain() -> EncOpts {
		EncOpts { partial_blocks: false, shuffle_blocks: false, shuffle_tiles: false, dedup: false, no_meta: false, gaps: false, nested_ranges: false, index_first: false, pooled_blobs: false, sloppy_zoom_bytes: false }
	}
}

fn merc_lon(x: f64, z: u8) -> f64 {
	(x / (2f64).powi(z as i32) - 0.5) * 360.0
}
fn merc_lat(y: f64, z: u8) -> f64 {
	let n = std::f64::consts::PI * (1.0 - 2.0 * y / (2f64).powi(z as i32));
	n.sinh().atan().to_degrees()
}

/// geographic bounds (e7) of the highest level
pub fn geo_bounds(ts: &TileSet) -> [f64; 4] {
	let b = ts.bounds();
	match b.iter().next_back() {
		None => [-180.0, -85.0, 180.0, 85.0],
		Some((z, b)) => [merc_lon(b.0 as f64, *z), merc_lat(b.3 as f64 + 1.0, *z), merc_lon(b.2 as f64 + 1.0, *z), merc_lat(b.1 as f64, *z)],
	}
}

pub fn encode(ts: &TileSet, o: &EncOpts, rng: &mut Rng) -> Vec<u8> {
	// any window size is the encoder's choice
	comp::set_brotli_window(rng.range(10, 24) as u32);
	let out = encode_inner(ts, o, rng);
	comp::set_brotli_window(22);
	out
}

fn encode_inner(ts: &TileSet, o: &EncOpts, rng: &mut Rng) -> Vec<u8> {
	let format = super::format_name(ts.format);
	let mut out = vec![0u8; 66];
	// room for the block index in front of everything else: 33 bytes per block and some slack for the compressor
	let n_blocks = ts.tiles.keys().map(|k| (k.0, k.1 / 256, k.2 / 256)).collect::<std::collections::BTreeSet<_>>().len();
	let slot = if o.index_first { 33 * n_blocks + 96 } else { 0 };
	out.extend(std::iter::repeat(0u8).take(slot));
	// metadata
	let mut meta_range = (0u64, 0u64);
	if !o.no_meta {
		let m = comp::compress(ts.tilejson.as_bytes(), ts.comp);
		meta_range = (out.len() as u64, m.len() as u64);
		out.extend_from_slice(&m);
	}
	// group tiles by block
	let mut blocks: BTreeMap<(u8, u32, u32), Vec<(&Key, &Vec<u8>)>> = BTreeMap::new();
	for (k, v) in &ts.tiles {
		blocks.entry((k.0, k.1 / 256, k.2 / 256)).or_default().push((k, v));
	}
	let level_bounds = ts.bounds();
	let mut order: Vec<(u8, u32, u32)> = blocks.keys().cloned().collect();
	if o.shuffle_blocks {
		rng.shuffle(&mut order);
	}
	let mut recs: Vec<Vec<u8>> = vec![];
	for bk in order {
		let tiles = &blocks[&bk];
		let (z, bc, br) = bk;
		// coverage inside the block
		let (mut c0, mut r0, mut c1, mut r1) = (255u32, 255u32, 0u32, 0u32);
		if o.partial_blocks {
			for (k, _) in tiles {
				c0 = c0.min(k.1 % 256);
				r0 = r0.min(k.2 % 256);
				c1 = c1.max(k.1 % 256);
				r1 = r1.max(k.2 % 256);
			}
		} else {
			let lb = level_bounds[&z];
			c0 = lb.0.max(bc * 256) - bc * 256;
			r0 = lb.1.max(br * 256) - br * 256;
			c1 = lb.2.min(bc * 256 + 255) - bc * 256;
			r1 = lb.3.min(br * 256 + 255) - br * 256;
		}
		let w = (c1 - c0 + 1) as usize;
		let h = (r1 - r0 + 1) as usize;
		let block_offset = out.len() as u64;
		let pooled = o.pooled_blobs && rng.chance(0.6);
		// pooled: a slot for the index at the block offset, blobs behind it
		let idx_slot = if pooled { w * h * 12 + 64 } else { 0 };
		out.extend(std::iter::repeat(0x55u8).take(idx_slot));
		let mut index = vec![(0u64, 0u32); w * h];
		let mut torder: Vec<usize> = (0..tiles.len()).collect();
		if o.shuffle_tiles {
			rng.shuffle(&mut torder);
		}
		let mut dedup: std::collections::HashMap<&Vec<u8>, (u64, u32)> = std::collections::HashMap::new();
		let mut stored: Vec<(&Vec<u8>, u64)> = vec![];
		for ti in torder {
			let (k, v) = tiles[ti];
			let slot = ((k.2 % 256 - r0) as usize) * w + (k.1 % 256 - c0) as usize;
			if o.dedup {
				if let Some(r) = dedup.get(v) {
					index[slot] = *r;
					continue;
				}
			}
			if o.nested_ranges && !v.is_empty() && v.len() <= 4096 {
				// (only small blobs are searched for)
				if let Some((off, at)) = stored.iter().filter(|(b, _)| b.len() > v.len() && b.len() <= 8192).find_map(|(b, off)| b.windows(v.len()).position(|w| w == v.as_slice()).map(|at| (*off, at))) {
					index[slot] = (off + at as u64, v.len() as u32);
					continue;
				}
			}
			if o.gaps && rng.chance(0.3) {
				let n = rng.range(1, 40) as usize;
				out.extend_from_slice(&rng.bytes(n));
			}
			let r = (out.len() as u64 - block_offset, v.len() as u32);
			out.extend_from_slice(v);
			index[slot] = r;
			dedup.insert(v, r);
			stored.push((v, r.0));
		}
		if o.gaps && rng.chance(0.3) {
			// padding behind the last blob of the block
			let n = rng.range(1, 64) as usize;
			out.extend_from_slice(&rng.bytes(n));
		}
		let blobs_len = if pooled { 0 } else { out.len() as u64 - block_offset };
		let mut idx_raw = Vec::with_capacity(index.len() * 12);
		for (off, len) in &index {
			idx_raw.extend_from_slice(&off.to_be_bytes());
			idx_raw.extend_from_slice(&len.to_be_bytes());
		}
		let idx = comp::brotli(&idx_raw);
		if pooled && idx.len() <= idx_slot {
			let at = block_offset as usize;
			out[at..at + idx.len()].copy_from_slice(&idx);
		} else {
			out.extend_from_slice(&idx);
		}
		let blobs_len = if pooled && idx.len() > idx_slot { out.len() as u64 - block_offset - idx.len() as u64 } else { blobs_len };
		let mut rec = vec![z];
		rec.extend_from_slice(&bc.to_be_bytes());
		rec.extend_from_slice(&br.to_be_bytes());
		rec.extend_from_slice(&[c0 as u8, r0 as u8, c1 as u8, r1 as u8]);
		rec.extend_from_slice(&block_offset.to_be_bytes());
		rec.extend_from_slice(&blobs_len.to_be_bytes());
		rec.extend_from_slice(&(idx.len() as u32).to_be_bytes());
		recs.push(rec);
	}
	if o.shuffle_blocks {
		rng.shuffle(&mut recs);
	}
	let bi = comp::brotli(&recs.concat());
	let blocks_range = if o.index_first && bi.len() <= slot {
		out[66..66 + bi.len()].copy_from_slice(&bi);
		(66u64, bi.len() as u64)
	} else {
		let r = (out.len() as u64, bi.len() as u64);
		out.extend_from_slice(&bi);
		r
	};
	// header
	let mut h = Vec::with_capacity(66);
	h.extend_from_slice(b"versatiles_v02");
	h.push(format_code(format));
	h.push(match ts.comp {
		Comp::None => 0,
		Comp::Gzip => 1,
		Comp::Brotli => 2,
	});
	let levels = ts.levels();
	let (zlo, zhi) = (*levels.iter().next().unwrap_or(&0), *levels.iter().next_back().unwrap_or(&0));
	if o.sloppy_zoom_bytes {
		let (a, b) = *rng.pick(&[(0u8, 0u8), (zlo, zlo), (zhi, zhi), (zhi, zlo)]);
		h.push(a);
		h.push(b);
	} else {
		h.push(zlo);
		h.push(zhi);
	}
	for v in geo_bounds(ts) {
		h.extend_from_slice(&((v * 1e7) as i32).to_be_bytes());
	}
	for v in [meta_range.0, meta_range.1, blocks_range.0, blocks_range.1] {
		h.extend_from_slice(&v.to_be_bytes());
	}
	out[..66].copy_from_slice(&h);
	out
}
