//! Independent container codecs, written from the published layouts. They share no code with
//! `/repo`; compression primitives come from `crate::comp`.

use crate::comp::Comp;
use crate::gen::Key;
use std::collections::BTreeMap;

pub mod idir;
pub mod imb;
pub mod imvt;
pub mod ipm;
pub mod itar;
pub mod ivt;

#[derive(Clone, Debug, Default)]
pub struct Decoded {
	/// lower-case format name ("png", "pbf", …); None if the container cannot express it
	pub format: Option<String>,
	pub comp: Option<Comp>,
	pub tiles: BTreeMap<Key, Vec<u8>>,
	/// metadata, decompressed; None if the container holds none
	pub meta: Option<Vec<u8>>,
	pub notes: Vec<String>,
}

pub fn format_name(f: versatiles_core::types::TileFormat) -> &'static str {
	use versatiles_core::types::TileFormat::*;
	match f {
		AVIF => "avif",
		BIN => "bin",
		GEOJSON => "geojson",
		JPG => "jpg",
		JSON => "json",
		PBF => "pbf",
		PNG => "png",
		SVG => "svg",
		TOPOJSON => "topojson",
		WEBP => "webp",
	}
}

/// file-name extensions of tar / directory containers (independent table)
pub fn split_tile_filename(name: &str) -> Option<(String, &'static str, Comp)> {
	let (rest, comp) = if let Some(r) = name.strip_suffix(".gz") {
		(r, Comp::Gzip)
	} else if let Some(r) = name.strip_suffix(".br") {
		(r, Comp::Brotli)
	} else {
		(name, Comp::None)
	};
	for (ext, f) in [
		(".avif", "avif"),
		(".bin", "bin"),
		(".geojson", "geojson"),
		(".jpg", "jpg"),
		(".jpeg", "jpg"),
		(".json", "json"),
		(".pbf", "pbf"),
		(".png", "png"),
		(".svg", "svg"),
		(".topojson", "topojson"),
		(".webp", "webp"),
	] {
		if let Some(stem) = rest.strip_suffix(ext) {
			return Some((stem.to_string(), f, comp));
		}
	}
	None
}

pub fn ext_of(format: &str) -> String {
	format!(".{format}")
}

// little helpers for byte assembly / parsing
pub struct Rd<'a> {
	pub b: &'a [u8],
	pub p: usize,
}
impl<'a> Rd<'a> {
	pub fn new(b: &'a [u8]) -> Rd<'a> {
		Rd { b, p: 0 }
	}
	pub fn take(&mut self, n: usize) -> Result<&'a [u8], String> {
		if self.p + n > self.b.len() {
			return Err(format!("unexpected end of data at {} (+{n}) of {}", self.p, self.b.len()));
		}
		let s = &self.b[self.p..self.p + n];
		self.p += n;
		Ok(s)
	}
	pub fn u8(&mut self) -> Result<u8, String> {
		Ok(self.take(1)?[0])
	}
	pub fn u32_be(&mut self) -> Result<u32, String> {
		let s = self.take(4)?;
		Ok(u32::from_be_bytes([s[0], s[1], s[2], s[3]]))
	}
	pub fn i32_be(&mut self) -> Result<i32, String> {
		Ok(self.u32_be()? as i32)
	}
	pub fn u64_be(&mut self) -> Result<u64, String> {
		let s = self.take(8)?;
		let mut a = [0u8; 8];
		a.copy_from_slice(s);
		Ok(u64::from_be_bytes(a))
	}
	pub fn u64_le(&mut self) -> Result<u64, String> {
		let s = self.take(8)?;
		let mut a = [0u8; 8];
		a.copy_from_slice(s);
		Ok(u64::from_le_bytes(a))
	}
	pub fn i32_le(&mut self) -> Result<i32, String> {
		let s = self.take(4)?;
		Ok(i32::from_le_bytes([s[0], s[1], s[2], s[3]]))
	}
	pub fn varint(&mut self) -> Result<u64, String> {
		let mut v = 0u64;
		let mut shift = 0;
		loop {
			let b = self.u8()?;
			if shift >= 64 {
				return Err("varint too long".into());
			}
			v |= ((b & 0x7f) as u64) << shift;
			if b & 0x80 == 0 {
				return Ok(v);
			}
			shift += 7;
		}
	}
	pub fn done(&self) -> bool {
		self.p >= self.b.len()
	}
}

pub fn put_varint(out: &mut Vec<u8>, mut v: u64) {
	loop {
		let b = (v & 0x7f) as u8;
		v >>= 7;
		if v == 0 {
			out.push(b);
			return;
		}
		out.push(b | 0x80);
	}
}

pub fn slice(bytes: &[u8], off: u64, len: u64) -> Result<&[u8], String> {
	let end = off.checked_add(len).ok_or("range overflow")?;
	if end > bytes.len() as u64 {
		return Err(format!("range {off}+{len} beyond the file ({} bytes)", bytes.len()));
	}
	Ok(&bytes[off as usize..end as usize])
}
