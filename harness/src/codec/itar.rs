//! tar (ustar / GNU) container of tiles, hand parsed and written: 512-byte headers, octal sizes,
//! members `[./]{z}/{x}/{y}.{ext}[.gz|.br]`, metadata `tiles.json|meta.json|metadata.json[.gz|.br]`.

use super::{split_tile_filename, Decoded};
use crate::comp::{self, Comp};
use crate::gen::TileSet;
use crate::rng::Rng;

fn octal(field: &[u8]) -> Result<u64, String> {
	// GNU base-256 for huge values
	if !field.is_empty() && field[0] & 0x80 != 0 {
		let mut v: u64 = 0;
		for b in &field[1..] {
			v = (v << 8) | *b as u64;
		}
		return Ok(v);
	}
	let s: String = field.iter().take_while(|b| **b != 0).map(|b| *b as char).collect();
	let s = s.trim();
	if s.is_empty() {
		return Ok(0);
	}
	u64::from_str_radix(s, 8).map_err(|e| format!("bad octal field {s:?}: {e}"))
}

fn cstr(field: &[u8]) -> String {
	String::from_utf8_lossy(&field[..field.iter().position(|b| *b == 0).unwrap_or(field.len())]).to_string()
}

pub struct Member {
	pub name: String,
	pub typeflag: u8,
	pub data_offset: usize,
	pub size: usize,
}

pub fn members(bytes: &[u8]) -> Result<Vec<Member>, String> {
	let mut v = vec![];
	let mut p = 0usize;
	let mut long_name: Option<String> = None;
	while p + 512 <= bytes.len() {
		let h = &bytes[p..p + 512];
		if h.iter().all(|b| *b == 0) {
			break;
		}
		// checksum
		let stored = octal(&h[148..156])?;
		let mut sum: u64 = 0;
		for (i, b) in h.iter().enumerate() {
			sum += if (148..156).contains(&i) { 32 } else { *b as u64 };
		}
		if sum != stored {
			return Err(format!("header checksum mismatch at offset {p}"));
		}
		let size = octal(&h[124..136])? as usize;
		let typeflag = h[156];
		let mut name = cstr(&h[0..100]);
		let prefix = cstr(&h[345..500]);
		if &h[257..262] == b"ustar" && !prefix.is_empty() && h[263] != b' ' {
			name = format!("{prefix}/{name}");
		}
		let data_offset = p + 512;
		if data_offset + size > bytes.len() {
			return Err(format!("member {name:?} reaches beyond the archive"));
		}
		if typeflag == b'L' {
			long_name = Some(cstr(&bytes[data_offset..data_offset + size]));
		} else {
			if let Some(l) = long_name.take() {
				name = l;
			}
			v.push(Member { name, typeflag, data_offset, size });
		}
		p = data_offset + size.div_ceil(512) * 512;
	}
	Ok(v)
}

pub fn decode(bytes: &[u8]) -> Result<Decoded, String> {
	let mut d = Decoded::default();
	for m in members(bytes)? {
		if m.typeflag != b'0' && m.typeflag != 0 {
			continue;
		}
		let name = m.name.strip_prefix("./").unwrap_or(&m.name);
		let data = &bytes[m.data_offset..m.data_offset + m.size];
		let parts: Vec<&str> = name.split('/').collect();
		if parts.len() == 3 {
			if let Some((stem, f, c)) = split_tile_filename(parts[2]) {
				let (z, x, y) = match (parts[0].parse::<u8>(), parts[1].parse::<u32>(), stem.parse::<u32>()) {
					(Ok(z), Ok(x), Ok(y)) => (z, x, y),
					_ => {
						d.notes.push(format!("member {name:?} is not z/x/y"));
						continue;
					}
				};
				match (&d.format, d.comp) {
					(None, _) => {
						d.format = Some(f.to_string());
						d.comp = Some(c);
					}
					(Some(f0), Some(c0)) if f0 == f && c0 == c => {}
					_ => return Err(format!("mixed tile formats / compressions ({name})")),
				}
				if d.tiles.insert((z, x, y), data.to_vec()).is_some() {
					// legal in a tar (an archive that was appended to): the last member of a name is the valid one
					d.notes.push(format!("tile {name} stored twice"));
				}
				continue;
			}
		}
		if parts.len() == 1 {
			let (base, c) = if let Some(b) = name.strip_suffix(".gz") {
				(b, Comp::Gzip)
			} else if let Some(b) = name.strip_suffix(".br") {
				(b, Comp::Brotli)
			} else {
				(name, Comp::None)
			};
			if ["tiles.json", "meta.json", "metadata.json"].contains(&base) {
				d.meta = Some(comp::decompress(data, c).map_err(|e| format!("metadata member {name}: {e}"))?);
				continue;
			}
		}
		d.notes.push(format!("unknown member {name:?}"));
	}
	Ok(d)
}

fn header(name: &str, size: usize, typeflag: u8) -> [u8; 512] {
	let mut h = [0u8; 512];
	let nb = name.as_bytes();
	assert!(nb.len() <= 100, "name too long for a plain ustar header");
	h[..nb.len()].copy_from_slice(nb);
	h[100..108].copy_from_slice(b"0000644\0");
	h[108..116].copy_from_slice(b"0000000\0");
	h[116..124].copy_from_slice(b"0000000\0");
	h[124..136].copy_from_slice(format!("{:011o}\0", size).as_bytes());
	h[136..148].copy_from_slice(b"00000000000\0");
	h[156] = typeflag;
	h[257..263].copy_from_slice(b"ustar\0");
	h[263..265].copy_from_slice(b"00");
	for b in h[148..156].iter_mut() {
		*b = b' ';
	}
	let sum: u32 = h.iter().map(|b| *b as u32).sum();
	h[148..156].copy_from_slice(format!("{:06o}\0 ", sum).as_bytes());
	h
}

#[derive(Clone, Debug)]
pub struct EncOpts {
	pub dot_prefix: bool,
	pub dir_members: bool,
	pub shuffle: bool,
	pub meta_name: &'static str,
	pub no_meta: bool,
	/// metadata member placed last instead of first
	pub meta_last: bool,
	/// an archive that was appended to (`tar -r` / `tar -u`): some tiles occur twice under the same name, the
	/// older revision first — the last member of a name is the valid one
	pub revisions: bool,
}

impl EncOpts {
	pub fn random(rng: &mut Rng) -> EncOpts {
		EncOpts {
			dot_prefix: rng.chance(0.5),
			dir_members: rng.chance(0.5),
			shuffle: rng.chance(0.6),
			meta_name: *rng.pick(&["tiles.json", "meta.json", "metadata.json"]),
			no_meta: rng.chance(0.2),
			meta_last: rng.chance(0.4),
			revisions: rng.chance(0.3),
		}
	}
}

pub fn encode(ts: &TileSet, o: &EncOpts, rng: &mut Rng) -> Vec<u8> {
	let ext = super::ext_of(super::format_name(ts.format));
	let pre = if o.dot_prefix { "./" } else { "" };
	let mut items: Vec<(String, Vec<u8>, u8)> = vec![];
	let mut dirs = std::collections::BTreeSet::new();
	for (k, v) in &ts.tiles {
		if o.dir_members {
			dirs.insert(format!("{pre}{}/", k.0));
			dirs.insert(format!("{pre}{}/{}/", k.0, k.1));
		}
		items.push((format!("{pre}{}/{}/{}{}{}", k.0, k.1, k.2, ext, ts.comp.ext()), v.clone(), b'0'));
	}
	if o.shuffle {
		rng.shuffle(&mut items);
	}
	if o.revisions {
		let mut older: Vec<(String, Vec<u8>, u8)> = vec![];
		for (i, (name, data, tf)) in items.iter().enumerate() {
			if i % 5 == 1 || i == 0 {
				let raw = format!("older revision of {name}, replaced by a later member").into_bytes();
				older.push((name.clone(), if ts.really_compressed { comp::compress(&raw, ts.comp) } else if data.is_empty() { b"x".to_vec() } else { raw }, *tf));
			}
		}
		older.extend(items);
		items = older;
	}
	let mut all: Vec<(String, Vec<u8>, u8)> = dirs.into_iter().map(|d| (d, vec![], b'5')).collect();
	let meta = (format!("{pre}{}{}", o.meta_name, ts.comp.ext()), comp::compress(ts.tilejson.as_bytes(), ts.comp), b'0');
	if !o.no_meta && !o.meta_last {
		all.push(meta.clone());
	}
	all.extend(items);
	if !o.no_meta && o.meta_last {
		all.push(meta);
	}
	let mut out = vec![];
	for (name, data, tf) in all {
		out.extend_from_slice(&header(&name, data.len(), tf));
		out.extend_from_slice(&data);
		let pad = (512 - data.len() % 512) % 512;
		out.extend(std::iter::repeat(0u8).take(pad));
	}
	out.extend(std::iter::repeat(0u8).take(1024));
	out
}
