//! Mapbox Vector Tile (v2.1 protobuf) — own varint / zig-zag / field walker.
//! The decoder yields a canonical value (what a tile *means*), the encoder can use the freedoms
//! the specification leaves open (duplicate / unused table entries, field order, int encodings).

use super::{put_varint, Rd};
use crate::rng::Rng;
use std::collections::BTreeMap;

#[derive(Clone, Debug, PartialEq)]
pub enum CVal {
	Str(String),
	F32(u32),
	F64(u64),
	/// int64 / sint64 / uint64 compared by mathematical value
	Int(i128),
	Bool(bool),
}

#[derive(Clone, Debug, PartialEq)]
pub struct CFeature {
	pub id: Option<u64>,
	pub gtype: u64,
	pub geom: Vec<u8>,
	pub props: BTreeMap<String, CVal>,
}

#[derive(Clone, Debug, PartialEq)]
pub struct CLayer {
	pub name: String,
	pub version: u32,
	pub extent: u32,
	pub features: Vec<CFeature>,
}

#[derive(Clone, Debug, PartialEq, Default)]
pub struct CTile {
	pub layers: Vec<CLayer>,
}

impl CTile {
	pub fn layer(&self, name: &str) -> Option<&CLayer> {
		self.layers.iter().find(|l| l.name == name)
	}
	pub fn layer_names(&self) -> Vec<String> {
		self.layers.iter().map(|l| l.name.clone()).collect()
	}
}

fn skip(r: &mut Rd, wire: u8) -> Result<(), String> {
	match wire {
		0 => {
			r.varint()?;
		}
		1 => {
			r.take(8)?;
		}
		2 => {
			let n = r.varint()? as usize;
			r.take(n)?;
		}
		5 => {
			r.take(4)?;
		}
		w => return Err(format!("wire type {w}")),
	}
	Ok(())
}

fn zigzag(v: u64) -> i64 {
	((v >> 1) as i64) ^ -((v & 1) as i64)
}

fn dec_value(b: &[u8]) -> Result<CVal, String> {
	let mut r = Rd::new(b);
	let mut out = None;
	while !r.done() {
		let key = r.varint()?;
		let (f, w) = (key >> 3, (key & 7) as u8);
		out = Some(match (f, w) {
			(1, 2) => {
				let n = r.varint()? as usize;
				CVal::Str(String::from_utf8(r.take(n)?.to_vec()).map_err(|e| e.to_string())?)
			}
			(2, 5) => {
				let s = r.take(4)?;
				CVal::F32(u32::from_le_bytes([s[0], s[1], s[2], s[3]]))
			}
			(3, 1) => CVal::F64(r.u64_le()?),
			(4, 0) => CVal::Int(r.varint()? as i64 as i128),
			(5, 0) => CVal::Int(r.varint()? as i128),
			(6, 0) => CVal::Int(zigzag(r.varint()?) as i128),
			(7, 0) => CVal::Bool(r.varint()? != 0),
			(_, w) => {
				skip(&mut r, w)?;
				continue;
			}
		});
	}
	out.ok_or_else(|| "value message without a value".to_string())
}

pub fn decode(b: &[u8]) -> Result<CTile, String> {
	let mut r = Rd::new(b);
	let mut t = CTile::default();
	while !r.done() {
		let key = r.varint()?;
		let (f, w) = (key >> 3, (key & 7) as u8);
		if f == 3 && w == 2 {
			let n = r.varint()? as usize;
			t.layers.push(dec_layer(r.take(n)?)?);
		} else {
			skip(&mut r, w)?;
		}
	}
	Ok(t)
}

fn dec_layer(b: &[u8]) -> Result<CLayer, String> {
	let mut r = Rd::new(b);
	let mut name = None;
	let mut version = 1u32;
	let mut extent = 4096u32;
	let mut keys: Vec<String> = vec![];
	let mut vals: Vec<CVal> = vec![];
	let mut feats: Vec<(Option<u64>, Vec<u32>, u64, Vec<u8>)> = vec![];
	while !r.done() {
		let key = r.varint()?;
		let (f, w) = (key >> 3, (key & 7) as u8);
		match (f, w) {
			(15, 0) => version = r.varint()? as u32,
			(1, 2) => {
				let n = r.varint()? as usize;
				name = Some(String::from_utf8(r.take(n)?.to_vec()).map_err(|e| e.to_string())?);
			}
			(2, 2) => {
				let n = r.varint()? as usize;
				let mut fr = Rd::new(r.take(n)?);
				let (mut id, mut tags, mut gt, mut geom) = (None, vec![], 0u64, vec![]);
				while !fr.done() {
					let k = fr.varint()?;
					match (k >> 3, (k & 7) as u8) {
						(1, 0) => id = Some(fr.varint()?),
						(2, 2) => {
							let n = fr.varint()? as usize;
							let mut tr = Rd::new(fr.take(n)?);
							while !tr.done() {
								tags.push(tr.varint()? as u32);
							}
						}
						(2, 0) => tags.push(fr.varint()? as u32),
						(3, 0) => gt = fr.varint()?,
						(4, 2) => {
							let n = fr.varint()? as usize;
							geom.extend_from_slice(fr.take(n)?);
						}
						(_, w) => skip(&mut fr, w)?,
					}
				}
				feats.push((id, tags, gt, geom));
			}
			(3, 2) => {
				let n = r.varint()? as usize;
				keys.push(String::from_utf8(r.take(n)?.to_vec()).map_err(|e| e.to_string())?);
			}
			(4, 2) => {
				let n = r.varint()? as usize;
				vals.push(dec_value(r.take(n)?)?);
			}
			(5, 0) => extent = r.varint()? as u32,
			(_, w) => skip(&mut r, w)?,
		}
	}
	let mut features = vec![];
	for (id, tags, gtype, geom) in feats {
		if tags.len() % 2 != 0 {
			return Err("odd number of tags".into());
		}
		let mut props = BTreeMap::new();
		for p in tags.chunks(2) {
			let k = keys.get(p[0] as usize).ok_or("key index out of range")?;
			let v = vals.get(p[1] as usize).ok_or("value index out of range")?;
			props.insert(k.clone(), v.clone());
		}
		features.push(CFeature { id, gtype, geom, props });
	}
	Ok(CLayer { name: name.ok_or("layer without name")?, version, extent, features })
}

// ---- encoder --------------------------------------------------------------------------------

/// concrete wire-level choice for a value
#[derive(Clone, Debug)]
pub enum WVal {
	Str(String),
	F32(f32),
	F64(f64),
	Int64(i64),
	UInt64(u64),
	SInt64(i64),
	Bool(bool),
}

impl WVal {
	pub fn canonical(&self) -> CVal {
		match self {
			WVal::Str(s) => CVal::Str(s.clone()),
			WVal::F32(f) => CVal::F32(f.to_bits()),
			WVal::F64(f) => CVal::F64(f.to_bits()),
			WVal::Int64(v) | WVal::SInt64(v) => CVal::Int(*v as i128),
			WVal::UInt64(v) => CVal::Int(*v as i128),
			WVal::Bool(b) => CVal::Bool(*b),
		}
	}
}

#[derive(Clone, Debug)]
pub struct WFeature {
	pub id: Option<u64>,
	pub gtype: u64,
	pub geom: Vec<u8>,
	pub props: Vec<(String, WVal)>,
}

#[derive(Clone, Debug)]
pub struct WLayer {
	pub name: String,
	pub version: u32,
	pub extent: u32,
	pub features: Vec<WFeature>,
}

#[derive(Clone, Debug, Default)]
pub struct EncOpts {
	/// put every key / value into the table once per use (duplicates) instead of sharing entries
	pub dup_keys: bool,
	pub dup_vals: bool,
	/// extra table entries nobody references
	pub unused_entries: bool,
	/// write the version field first (as most foreign encoders do) and the default extent explicitly
	pub foreign_field_order: bool,
	/// write the packed repeated fields of a feature (tags, geometry) in two chunks: "a packed repeated field may
	/// appear more than once; the payloads are concatenated" (protobuf encoding rules) — what an encoder emits
	/// that appends to a feature it has already started
	pub split_packed: bool,
}

/// position of a varint boundary near the middle of a packed payload (0: none)
fn varint_boundary(b: &[u8]) -> usize {
	let mut ends = vec![];
	for (i, x) in b.iter().enumerate() {
		if x & 0x80 == 0 {
			ends.push(i + 1);
		}
	}
	if ends.len() < 2 {
		return 0;
	}
	ends[ends.len() / 2 - 1]
}

fn put_key(out: &mut Vec<u8>, field: u64, wire: u8) {
	put_varint(out, (field << 3) | wire as u64);
}
fn put_bytes(out: &mut Vec<u8>, field: u64, b: &[u8]) {
	put_key(out, field, 2);
	put_varint(out, b.len() as u64);
	out.extend_from_slice(b);
}

fn enc_value(v: &WVal) -> Vec<u8> {
	let mut o = vec![];
	match v {
		WVal::Str(s) => put_bytes(&mut o, 1, s.as_bytes()),
		WVal::F32(f) => {
			put_key(&mut o, 2, 5);
			o.extend_from_slice(&f.to_le_bytes());
		}
		WVal::F64(f) => {
			put_key(&mut o, 3, 1);
			o.extend_from_slice(&f.to_le_bytes());
		}
		WVal::Int64(v) => {
			put_key(&mut o, 4, 0);
			put_varint(&mut o, *v as u64);
		}
		WVal::UInt64(v) => {
			put_key(&mut o, 5, 0);
			put_varint(&mut o, *v);
		}
		WVal::SInt64(v) => {
			put_key(&mut o, 6, 0);
			put_varint(&mut o, ((*v << 1) ^ (*v >> 63)) as u64);
		}
		WVal::Bool(b) => {
			put_key(&mut o, 7, 0);
			put_varint(&mut o, *b as u64);
		}
	}
	o
}

pub fn encode_layer(l: &WLayer, o: &EncOpts, rng: &mut Rng) -> Vec<u8> {
	let mut keys: Vec<String> = vec![];
	let mut vals: Vec<Vec<u8>> = vec![];
	let mut feats: Vec<Vec<u8>> = vec![];
	// first index of every key / value (tables of wide layers have > 16384 entries)
	let mut kpos: std::collections::HashMap<String, usize> = std::collections::HashMap::new();
	let mut vpos: std::collections::HashMap<Vec<u8>, usize> = std::collections::HashMap::new();
	if o.unused_entries {
		keys.push("unused-key".into());
		vals.push(enc_value(&WVal::Str("unused value".into())));
	}
	for f in &l.features {
		let mut tags: Vec<u32> = vec![];
		for (k, v) in &f.props {
			let ki = match kpos.get(k).cloned() {
				Some(i) if !(o.dup_keys && rng.chance(0.6)) => i,
				_ => {
					keys.push(k.clone());
					kpos.entry(k.clone()).or_insert(keys.len() - 1);
					keys.len() - 1
				}
			};
			let ev = enc_value(v);
			let vi = match vpos.get(&ev).cloned() {
				Some(i) if !(o.dup_vals && rng.chance(0.6)) => i,
				_ => {
					vals.push(ev.clone());
					vpos.entry(ev).or_insert(vals.len() - 1);
					vals.len() - 1
				}
			};
			tags.push(ki as u32);
			tags.push(vi as u32);
		}
		let mut fb = vec![];
		if let Some(id) = f.id {
			put_key(&mut fb, 1, 0);
			put_varint(&mut fb, id);
		}
		if !tags.is_empty() {
			let mut tb = vec![];
			for t in &tags {
				put_varint(&mut tb, *t as u64);
			}
			let at = if o.split_packed && tags.len() >= 4 { varint_boundary(&tb) } else { 0 };
			if at > 0 {
				put_bytes(&mut fb, 2, &tb[..at]);
				put_bytes(&mut fb, 2, &tb[at..]);
			} else {
				put_bytes(&mut fb, 2, &tb);
			}
		}
		put_key(&mut fb, 3, 0);
		put_varint(&mut fb, f.gtype);
		if !f.geom.is_empty() {
			let at = if o.split_packed { varint_boundary(&f.geom) } else { 0 };
			if at > 0 {
				put_bytes(&mut fb, 4, &f.geom[..at]);
				put_bytes(&mut fb, 4, &f.geom[at..]);
			} else {
				put_bytes(&mut fb, 4, &f.geom);
			}
		}
		feats.push(fb);
	}
	if o.unused_entries {
		keys.push("trailing-unused".into());
		vals.push(enc_value(&WVal::Bool(true)));
	}
	let mut out = vec![];
	if o.foreign_field_order {
		put_key(&mut out, 15, 0);
		put_varint(&mut out, l.version as u64);
	}
	put_bytes(&mut out, 1, l.name.as_bytes());
	for f in &feats {
		put_bytes(&mut out, 2, f);
	}
	for k in &keys {
		put_bytes(&mut out, 3, k.as_bytes());
	}
	for v in &vals {
		put_bytes(&mut out, 4, v);
	}
	if l.extent != 4096 || o.foreign_field_order {
		put_key(&mut out, 5, 0);
		put_varint(&mut out, l.extent as u64);
	}
	if !o.foreign_field_order && l.version != 1 {
		put_key(&mut out, 15, 0);
		put_varint(&mut out, l.version as u64);
	}
	out
}

pub fn encode_tile(layers: &[WLayer], o: &EncOpts, rng: &mut Rng) -> Vec<u8> {
	let mut out = vec![];
	for l in layers {
		put_bytes(&mut out, 3, &encode_layer(l, o, rng));
	}
	out
}

pub fn canonical(layers: &[WLayer]) -> CTile {
	CTile {
		layers: layers
			.iter()
			.map(|l| CLayer {
				name: l.name.clone(),
				version: l.version,
				extent: l.extent,
				features: l.features.iter().map(|f| CFeature { id: f.id, gtype: f.gtype, geom: f.geom.clone(), props: f.props.iter().map(|(k, v)| (k.clone(), v.canonical())).collect() }).collect(),
			})
			.collect(),
	}
}

// ---- generator -------------------------------------------------------------------------------

fn zz(v: i64) -> u64 {
	((v << 1) ^ (v >> 63)) as u64
}

/// a geometry command stream (point / line / polygon), as raw packed bytes
pub fn gen_geometry(rng: &mut Rng, gtype: u64) -> Vec<u8> {
	let mut cmds: Vec<u64> = vec![];
	match gtype {
		1 => {
			let n = rng.range(1, 3);
			cmds.push((n << 3) | 1);
			for _ in 0..n {
				cmds.push(zz(rng.range_i(-50, 4200)));
				cmds.push(zz(rng.range_i(-50, 4200)));
			}
		}
		2 | 3 => {
			cmds.push((1 << 3) | 1);
			cmds.push(zz(rng.range_i(0, 4096)));
			cmds.push(zz(rng.range_i(0, 4096)));
			let n = rng.range(2, 5);
			cmds.push((n << 3) | 2);
			for _ in 0..n {
				cmds.push(zz(rng.range_i(-300, 300)));
				cmds.push(zz(rng.range_i(-300, 300)));
			}
			if gtype == 3 {
				cmds.push((1 << 3) | 7);
			}
		}
		_ => {
			if rng.bool() {
				cmds.push((1 << 3) | 1);
				cmds.push(zz(5));
				cmds.push(zz(7));
			}
		}
	}
	let mut out = vec![];
	for c in cmds {
		put_varint(&mut out, c);
	}
	out
}

pub fn gen_value(rng: &mut Rng, extreme: bool) -> WVal {
	match rng.below(9) {
		0 => WVal::Str(["", "a", "Straße", "名前", "𝄞 clef", "line\nbreak", "quote\"s", "x,y;z"][rng.usize_below(8)].to_string()),
		1 => WVal::Str(format!("v{}", rng.below(50))),
		2 => WVal::F32(*rng.pick(&[0.0f32, -0.0, 1.5, -3.25e10, f32::MIN_POSITIVE, f32::MAX])),
		3 => WVal::F64(*rng.pick(&[0.0f64, -0.0, 2.5, 1e-300, -1.7976931348623157e308, 3.141592653589793])),
		// (extreme: the ends of the 64-bit range and the neighbourhood of every narrower integer width — Unix time
		// stamps, populations, 32-bit hashes live there)
		4 => WVal::Int64(if extreme { *rng.pick(&[i64::MIN, i64::MAX, -1, 1 << 62, -(1 << 62), 1 << 30, (1 << 31) - 1, 1 << 31, -(1 << 30) - 1, -(1 << 31), 1_700_000_000, -1_500_000_000, 1 << 32, (1 << 15) - 1, -(1 << 15), 1 << 53]) } else { rng.range_i(-1000, 1000) }),
		5 => WVal::UInt64(if extreme { *rng.pick(&[u64::MAX, 1 << 63, (1 << 63) - 1, 1 << 62, 1 << 31, (1 << 32) - 1, 1 << 32, 3_000_000_000, 1 << 16, (1 << 53) + 1]) } else { rng.below(100_000) }),
		6 => WVal::SInt64(if extreme { *rng.pick(&[i64::MIN, i64::MAX, -(1 << 62), (1 << 62) + 1, -(1 << 62) - 1, 1 << 30, (1 << 30) - 1, (1 << 31) - 1, 1 << 31, -(1 << 30), -(1 << 30) - 1, -(1 << 31), -(1 << 31) - 1, 1_700_000_000, -2_000_000_000]) } else { rng.range_i(-1000, 1000) }),
		7 => WVal::Bool(rng.bool()),
		_ => WVal::UInt64(rng.below(20)),
	}
}

#[derive(Clone, Debug)]
pub struct GenOpts {
	pub layer_names: Vec<String>,
	pub max_layers: usize,
	pub max_features: usize,
	pub extreme_values: bool,
	pub unknown_geom: bool,
	/// every feature gets this property (string or integer), used as join key by C11
	pub id_field: Option<String>,
	pub big_ids: bool,
	/// probability that a tile additionally gets a layer "wide" whose key / value tables cross the
	/// varint borders of the tag indices (128, 16384)
	pub wide_tables: f64,
}

impl Default for GenOpts {
	fn default() -> Self {
		GenOpts { layer_names: vec!["roads".into(), "water".into(), "places".into(), "land use".into(), "ünï".into(), "".into()], max_layers: 4, max_features: 6, extreme_values: true, unknown_geom: true, id_field: None, big_ids: true, wide_tables: 0.0 }
	}
}

pub fn gen_layers(rng: &mut Rng, o: &GenOpts) -> Vec<WLayer> {
	let n = rng.range(1, o.max_layers as u64) as usize;
	let mut names = o.layer_names.clone();
	rng.shuffle(&mut names);
	let mut layers = vec![];
	for name in names.into_iter().take(n) {
		let nf = rng.below(o.max_features as u64 + 1) as usize;
		let keys: Vec<String> = ["kind", "name", "ref", "lanes", "oneway", "height", "name:de", "", "k\u{e9}y"].iter().map(|s| s.to_string()).collect();
		let mut features = vec![];
		for fi in 0..nf {
			// UNKNOWN = 0 is the only further value the specification's enum has
			let gtype = if o.unknown_geom && rng.chance(0.1) { 0 } else { rng.range(1, 3) };
			let mut props: Vec<(String, WVal)> = vec![];
			if let Some(idf) = &o.id_field {
				if rng.chance(0.9) {
					// (ids may also be stored as floating-point numbers: 5.0 joins with the row "5")
					let v = match rng.below(10) {
						0..=3 => WVal::Str(format!("id{}", rng.below(12))),
						4..=7 => WVal::UInt64(rng.below(12)),
						8 => WVal::F64(rng.below(12) as f64),
						_ => WVal::F32(rng.below(12) as f32),
					};
					props.push((idf.clone(), v));
				}
			}
			let mut ks = keys.clone();
			rng.shuffle(&mut ks);
			for k in ks.into_iter().take(rng.below(5) as usize) {
				if Some(&k) == o.id_field.as_ref() {
					continue;
				}
				let ex = o.extreme_values && rng.chance(0.3);
				props.push((k, gen_value(rng, ex)));
			}
			let id = match rng.below(4) {
				0 => None,
				1 if o.big_ids => Some(*rng.pick(&[u64::MAX, 1 << 63, 0, (1 << 53) + 1])),
				_ => Some(fi as u64 + rng.below(1000)),
			};
			features.push(WFeature { id, gtype, geom: gen_geometry(rng, gtype), props });
		}
		layers.push(WLayer { name, version: *rng.pick(&[1u32, 2, 2, 2, 3]), extent: *rng.pick(&[4096u32, 4096, 512, 8192, 256]), features });
	}
	if o.wide_tables > 0.0 && rng.chance(o.wide_tables) {
		layers.push(wide_layer(rng, o));
	}
	layers
}

/// does one of the layers refer to more than 16384 (key, value) pairs — tag indices of three varint bytes?
pub fn has_wide_table(layers: &[WLayer]) -> bool {
	layers.iter().any(|l| l.features.iter().map(|f| f.props.len()).sum::<usize>() > 16384)
}

/// a layer whose features carry so many distinct keys and values that tag indices need two and three
/// varint bytes; values are unique per call, so merging two such layers yields the union of the tables
pub fn wide_layer(rng: &mut Rng, o: &GenOpts) -> WLayer {
	let pairs = *rng.pick(&[130usize, 300, 9000, 17000]);
	let per_feature = *rng.pick(&[1usize, 25, 400]);
	let tag = rng.below(1 << 40);
	let shared_keys = rng.bool();
	let mut features = vec![];
	let mut i = 0;
	while i < pairs {
		let mut props: Vec<(String, WVal)> = vec![];
		if let Some(idf) = &o.id_field {
			props.push((idf.clone(), WVal::UInt64(rng.below(12))));
		}
		for _ in 0..per_feature.min(pairs - i) {
			let k = if shared_keys { format!("k{}", i % per_feature) } else { format!("k{i}") };
			let v = if i % 3 == 0 { WVal::Str(format!("w{tag:x}-{i}")) } else { WVal::UInt64(tag.wrapping_add(i as u64)) };
			props.push((k, v));
			i += 1;
		}
		features.push(WFeature { id: Some(features.len() as u64), gtype: 1, geom: gen_geometry(rng, 1), props });
	}
	WLayer { name: "wide".into(), version: 2, extent: 4096, features }
}
