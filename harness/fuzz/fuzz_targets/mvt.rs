#![no_main]
use libfuzzer_sys::fuzz_target;
fuzz_target!(|data: &[u8]| {
	vtv::fuzzlib::fuzz_mvt(data);
});
